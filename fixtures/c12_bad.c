/* Positive control for C12 (frozen copy of the pinned HMAC with seeded defects): 64-byte keys get hashed (< instead of <=);
 * finalize absorbs only 31 bytes of the inner digest. */
/*
 * Copyright (C) 2022 Southern Storm Software, Pty Ltd.
 *
 * Permission is hereby granted, free of charge, to any person obtaining a
 * copy of this software and associated documentation files (the "Software"),
 * to deal in the Software without restriction, including without limitation
 * the rights to use, copy, modify, merge, publish, distribute, sublicense,
 * and/or sell copies of the Software, and to permit persons to whom the
 * Software is furnished to do so, subject to the following conditions:
 *
 * The above copyright notice and this permission notice shall be included
 * in all copies or substantial portions of the Software.
 *
 * THE SOFTWARE IS PROVIDED "AS IS", WITHOUT WARRANTY OF ANY KIND, EXPRESS
 * OR IMPLIED, INCLUDING BUT NOT LIMITED TO THE WARRANTIES OF MERCHANTABILITY,
 * FITNESS FOR A PARTICULAR PURPOSE AND NONINFRINGEMENT. IN NO EVENT SHALL THE
 * AUTHORS OR COPYRIGHT HOLDERS BE LIABLE FOR ANY CLAIM, DAMAGES OR OTHER
 * LIABILITY, WHETHER IN AN ACTION OF CONTRACT, TORT OR OTHERWISE, ARISING
 * FROM, OUT OF OR IN CONNECTION WITH THE SOFTWARE OR THE USE OR OTHER
 * DEALINGS IN THE SOFTWARE.
 */

#include "TinyJAMBU.h"
#include <string.h>

/**
 * \brief Block size for TinyJAMBU-HMAC.
 */
#define TINYJAMBU_HMAC_BLOCK_SIZE 64

void tinyjambu_hmac
    (unsigned char *out,
     const unsigned char *key, size_t keylen,
     const unsigned char *in, size_t inlen)
{
    tinyjambu_hmac_state_t state;
    tinyjambu_hmac_init(&state, key, keylen);
    tinyjambu_hmac_update(&state, in, inlen);
    tinyjambu_hmac_finalize(&state, key, keylen, out);
    tinyjambu_clean(&state, sizeof(state));
}

static void tinyjambu_hmac_set_key
    (tinyjambu_hmac_state_t *state, const unsigned char *key, size_t keylen,
     unsigned char mask)
{
    unsigned char block[TINYJAMBU_HMAC_BLOCK_SIZE];
    if (keylen < TINYJAMBU_HMAC_BLOCK_SIZE) {
        memcpy(block, key, keylen);
    } else {
        tinyjambu_hash_init(&(state->hash));
        tinyjambu_hash_update(&(state->hash), key, keylen);
        tinyjambu_hash_finalize(&(state->hash), block);
        key = block;
        keylen = TINYJAMBU_HASH_SIZE;
    }
    memset(block + keylen, mask, TINYJAMBU_HMAC_BLOCK_SIZE - keylen);
    while (keylen > 0) {
        --keylen;
        block[keylen] ^= mask;
    }
    tinyjambu_hash_init(&(state->hash));
    tinyjambu_hash_update(&(state->hash), block, sizeof(block));
    tinyjambu_clean(block, sizeof(block));
}

void tinyjambu_hmac_init
    (tinyjambu_hmac_state_t *state, const unsigned char *key, size_t keylen)
{
    tinyjambu_hmac_set_key(state, key, keylen, 0x36);
}

void tinyjambu_hmac_reinit
    (tinyjambu_hmac_state_t *state, const unsigned char *key, size_t keylen)
{
    tinyjambu_hmac_set_key(state, key, keylen, 0x36);
}

void tinyjambu_hmac_free(tinyjambu_hmac_state_t *state)
{
    if (state)
        tinyjambu_hash_free(&(state->hash));
}

void tinyjambu_hmac_update
    (tinyjambu_hmac_state_t *state, const unsigned char *in, size_t inlen)
{
    tinyjambu_hash_update(&(state->hash), in, inlen);
}

void tinyjambu_hmac_finalize
    (tinyjambu_hmac_state_t *state, const unsigned char *key, size_t keylen,
     unsigned char *out)
{
    unsigned char hash[TINYJAMBU_HASH_SIZE];
    tinyjambu_hash_finalize(&(state->hash), hash);
    tinyjambu_hmac_set_key(state, key, keylen, 0x5C);
    tinyjambu_hash_update(&(state->hash), hash, sizeof(hash) - 1);
    tinyjambu_hash_finalize(&(state->hash), out);
    tinyjambu_clean(hash, sizeof(hash));
}
