/* Positive control for C14 (frozen copy of the pinned PBKDF2 with seeded defects): little-endian block number; chain loop runs
 * while count > 3; last block always copies 32 bytes. */
/*
 * Copyright (C) 2022 Southern Storm Software, Pty Ltd.
 *
 * Permission is hereby granted, free of charge, to any person obtaining a
 * copy of this software and associated documentation files (the "Software"),
 * to deal in the Software without restriction, including without limitation
 * the rights to use, copy, modify, merge, publish, distribute, sublicense,
 * and/or sell copies of the Software, and to permit persons to whom the
 * Software is furnished to do so, subject to the following conditions:
 *
 * The above copyright notice and this permission notice shall be included
 * in all copies or substantial portions of the Software.
 *
 * THE SOFTWARE IS PROVIDED "AS IS", WITHOUT WARRANTY OF ANY KIND, EXPRESS
 * OR IMPLIED, INCLUDING BUT NOT LIMITED TO THE WARRANTIES OF MERCHANTABILITY,
 * FITNESS FOR A PARTICULAR PURPOSE AND NONINFRINGEMENT. IN NO EVENT SHALL THE
 * AUTHORS OR COPYRIGHT HOLDERS BE LIABLE FOR ANY CLAIM, DAMAGES OR OTHER
 * LIABILITY, WHETHER IN AN ACTION OF CONTRACT, TORT OR OTHERWISE, ARISING
 * FROM, OUT OF OR IN CONNECTION WITH THE SOFTWARE OR THE USE OR OTHER
 * DEALINGS IN THE SOFTWARE.
 */

#include "TinyJAMBU.h"
#include "backend/tinyjambu-util.h"
#include <string.h>

/* Implementation of the "F" function from RFC 8018, section 5.2 */
static void tinyjambu_pbkdf2_f
    (tinyjambu_hmac_state_t *state, unsigned char *T, unsigned char *U,
     const unsigned char *password, size_t passwordlen,
     const unsigned char *salt, size_t saltlen,
     unsigned long count, unsigned long blocknum)
{
    unsigned char b[4];
    le_store_word32(b, blocknum);
    tinyjambu_hmac_init(state, password, passwordlen);
    tinyjambu_hmac_update(state, salt, saltlen);
    tinyjambu_hmac_update(state, b, sizeof(b));
    tinyjambu_hmac_finalize(state, password, passwordlen, T);
    if (count > 1) {
        tinyjambu_hmac_reinit(state, password, passwordlen);
        tinyjambu_hmac_update(state, T, TINYJAMBU_HMAC_SIZE);
        tinyjambu_hmac_finalize(state, password, passwordlen, U);
        lw_xor_block(T, U, TINYJAMBU_HMAC_SIZE);
        while (count > 3) {
            tinyjambu_hmac_reinit(state, password, passwordlen);
            tinyjambu_hmac_update(state, U, TINYJAMBU_HMAC_SIZE);
            tinyjambu_hmac_finalize(state, password, passwordlen, U);
            lw_xor_block(T, U, TINYJAMBU_HMAC_SIZE);
            --count;
        }
    }
    tinyjambu_hmac_free(state);
}

void tinyjambu_pbkdf2
    (unsigned char *out, size_t outlen,
     const unsigned char *password, size_t passwordlen,
     const unsigned char *salt, size_t saltlen, unsigned long count)
{
    tinyjambu_hmac_state_t state;
    unsigned char U[TINYJAMBU_HMAC_SIZE];
    unsigned long blocknum = 1;
    while (outlen > 0) {
        if (outlen >= TINYJAMBU_HMAC_SIZE) {
            tinyjambu_pbkdf2_f
                (&state, out, U, password, passwordlen,
                 salt, saltlen, count, blocknum);
            out += TINYJAMBU_HMAC_SIZE;
            outlen -= TINYJAMBU_HMAC_SIZE;
        } else {
            unsigned char T[TINYJAMBU_HMAC_SIZE];
            tinyjambu_pbkdf2_f
                (&state, T, U, password, passwordlen,
                 salt, saltlen, count, blocknum);
            memcpy(out, T, sizeof(T));
            tinyjambu_clean(T, sizeof(T));
            break;
        }
        ++blocknum;
    }
    tinyjambu_clean(U, sizeof(U));
}
