/* Positive control for C20: each free/clean here is wrong in a different way. */
#include "TinyJAMBU.h"

void tinyjambu_clean(void *buf, unsigned size)
{
    volatile unsigned char *d = (volatile unsigned char *)buf;
    while (size > 1) {          /* stops one byte early */
        *d++ = 0;
        --size;
    }
}

void tinyjambu_hash_free(tinyjambu_hash_state_t *state)
{
    if (state)
        tinyjambu_clean(state, sizeof(state));            /* sizeof(pointer) */
}

void tinyjambu_hmac_free(tinyjambu_hmac_state_t *state)
{
    (void)state;                                          /* no-op */
}

void tinyjambu_hkdf_free(tinyjambu_hkdf_state_t *state)
{
    if (state && ((unsigned char *)state)[0])             /* conditional wipe */
        tinyjambu_clean(state, sizeof(tinyjambu_hkdf_state_t));
}

void tinyjambu_prng_free(tinyjambu_prng_state_t *state)
{
    tinyjambu_clean(state, 64);                           /* V and C only */
}
