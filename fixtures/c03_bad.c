/* Positive control for C03/C04: wrong guard, tag read from the wrong place, advanced m passed,
 * masked comparison, truncated wipe. */
#include "TinyJAMBU.h"
#include "backend/tinyjambu-aead-common.h"

int tinyjambu_aead_check_tag
    (unsigned char *plaintext, size_t plaintext_len,
     const unsigned char *tag1, const unsigned char *tag2, size_t size)
{
    int accum = 0;
    while (size > 0) {
        accum |= (*tag1++ ^ *tag2++) & 0x7F;      /* bit 7 ignored */
        --size;
    }
    accum = (accum - 1) >> 8;
    if (plaintext_len > 32)
        plaintext_len = 32;                        /* truncated wipe */
    while (plaintext_len > 0) {
        *plaintext++ &= accum;
        --plaintext_len;
    }
    return ~accum;
}

int tinyjambu_128_aead_decrypt
    (unsigned char *m, size_t *mlen, const unsigned char *c, size_t clen,
     const unsigned char *ad, size_t adlen, const unsigned char *npub, const unsigned char *k)
{
    tinyjambu_128_state_t state;
    unsigned char tag[TINYJAMBU_TAG_SIZE];
    uint32_t data;
    if (clen < TINYJAMBU_TAG_SIZE - 1)             /* off by one */
        return -1;
    *mlen = clen - TINYJAMBU_TAG_SIZE;
    state.k[0] = tinyjambu_key_load_even(k);
    state.k[1] = tinyjambu_key_load_odd(k + 4);
    state.k[2] = tinyjambu_key_load_even(k + 8);
    state.k[3] = tinyjambu_key_load_odd(k + 12);
    tinyjambu_setup_128(&state, npub, 0x10);
    tinyjambu_absorb_128(&state, ad, adlen, 0x30, TINYJAMBU_ROUNDS(640));
    clen -= TINYJAMBU_TAG_SIZE;
    while (clen >= 4) {
        tinyjambu_add_domain(&state, 0x50);
        tinyjambu_permutation_128(&state, TINYJAMBU_ROUNDS(1024));
        data = le_load_word32(c) ^ tinyjambu_squeeze(&state);
        tinyjambu_absorb(&state, data);
        le_store_word32(m, data);
        c += 4;
        m += 4;
        clen -= 4;
    }
    if (clen == 1) {
        m[0] = c[0];
        ++c;
    } else if (clen == 2) {
        m[0] = c[0];
        m[1] = c[1];
        c += 2;
    } else if (clen == 3) {
        m[0] = c[0];
        m[1] = c[1];
        m[2] = c[2];
        c += 2;                                     /* should be 3: the tag is read one byte early */
    }
    tinyjambu_generate_tag_128(&state, tag);
    return tinyjambu_aead_check_tag(m, *mlen, tag, c, TINYJAMBU_TAG_SIZE);   /* advanced m */
}
