/* Positive control for C06: off-by-one read, word access through a byte buffer, write through const (and an in-range variable shift that must stay silent). */
#include <stddef.h>
#include <stdint.h>
#include <string.h>
void tinyjambu_hash(unsigned char *out, const unsigned char *in, size_t inlen)
{
    uint32_t w = 0;
    size_t i;
    for (i = 0; i <= inlen; ++i)                 /* reads in[inlen] */
        w ^= in[i];
    if (inlen >= 4)
        w ^= *(const uint32_t *)in;              /* word access through a byte buffer */
    w = (w << (inlen & 31)) | (w >> 3);          /* variable but in-range shift: must NOT be reported */
    ((unsigned char *)in)[0] = (unsigned char)w; /* write through const */
    memset(out, 0, 32);
    out[32] = (unsigned char)w;                  /* one past the 32-byte digest */
}
