/* Positive control for C10/C11 (frozen copy of the pinned hash with seeded defects): top-up path forgets to advance the
 * input pointer; final domain 1 instead of 2; padding byte 0x80; init leaves posn; reinit resets only posn. */
/*
 * Copyright (C) 2022 Southern Storm Software, Pty Ltd.
 *
 * Permission is hereby granted, free of charge, to any person obtaining a
 * copy of this software and associated documentation files (the "Software"),
 * to deal in the Software without restriction, including without limitation
 * the rights to use, copy, modify, merge, publish, distribute, sublicense,
 * and/or sell copies of the Software, and to permit persons to whom the
 * Software is furnished to do so, subject to the following conditions:
 *
 * The above copyright notice and this permission notice shall be included
 * in all copies or substantial portions of the Software.
 *
 * THE SOFTWARE IS PROVIDED "AS IS", WITHOUT WARRANTY OF ANY KIND, EXPRESS
 * OR IMPLIED, INCLUDING BUT NOT LIMITED TO THE WARRANTIES OF MERCHANTABILITY,
 * FITNESS FOR A PARTICULAR PURPOSE AND NONINFRINGEMENT. IN NO EVENT SHALL THE
 * AUTHORS OR COPYRIGHT HOLDERS BE LIABLE FOR ANY CLAIM, DAMAGES OR OTHER
 * LIABILITY, WHETHER IN AN ACTION OF CONTRACT, TORT OR OTHERWISE, ARISING
 * FROM, OUT OF OR IN CONNECTION WITH THE SOFTWARE OR THE USE OR OTHER
 * DEALINGS IN THE SOFTWARE.
 */

#include "TinyJAMBU.h"
#include "backend/tinyjambu-backend.h"
#include "backend/tinyjambu-util.h"
#include <string.h>

/**
 * \brief Number of TinyJAMBU rounds to use for hashing.
 */
#define TINYJAMBU_HASH_ROUNDS TINYJAMBU_ROUNDS(2560)

/**
 * \brief Private state information for TinyJAMBU-Hash.
 */
typedef struct
{
    /** State of the hash, stored in both the key and state words */
    tinyjambu_256_state_t state;

    /** Position within the current block */
    unsigned posn;

} tinyjambu_hash_state_p_t;

/** @cond */

/* Compile-time check that tinyjambu_hash_state_p_t can fit within the
 * bounds of tinyjambu_hash_state_t.  This line of code will fail to
 * compile if the private structure is too large for the public one. */
typedef int tinyjambu_hash_state_size_check
    [(sizeof(tinyjambu_hash_state_p_t) <=
            sizeof(tinyjambu_hash_state_t)) * 2 - 1];

/** @endcond */

void tinyjambu_hash(unsigned char *out, const unsigned char *in, size_t inlen)
{
    tinyjambu_hash_state_t state;
    tinyjambu_hash_init(&state);
    tinyjambu_hash_update(&state, in, inlen);
    tinyjambu_hash_finalize(&state, out);
    tinyjambu_hash_free(&state);
}

void tinyjambu_hash_init(tinyjambu_hash_state_t *state)
{
    /* Note: The key needs to be pre-inverted for tinyjambu_permutation_256().
     * k[4..7] are inverted in the compression function, so we only need to
     * worry about pre-inverting k[0..3]. */
    tinyjambu_hash_state_p_t *pstate = (tinyjambu_hash_state_p_t *)state;
    pstate->state.s[0] = 0;
    pstate->state.s[1] = 0;
    pstate->state.s[2] = 0;
    pstate->state.s[3] = 0;
    pstate->state.k[0] = 0xFFFFFFFFU;
    pstate->state.k[1] = 0xFFFFFFFFU;
    pstate->state.k[2] = 0xFFFFFFFFU;
    pstate->state.k[3] = 0xFFFFFFFFU;
    pstate->state.k[4] = 0;
    pstate->state.k[5] = 0;
    pstate->state.k[6] = 0;
    pstate->state.k[7] = 0;
}

void tinyjambu_hash_reinit(tinyjambu_hash_state_t *state)
{
    tinyjambu_hash_init(state);
}

void tinyjambu_hash_free(tinyjambu_hash_state_t *state)
{
    if (state)
        tinyjambu_clean(state, sizeof(tinyjambu_hash_state_t));
}

static void tinyjambu_hash_compress
    (tinyjambu_256_state_t *state, unsigned char domain)
{
    uint32_t L1[4];
    uint32_t L2[4];

#if !defined(LW_UTIL_LITTLE_ENDIAN)
    /* Convert the input block from little-endian to host byte order */
    state->k[4] = le_load_word32((const unsigned char *)&(state->k[4]));
    state->k[5] = le_load_word32((const unsigned char *)&(state->k[5]));
    state->k[6] = le_load_word32((const unsigned char *)&(state->k[6]));
    state->k[7] = le_load_word32((const unsigned char *)&(state->k[7]));
#endif

    /* tinyjambu_permutation_256() expects the key to be pre-inverted
     * which helps speed up the implementation of the permutation.
     * We already inverted k[0..3] in the previous init or compress. */
    state->k[4] = ~state->k[4];
    state->k[5] = ~state->k[5];
    state->k[6] = ~state->k[6];
    state->k[7] = ~state->k[7];

    /* Apply the domain separator for this block to the previous L
     * value that is stored in the permutation state words */
    state->s[0] ^= domain;
    L1[0] = state->s[0];
    L1[1] = state->s[1];
    L1[2] = state->s[2];
    L1[3] = state->s[3];

    /* L' = Encrypt(K, L) ^ L */
    tinyjambu_permutation_256(state, TINYJAMBU_HASH_ROUNDS);
    L2[0] = L1[0] ^ state->s[0];
    L2[1] = L1[1] ^ state->s[1];
    L2[2] = L1[2] ^ state->s[2];
    L2[3] = L1[3] ^ state->s[3];

    /* R' = Encrypt(K, L ^ 1) ^ L ^ 1 */
    L1[0] ^= 1;
    state->s[0] = L1[0];
    state->s[1] = L1[1];
    state->s[2] = L1[2];
    state->s[3] = L1[3];
    tinyjambu_permutation_256(state, TINYJAMBU_HASH_ROUNDS);
    state->k[0] = ~(state->s[0] ^ L1[0]);
    state->k[1] = ~(state->s[1] ^ L1[1]);
    state->k[2] = ~(state->s[2] ^ L1[2]);
    state->k[3] = ~(state->s[3] ^ L1[3]);

    /* L = L' */
    state->s[0] = L2[0];
    state->s[1] = L2[1];
    state->s[2] = L2[2];
    state->s[3] = L2[3];
}

void tinyjambu_hash_update
    (tinyjambu_hash_state_t *state, const unsigned char *in, size_t inlen)
{
    tinyjambu_hash_state_p_t *pstate = (tinyjambu_hash_state_p_t *)state;
    unsigned char *block = ((unsigned char *)(pstate->state.k)) + 16;
    unsigned temp;

    /* Deal with left-over blocks from last time */
    if (pstate->posn > 0) {
        temp = 16 - pstate->posn;
        if (temp > inlen) {
            temp = (unsigned)inlen;
            memcpy(block + pstate->posn, in, temp);
            pstate->posn += temp;
            return;
        }
        memcpy(block + pstate->posn, in, temp);
        tinyjambu_hash_compress(&(pstate->state), 0);
        inlen -= temp;
        pstate->posn = 0;
    }

    /* Handle as many full blocks as possible */
    while (inlen >= 16) {
        memcpy(block, in, 16);
        tinyjambu_hash_compress(&(pstate->state), 0);
        in += 16;
        inlen -= 16;
    }

    /* Deal with the left-over data */
    if (inlen > 0) {
        temp = (unsigned)inlen;
        memcpy(block, in, temp);
        pstate->posn = temp;
    }
}

void tinyjambu_hash_finalize(tinyjambu_hash_state_t *state, unsigned char *out)
{
    tinyjambu_hash_state_p_t *pstate = (tinyjambu_hash_state_p_t *)state;
    unsigned char *block = ((unsigned char *)(pstate->state.k)) + 16;

    /* Pad and compress the final block */
    block[pstate->posn] = 0x80;
    memset(block + pstate->posn + 1, 0, 16 - (pstate->posn + 1));
    tinyjambu_hash_compress(&(pstate->state), 1);
    pstate->posn = 0;

    /* Format the output hash value */
    le_store_word32(out,      pstate->state.s[0]);
    le_store_word32(out + 4,  pstate->state.s[1]);
    le_store_word32(out + 8,  pstate->state.s[2]);
    le_store_word32(out + 12, pstate->state.s[3]);
    le_store_word32(out + 16, ~(pstate->state.k[0]));
    le_store_word32(out + 20, ~(pstate->state.k[1]));
    le_store_word32(out + 24, ~(pstate->state.k[2]));
    le_store_word32(out + 28, ~(pstate->state.k[3]));
}
