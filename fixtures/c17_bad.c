/* Positive control for R-C17-NULLCALL. */
#include <stddef.h>
typedef size_t (*cb_t)(void *, unsigned char *, size_t);
struct st { cb_t cb; void *ud; unsigned char v[32]; };
static size_t dflt(void *u, unsigned char *b, size_t n) { (void)u; (void)b; return n; }

int fx_init(struct st *s, cb_t cb, void *ud)
{
    if (cb) { s->cb = cb; s->ud = ud; } else { s->cb = dflt; }
    return (*cb)(ud, s->v, 32) == 32;      /* called even when cb == NULL */
}

int fx_good(struct st *s, cb_t cb, void *ud)
{
    if (cb) { s->cb = cb; s->ud = ud; } else { s->cb = dflt; s->ud = 0; }
    return (*(s->cb))(s->ud, s->v, 32) == 32;
}
