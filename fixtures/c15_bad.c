/* Positive control for C15 (frozen copy of the pinned PRNG with seeded defects): reseed derives V from the fresh entropy alone
 * (old V not hashed in); the state-advance hash uses prefix 0x02; the advance sum leaves out C. */
/*
 * Copyright (C) 2022 Southern Storm Software, Pty Ltd.
 *
 * Permission is hereby granted, free of charge, to any person obtaining a
 * copy of this software and associated documentation files (the "Software"),
 * to deal in the Software without restriction, including without limitation
 * the rights to use, copy, modify, merge, publish, distribute, sublicense,
 * and/or sell copies of the Software, and to permit persons to whom the
 * Software is furnished to do so, subject to the following conditions:
 *
 * The above copyright notice and this permission notice shall be included
 * in all copies or substantial portions of the Software.
 *
 * THE SOFTWARE IS PROVIDED "AS IS", WITHOUT WARRANTY OF ANY KIND, EXPRESS
 * OR IMPLIED, INCLUDING BUT NOT LIMITED TO THE WARRANTIES OF MERCHANTABILITY,
 * FITNESS FOR A PARTICULAR PURPOSE AND NONINFRINGEMENT. IN NO EVENT SHALL THE
 * AUTHORS OR COPYRIGHT HOLDERS BE LIABLE FOR ANY CLAIM, DAMAGES OR OTHER
 * LIABILITY, WHETHER IN AN ACTION OF CONTRACT, TORT OR OTHERWISE, ARISING
 * FROM, OUT OF OR IN CONNECTION WITH THE SOFTWARE OR THE USE OR OTHER
 * DEALINGS IN THE SOFTWARE.
 */

#include "TinyJAMBU.h"
#include "backend/tinyjambu-util.h"
#include "random/tinyjambu-trng.h"
#include <string.h>

/*
 * This PRNG is based on Hash_DRBG from section 10.1.1 of NIST Special
 * Publication 800-90Ar1.
 *
 * Parameters:
 *      Hash algorithm: TinyJAMBU-Hash
 *      Output block length, outlen: 256 bits
 *      Seed length, seedlen: 256 bits
 */

/**
 * \brief Length of the seed values for Hash_DRBG.
 */
#define TINYJAMBU_SEED_LENGTH 32

/**
 * \brief Private state information for the TinyJAMBU-based PRNG.
 */
typedef struct
{
    /** Working value that is updated during each PRNG call */
    unsigned char V[TINYJAMBU_SEED_LENGTH];

    /** Constant that depends upon the most recent reseed */
    unsigned char C[TINYJAMBU_SEED_LENGTH];

    /** Number of times that the PRNG has been reseeded */
    uint32_t reseed_counter;

    /** Number of blocks to generate before forcing a reseed */
    uint32_t reseed_limit;

    /** Callback for obtaining entropy from the system random number source */
    tinyjambu_prng_callback_t callback;

    /** User data pointer for the callback */
    void *user_data;

} tinyjambu_prng_state_p_t;

/** @cond */

/* Compile-time check that tinyjambu_prng_state_p_t can fit within the
 * bounds of tinyjambu_prng_state_t.  This line of code will fail to
 * compile if the private structure is too large for the public one. */
typedef int tinyjambu_prng_state_size_check
    [(sizeof(tinyjambu_prng_state_p_t) <=
            sizeof(tinyjambu_prng_state_t)) * 2 - 1];

/** @endcond */

/* Hash_df function from section 10.3.1 of SP.800-90Ar1 */
static void tinyjambu_hash_df
    (unsigned char out[TINYJAMBU_SEED_LENGTH], unsigned char marker,
     const unsigned char V[TINYJAMBU_SEED_LENGTH],
     const unsigned char *in, size_t inlen)
{
    /* result = HASH(counter || no_of_bits_to_return || input_string),
     * where input_string = marker || V || in */
    /* Since we are only generating a single block, then the counter is 1
     * and the number of bits to return is 256 */
    unsigned char header[6] = {1, 0, 0, 1, 0, marker};
    tinyjambu_hash_state_t hash;
    tinyjambu_hash_init(&hash);
    if (marker != 0xFF)
        tinyjambu_hash_update(&hash, header, 6);
    else
        tinyjambu_hash_update(&hash, header, 5); /* No marker required */
    tinyjambu_hash_update(&hash, V, TINYJAMBU_SEED_LENGTH);
    tinyjambu_hash_update(&hash, in, inlen);
    tinyjambu_hash_finalize(&hash, out);
    tinyjambu_hash_free(&hash);
}

/* Prefixed Hash function */
static void tinyjambu_hash_prefixed
    (unsigned char out[TINYJAMBU_SEED_LENGTH], unsigned char prefix,
     const unsigned char V[TINYJAMBU_SEED_LENGTH])
{
    /* result = HASH(prefix || V) */
    tinyjambu_hash_state_t hash;
    tinyjambu_hash_init(&hash);
    tinyjambu_hash_update(&hash, &prefix, sizeof(prefix));
    tinyjambu_hash_update(&hash, V, TINYJAMBU_SEED_LENGTH);
    tinyjambu_hash_finalize(&hash, out);
    tinyjambu_hash_free(&hash);
}

/**
 * \brief Default random number source for the system.
 *
 * \param user_data User data for the callback; ignored.
 * \param buf Buffer to fill with random data.
 * \param size Size of the buffer; ignored, assumed to be 32.
 *
 * \return Number of bytes that were fetched from the system TRNG.
 */
static size_t tinyjambu_prng_system
    (void *user_data, unsigned char *buf, size_t size)
{
    (void)user_data;
    if (tinyjambu_trng_generate(buf))
        return size;
    else
        return 0;
}

int tinyjambu_prng_init
    (tinyjambu_prng_state_t *state,
     const unsigned char *custom, size_t custom_len)
{
    return tinyjambu_prng_init_user
        (state, tinyjambu_prng_system, NULL, custom, custom_len);
}

/* Hash_DRBG_Instantiate_algorithm from section 10.1.1.2 of SP.800-90Ar1 */
int tinyjambu_prng_init_user
    (tinyjambu_prng_state_t *state, tinyjambu_prng_callback_t callback,
     void *user_data, const unsigned char *custom, size_t custom_len)
{
    tinyjambu_prng_state_p_t *pstate = (tinyjambu_prng_state_p_t *)state;
    int seeded = 0;

    /* Initialize the state */
    memset(state, 0, sizeof(tinyjambu_prng_state_t));
    if (callback) {
        pstate->callback = callback;
        pstate->user_data = user_data;
    } else {
        pstate->callback = tinyjambu_prng_system;
    }

    /* Obtain entropy input from the system */
    if ((*(pstate->callback))(pstate->user_data, pstate->V, sizeof(pstate->V))
            == sizeof(pstate->V)) {
        seeded = 1;
    }

    /* seed_material = entropy_input || nonce || personalization_string */
    /* In our case, custom = nonce || personalization_string */
    /* V = Hash_df(seed_material, seedlen) */
    tinyjambu_hash_df(pstate->V, 0xFF, pstate->V, custom, custom_len);

    /* C = Hash_df((0x00 || V), seedlen) */
    tinyjambu_hash_df(pstate->C, 0x00, pstate->V, 0, 0);

    /* reseed_counter = 1 */
    pstate->reseed_counter = 1;

    /* Set the initial reseed limit to 1K */
    pstate->reseed_limit = 1024 / TINYJAMBU_SEED_LENGTH;
    return seeded;
}

void tinyjambu_prng_free(tinyjambu_prng_state_t *state)
{
    tinyjambu_clean(state, sizeof(tinyjambu_prng_state_t));
}

/* Hash_DRBG_Generate from section 10.1.1.4 of SP.800-90Ar1 */
void tinyjambu_prng_generate
    (tinyjambu_prng_state_t *state, unsigned char *data, size_t size)
{
    tinyjambu_prng_state_p_t *pstate = (tinyjambu_prng_state_p_t *)state;
    size_t len;
    unsigned char H[TINYJAMBU_SEED_LENGTH];
    uint32_t carry;
    int index;

    /* Bail out if nothing to do */
    if (!size)
        return;

    /* Note: We make a small adjustment to the algorithm from SP.800-90Ar1.
     * The specification generates all requested output and then updates V.
     * We update V every block.  Most practical systems are usually requesting
     * 32 bytes or less at a time, so this shouldn't be too big of a change. */
    while (size > 0) {
        /* Reseed automatically if too much data has been generated already */
        if (pstate->reseed_counter > pstate->reseed_limit)
            tinyjambu_prng_reseed(state);

        /* How many bytes do we need this time? */
        if (size < TINYJAMBU_SEED_LENGTH)
            len = size;
        else
            len = TINYJAMBU_SEED_LENGTH;

        /* Generate the output block: output = Hash(V) */
        tinyjambu_hash(H, pstate->V, sizeof(pstate->V));
        memcpy(data, H, len);

        /*
         * Update V for the next block:
         *
         *      H = Hash(0x03 || V)
         *      V = V + H + C + reseed_counter
         *      reseed_counter = reseed_counter + 1
         */
        tinyjambu_hash_prefixed(H, 0x02, pstate->V);
        carry = pstate->reseed_counter;
        for (index = TINYJAMBU_SEED_LENGTH - 1; index >= 0; --index) {
            carry += pstate->V[index];
            carry += H[index];
            pstate->V[index] = (unsigned char)carry;
            carry >>= 8;
        }
        ++(pstate->reseed_counter);

        /* Advance to the next block of output */
        data += len;
        size -= len;
    }

    /* Clean up */
    tinyjambu_clean(H, sizeof(H));
}

/* Hash_DRBG_Reseed from section 10.1.1.3 of SP.800-90Ar1 for the special
 * case of no entropy_input, just additional_input */
void tinyjambu_prng_feed
    (tinyjambu_prng_state_t *state, const unsigned char *data, size_t size)
{
    tinyjambu_prng_state_p_t *pstate = (tinyjambu_prng_state_p_t *)state;

    /* seed_material = 0x01 || V || entropy_input || additional_input */
    /* V = Hash_df(seed_material, seedlen) */
    tinyjambu_hash_df(pstate->V, 0x01, pstate->V, data, size);

    /* C = Hash_df((0x00 || V), seedlen) */
    tinyjambu_hash_df(pstate->C, 0x00, pstate->V, 0, 0);

    /* Note: SP.800-90Ar1 says that reseed_counter should be set back to 1
     * when reseeding, but we aren't really reseeding here.  So instead we
     * increase the "reseed needed" counter to force a real reseed later. */
    ++(pstate->reseed_counter);
}

/* Hash_DRBG_Reseed from section 10.1.1.3 of SP.800-90Ar1 for the special
 * case of entropy_input with no additional_input */
int tinyjambu_prng_reseed(tinyjambu_prng_state_t *state)
{
    tinyjambu_prng_state_p_t *pstate = (tinyjambu_prng_state_p_t *)state;
    int reseeded = 0;

    /* Get some new entropy from the system.  If there is no callback
     * then just mix things up a little using the previous V value which
     * will improve forward security even if there is no new entropy */
    memcpy(pstate->C, pstate->V, TINYJAMBU_SEED_LENGTH);
    if ((*(pstate->callback))
            (pstate->user_data, pstate->C, sizeof(pstate->C))
                == sizeof(pstate->C)) {
        reseeded = 1;
    }

    /* seed_material = 0x01 || V || entropy_input || additional_input */
    /* V = Hash_df(seed_material, seedlen) */
    tinyjambu_hash_df(pstate->V, 0x01, pstate->C, pstate->C, sizeof(pstate->C));

    /* C = Hash_df((0x00 || V), seedlen) */
    tinyjambu_hash_df(pstate->C, 0x00, pstate->V, 0, 0);

    /* reseed_counter = 1 */
    pstate->reseed_counter = 1;
    return reseeded;
}

void tinyjambu_prng_set_reseed_limit
    (tinyjambu_prng_state_t *state, size_t limit)
{
    tinyjambu_prng_state_p_t *pstate = (tinyjambu_prng_state_p_t *)state;
#if !defined(__SIZEOF_SIZE_T__) || __SIZEOF_SIZE_T__ >= 4
    /* 32-bit or better system; clamp the value to 1M */
    if (limit > 1048576U)
        limit = 1048576U;
#else
    /* 8-bit or 16-bit system; clamp the value just shy of 64K */
    if (limit > (unsigned)(65535 - TINYJAMBU_SEED_LENGTH))
        limit = 65535U - TINYJAMBU_SEED_LENGTH;
#endif
    limit = (limit + TINYJAMBU_SEED_LENGTH - 1) / TINYJAMBU_SEED_LENGTH;
    if (!limit)
        limit = 1;
    pstate->reseed_limit = limit;
}
