/* Positive control for C18: EAGAIN treated as permanent, buffer not zeroed. */
#include <errno.h>
#include <string.h>
#include <sys/random.h>
int tinyjambu_trng_generate(unsigned char *out)
{
    for (;;) {
        int ret = getrandom(out, 32, 0);
        if (ret >= 0)
            return 1;
        if (errno != EINTR)
            break;
    }
    return 0;
}
