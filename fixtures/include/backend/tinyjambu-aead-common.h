/*
 * Copyright (C) 2022 Southern Storm Software, Pty Ltd.
 *
 * Permission is hereby granted, free of charge, to any person obtaining a
 * copy of this software and associated documentation files (the "Software"),
 * to deal in the Software without restriction, including without limitation
 * the rights to use, copy, modify, merge, publish, distribute, sublicense,
 * and/or sell copies of the Software, and to permit persons to whom the
 * Software is furnished to do so, subject to the following conditions:
 *
 * The above copyright notice and this permission notice shall be included
 * in all copies or substantial portions of the Software.
 *
 * THE SOFTWARE IS PROVIDED "AS IS", WITHOUT WARRANTY OF ANY KIND, EXPRESS
 * OR IMPLIED, INCLUDING BUT NOT LIMITED TO THE WARRANTIES OF MERCHANTABILITY,
 * FITNESS FOR A PARTICULAR PURPOSE AND NONINFRINGEMENT. IN NO EVENT SHALL THE
 * AUTHORS OR COPYRIGHT HOLDERS BE LIABLE FOR ANY CLAIM, DAMAGES OR OTHER
 * LIABILITY, WHETHER IN AN ACTION OF CONTRACT, TORT OR OTHERWISE, ARISING
 * FROM, OUT OF OR IN CONNECTION WITH THE SOFTWARE OR THE USE OR OTHER
 * DEALINGS IN THE SOFTWARE.
 */

#ifndef TINYJAMBU_AEAD_COMMON_H
#define TINYJAMBU_AEAD_COMMON_H

#include "tinyjambu-backend.h"
#include "tinyjambu-util.h"

#ifdef __cplusplus
extern "C" {
#endif

/**
 * \brief Set up the TinyJAMBU-128 state with the key and the nonce.
 *
 * \param state TinyJAMBU state to be permuted.
 * \param nonce Points to the 96-bit nonce.
 * \param domain Domain separator value for the nonce.
 */
void tinyjambu_setup_128
    (tinyjambu_128_state_t *state, const unsigned char *nonce,
     unsigned char domain);

/**
 * \brief Absorbs data into the TinyJAMBU-128 state.
 *
 * \param state TinyJAMBU state to be permuted.
 * \param data Points to data to be absorbed.
 * \param size Length of the data to be absorbed in bytes.
 * \param domain Domain separator value for the absorb operation.
 * \param round Number of TinyJAMBU rounds to perform.
 */
void tinyjambu_absorb_128
    (tinyjambu_128_state_t *state, const unsigned char *data,
     size_t size, unsigned char domain, unsigned rounds);

/**
 * \brief Generates the final authentication tag for TinyJAMBU-128.
 *
 * \param state TinyJAMBU state to be permuted.
 * \param tag Buffer to receive the tag.
 */
void tinyjambu_generate_tag_128
    (tinyjambu_128_state_t *state, unsigned char *tag);

/**
 * \brief Set up the TinyJAMBU-192 state with the key and the nonce.
 *
 * \param state TinyJAMBU state to be permuted.
 * \param nonce Points to the 96-bit nonce.
 * \param domain Domain separator value for the nonce.
 */
void tinyjambu_setup_192
    (tinyjambu_192_state_t *state, const unsigned char *nonce,
     unsigned char domain);

/**
 * \brief Absorbs data into the TinyJAMBU-192 state.
 *
 * \param state TinyJAMBU state to be permuted.
 * \param data Points to data to be absorbed.
 * \param size Length of the data to be absorbed in bytes.
 * \param domain Domain separator value for the absorb operation.
 * \param round Number of TinyJAMBU rounds to perform.
 */
void tinyjambu_absorb_192
    (tinyjambu_192_state_t *state, const unsigned char *data,
     size_t size, unsigned char domain, unsigned rounds);

/**
 * \brief Generates the final authentication tag for TinyJAMBU-192.
 *
 * \param state TinyJAMBU state to be permuted.
 * \param tag Buffer to receive the tag.
 */
void tinyjambu_generate_tag_192
    (tinyjambu_192_state_t *state, unsigned char *tag);

/**
 * \brief Set up the TinyJAMBU-256 state with the key and the nonce.
 *
 * \param state TinyJAMBU state to be permuted.
 * \param nonce Points to the 96-bit nonce.
 * \param domain Domain separator value for the nonce.
 */
void tinyjambu_setup_256
    (tinyjambu_256_state_t *state, const unsigned char *nonce,
     unsigned char domain);

/**
 * \brief Absorbs data into the TinyJAMBU-256 state.
 *
 * \param state TinyJAMBU state to be permuted.
 * \param data Points to data to be absorbed.
 * \param size Length of the data to be absorbed in bytes.
 * \param domain Domain separator value for the absorb operation.
 * \param round Number of TinyJAMBU rounds to perform.
 */
void tinyjambu_absorb_256
    (tinyjambu_256_state_t *state, const unsigned char *data,
     size_t size, unsigned char domain, unsigned rounds);

/**
 * \brief Generates the final authentication tag for TinyJAMBU-256.
 *
 * \param state TinyJAMBU state to be permuted.
 * \param tag Buffer to receive the tag.
 */
void tinyjambu_generate_tag_256
    (tinyjambu_256_state_t *state, unsigned char *tag);

#ifdef __cplusplus
}
#endif

#endif
