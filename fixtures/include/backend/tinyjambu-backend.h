/*
 * Copyright (C) 2022 Southern Storm Software, Pty Ltd.
 *
 * Permission is hereby granted, free of charge, to any person obtaining a
 * copy of this software and associated documentation files (the "Software"),
 * to deal in the Software without restriction, including without limitation
 * the rights to use, copy, modify, merge, publish, distribute, sublicense,
 * and/or sell copies of the Software, and to permit persons to whom the
 * Software is furnished to do so, subject to the following conditions:
 *
 * The above copyright notice and this permission notice shall be included
 * in all copies or substantial portions of the Software.
 *
 * THE SOFTWARE IS PROVIDED "AS IS", WITHOUT WARRANTY OF ANY KIND, EXPRESS
 * OR IMPLIED, INCLUDING BUT NOT LIMITED TO THE WARRANTIES OF MERCHANTABILITY,
 * FITNESS FOR A PARTICULAR PURPOSE AND NONINFRINGEMENT. IN NO EVENT SHALL THE
 * AUTHORS OR COPYRIGHT HOLDERS BE LIABLE FOR ANY CLAIM, DAMAGES OR OTHER
 * LIABILITY, WHETHER IN AN ACTION OF CONTRACT, TORT OR OTHERWISE, ARISING
 * FROM, OUT OF OR IN CONNECTION WITH THE SOFTWARE OR THE USE OR OTHER
 * DEALINGS IN THE SOFTWARE.
 */

#ifndef TINYJAMBU_BACKEND_H
#define TINYJAMBU_BACKEND_H

#include "tinyjambu-util.h"
#include "tinyjambu-backend-select.h"

/**
 * \file tinyjambu-backend.h
 * \brief Backend implementation of the TinyJAMBU permutation.
 */

#ifdef __cplusplus
extern "C" {
#endif

/**
 * \brief TinyJAMBU-128 permutation state.
 */
typedef struct
{
    uint32_t s[4];  /**< State as 32-bit words */
    uint32_t k[4];  /**< Words of the key, pre-inverted */

} tinyjambu_128_state_t;

/**
 * \brief TinyJAMBU-192 permutation state.
 */
typedef struct
{
    uint32_t s[4];  /**< State as 32-bit words */
    uint32_t k[6];  /**< Words of the key, pre-inverted */

} tinyjambu_192_state_t;

/**
 * \brief TinyJAMBU-256 permutation state.
 */
typedef struct
{
    uint32_t s[4];  /**< State as 32-bit words */
    uint32_t k[8];  /**< Words of the key, pre-inverted */

} tinyjambu_256_state_t;

/**
 * \brief Loads an even key word for TinyJAMBU.
 *
 * \param ptr Points to the 4 bytes of the key word in little-endian order.
 * \return The key word.
 */
#define tinyjambu_key_load_even(ptr) (~(le_load_word32((ptr))))

/**
 * \brief Loads an odd key word for TinyJAMBU.
 *
 * \param ptr Points to the 4 bytes of the key word in little-endian order.
 * \return The key word.
 */
#define tinyjambu_key_load_odd(ptr) (~(le_load_word32((ptr))))

/**
 * \brief Initializes a TinyJAMBU state to zero.
 *
 * \param state TinyJAMBU state to be initialized.
 */
#define tinyjambu_init_state(state) \
    ((state)->s[0] = (state)->s[1] = (state)->s[2] = (state)->s[3] = 0)

/**
 * \brief Adds a domain separation value to the TinyJAMBU state.
 *
 * \param state TinyJAMBU state to be updated.
 * \param domain Domain separation value to add.
 */
#define tinyjambu_add_domain(state, domain) \
    ((state)->s[1] ^= (domain))

/**
 * \brief Absorbs a 32-bit word into the TinyJAMBU state.
 *
 * \param state TinyJAMBU state to be updated.
 * \param word Word value to absorb.
 */
#define tinyjambu_absorb(state, word) \
    ((state)->s[3] ^= (word))

/**
 * \brief Squeezes a 32-bit word from the TinyJAMBU state.
 *
 * \param state TinyJAMBU state to squeeze from.
 * \return Word value that was squeezed out.
 */
#define tinyjambu_squeeze(state) ((state)->s[2])

/**
 * \brief Converts a number of steps into a number of rounds, where each
 * round consists of 128 steps.
 *
 * \param steps The number of steps to perform; 384, 1024, 1152, or 1280.
 *
 * \return The number of rounds corresponding to \a steps.
 */
#define TINYJAMBU_ROUNDS(steps) ((steps) / 128)

/**
 * \brief Perform the TinyJAMBU-128 permutation.
 *
 * \param state TinyJAMBU-128 state to be permuted, including the key.
 * \param rounds The number of rounds to perform.
 */
void tinyjambu_permutation_128(tinyjambu_128_state_t *state, unsigned rounds);

/**
 * \brief Perform the TinyJAMBU-192 permutation.
 *
 * \param state TinyJAMBU-192 state to be permuted, including the key.
 * \param rounds The number of rounds to perform.
 */
void tinyjambu_permutation_192(tinyjambu_192_state_t *state, unsigned rounds);

/**
 * \brief Perform the TinyJAMBU-256 permutation.
 *
 * \param state TinyJAMBU-256 state to be permuted.
 * \param key Points to the 8 key words.
 * \param rounds The number of rounds to perform.
 *
 * \note The words of the \a key must be the inverted version of the
 * actual key so that we can replace NAND with AND operations when
 * evaluating the permutation.
 */
void tinyjambu_permutation_256(tinyjambu_256_state_t *state, unsigned rounds);

/* Note: The last line should contain ~(t2 & t3) according to the
 * specification but we can avoid the NOT by inverting the words
 * of the key ahead of time. */
#define tinyjambu_steps_32(s0, s1, s2, s3, kword) \
    do { \
        t1 = (s1 >> 15) | (s2 << 17); \
        t2 = (s2 >> 6)  | (s3 << 26); \
        t3 = (s2 >> 21) | (s3 << 11); \
        t4 = (s2 >> 27) | (s3 << 5); \
        s0 ^= t1 ^ (t2 & t3) ^ t4 ^ kword; \
    } while (0)

#ifdef __cplusplus
}
#endif

#endif
