/*
 * Copyright (C) 2022 Southern Storm Software, Pty Ltd.
 *
 * Permission is hereby granted, free of charge, to any person obtaining a
 * copy of this software and associated documentation files (the "Software"),
 * to deal in the Software without restriction, including without limitation
 * the rights to use, copy, modify, merge, publish, distribute, sublicense,
 * and/or sell copies of the Software, and to permit persons to whom the
 * Software is furnished to do so, subject to the following conditions:
 *
 * The above copyright notice and this permission notice shall be included
 * in all copies or substantial portions of the Software.
 *
 * THE SOFTWARE IS PROVIDED "AS IS", WITHOUT WARRANTY OF ANY KIND, EXPRESS
 * OR IMPLIED, INCLUDING BUT NOT LIMITED TO THE WARRANTIES OF MERCHANTABILITY,
 * FITNESS FOR A PARTICULAR PURPOSE AND NONINFRINGEMENT. IN NO EVENT SHALL THE
 * AUTHORS OR COPYRIGHT HOLDERS BE LIABLE FOR ANY CLAIM, DAMAGES OR OTHER
 * LIABILITY, WHETHER IN AN ACTION OF CONTRACT, TORT OR OTHERWISE, ARISING
 * FROM, OUT OF OR IN CONNECTION WITH THE SOFTWARE OR THE USE OR OTHER
 * DEALINGS IN THE SOFTWARE.
 */

#ifndef TINYJAMBU_BACKEND_SELECT_H
#define TINYJAMBU_BACKEND_SELECT_H

/**
 * \file tinyjambu-backend-select.h
 * \brief Select the TinyJAMBU backend implementation to use.
 */

#ifdef __cplusplus
extern "C" {
#endif

/* Select the default back end to use for the TinyJAMBU permutation,
 * and any properties we can use to optimize use of the permutation. */

#if defined(TINYJAMBU_FORCE_C32)

/* Force the use of the "c32" backend for testing purposes */
#define TINYJAMBU_BACKEND_C32 1

#elif defined(__AVR__) && __AVR_ARCH__ >= 5

/* AVR5 assembly code backend */
#define TINYJAMBU_BACKEND_AVR5 1

#elif defined(__ARM_ARCH_ISA_THUMB) && __ARM_ARCH == 8 && defined(__ARM_ARCH_8M__)

/* Assembly backend for ARMv8-M systems; e.g. ARM Cortex M33 */
/* This can actually use the same backend as ARMv7-M systems */
#define TINYJAMBU_BACKEND_ARMV7M 1

#elif defined(__ARM_ARCH_ISA_THUMB) && __ARM_ARCH == 7

/* Assembly backend for ARMv7-M systems; e.g. ARM Cortex M3, M4, and M7 */
/* This backend has also been tested to work on ARMv7-A systems */
#define TINYJAMBU_BACKEND_ARMV7M 1

#elif defined(__ARM_ARCH_ISA_THUMB) && __ARM_ARCH == 6 && defined(__ARM_ARCH_6M__)

/* Assembly backend for ARMv6-M systems; e.g. ARM Cortex M0+ */
#define TINYJAMBU_BACKEND_ARMV6M 1

#elif defined(__ARM_ARCH) && __ARM_ARCH == 6

/* Assembly backend for ARMv6 systems, should work with thumb and non-thumb */
#define TINYJAMBU_BACKEND_ARMV6 1

#elif defined(__riscv) && __riscv_xlen == 64

/* Assembly backend for RISC-V systems, RV64I base integer instruction set */
#define TINYJAMBU_BACKEND_RISCV64I 1

#elif defined(__riscv) && __riscv_xlen == 32 && defined(__riscv_32e)

/* Assembly backend for RISC-V systems, RV32E base integer instruction set */
#define TINYJAMBU_BACKEND_RISCV32E 1

#elif defined(__riscv) && __riscv_xlen == 32

/* Assembly backend for RISC-V systems, RV32I base integer instruction set */
#define TINYJAMBU_BACKEND_RISCV32I 1

#elif defined(__XTENSA__)

/* Assembly backend for Xtensa-based systems */
#define TINYJAMBU_BACKEND_XTENSA 1

#else

/* Plain C backend */
#define TINYJAMBU_BACKEND_C32 1

#endif

#endif /* TINYJAMBU_BACKEND_SELECT_H */
