/*
 * Copyright (C) 2022 Southern Storm Software, Pty Ltd.
 *
 * Permission is hereby granted, free of charge, to any person obtaining a
 * copy of this software and associated documentation files (the "Software"),
 * to deal in the Software without restriction, including without limitation
 * the rights to use, copy, modify, merge, publish, distribute, sublicense,
 * and/or sell copies of the Software, and to permit persons to whom the
 * Software is furnished to do so, subject to the following conditions:
 *
 * The above copyright notice and this permission notice shall be included
 * in all copies or substantial portions of the Software.
 *
 * THE SOFTWARE IS PROVIDED "AS IS", WITHOUT WARRANTY OF ANY KIND, EXPRESS
 * OR IMPLIED, INCLUDING BUT NOT LIMITED TO THE WARRANTIES OF MERCHANTABILITY,
 * FITNESS FOR A PARTICULAR PURPOSE AND NONINFRINGEMENT. IN NO EVENT SHALL THE
 * AUTHORS OR COPYRIGHT HOLDERS BE LIABLE FOR ANY CLAIM, DAMAGES OR OTHER
 * LIABILITY, WHETHER IN AN ACTION OF CONTRACT, TORT OR OTHERWISE, ARISING
 * FROM, OUT OF OR IN CONNECTION WITH THE SOFTWARE OR THE USE OR OTHER
 * DEALINGS IN THE SOFTWARE.
 */

#ifndef TINYJAMBU_UTIL_H
#define TINYJAMBU_UTIL_H

#include <stddef.h>
#include <stdint.h>

/* Figure out how to inline functions using this C compiler */
#if defined(__STDC__) && __STDC_VERSION__ >= 199901L
#define STATIC_INLINE static inline
#elif defined(__GNUC__) || defined(__clang__)
#define STATIC_INLINE static __inline__
#else
#define STATIC_INLINE static
#endif

/* Try to figure out whether the CPU is little-endian or big-endian.
 * May need to modify this to include new compiler-specific defines.
 * Alternatively, define __LITTLE_ENDIAN__ or __BIG_ENDIAN__ in your
 * compiler flags when you compile this library */
#if defined(__x86_64) || defined(__x86_64__) || \
    defined(__i386) || defined(__i386__) || \
    defined(__AVR__) || defined(__arm) || defined(__arm__) || \
    defined(_M_AMD64) || defined(_M_X64) || defined(_M_IX86) || \
    defined(_M_IA64) || defined(_M_ARM) || defined(_M_ARM_FP) || \
    (defined(__BYTE_ORDER__) && __BYTE_ORDER__ == 1234) || \
    defined(__LITTLE_ENDIAN__)
#define LW_UTIL_LITTLE_ENDIAN 1
#elif (defined(__BYTE_ORDER__) && __BYTE_ORDER__ == 4321) || \
    defined(__BIG_ENDIAN__) || defined(__m68k__)
/* Big endian */
#else
#error "Cannot determine the endianess of this platform"
#endif

/* Determine if we are compiling for a 64-bit CPU */
#if defined(__x86_64) || defined(__x86_64__) || \
    defined(__aarch64__) || defined(__ARM_ARCH_ISA_A64) || \
    defined(_M_AMD64) || defined(_M_X64) || defined(_M_IA64) || \
    (defined(__riscv) && __riscv_xlen == 64)
#define LW_UTIL_CPU_IS_64BIT 1
#endif

/* Helper macros to load and store values while converting endian-ness */

/* Load a big-endian 32-bit word from a byte buffer */
#define be_load_word32(ptr) \
    ((((uint32_t)((ptr)[0])) << 24) | \
     (((uint32_t)((ptr)[1])) << 16) | \
     (((uint32_t)((ptr)[2])) << 8) | \
      ((uint32_t)((ptr)[3])))

/* Store a big-endian 32-bit word into a byte buffer */
#define be_store_word32(ptr, x) \
    do { \
        uint32_t _x = (x); \
        (ptr)[0] = (uint8_t)(_x >> 24); \
        (ptr)[1] = (uint8_t)(_x >> 16); \
        (ptr)[2] = (uint8_t)(_x >> 8); \
        (ptr)[3] = (uint8_t)_x; \
    } while (0)

/* Load a little-endian 32-bit word from a byte buffer */
#define le_load_word32(ptr) \
    ((((uint32_t)((ptr)[3])) << 24) | \
     (((uint32_t)((ptr)[2])) << 16) | \
     (((uint32_t)((ptr)[1])) << 8) | \
      ((uint32_t)((ptr)[0])))

/* Store a little-endian 32-bit word into a byte buffer */
#define le_store_word32(ptr, x) \
    do { \
        uint32_t _x = (x); \
        (ptr)[0] = (uint8_t)_x; \
        (ptr)[1] = (uint8_t)(_x >> 8); \
        (ptr)[2] = (uint8_t)(_x >> 16); \
        (ptr)[3] = (uint8_t)(_x >> 24); \
    } while (0)

/* Reverses the bytes in a 32-bit word */
#define reverse_word32(x) \
    (((x) >> 24) | (((x) >> 8) & 0x0000FF00U) | \
     (((x) << 8) & 0x00FF0000U) | ((x) << 24))

/* Load a big-endian 64-bit word from a byte buffer */
#define be_load_word64(ptr) \
    ((((uint64_t)((ptr)[0])) << 56) | \
     (((uint64_t)((ptr)[1])) << 48) | \
     (((uint64_t)((ptr)[2])) << 40) | \
     (((uint64_t)((ptr)[3])) << 32) | \
     (((uint64_t)((ptr)[4])) << 24) | \
     (((uint64_t)((ptr)[5])) << 16) | \
     (((uint64_t)((ptr)[6])) << 8) | \
      ((uint64_t)((ptr)[7])))

/* Store a big-endian 64-bit word into a byte buffer */
#define be_store_word64(ptr, x) \
    do { \
        uint64_t _x = (x); \
        (ptr)[0] = (uint8_t)(_x >> 56); \
        (ptr)[1] = (uint8_t)(_x >> 48); \
        (ptr)[2] = (uint8_t)(_x >> 40); \
        (ptr)[3] = (uint8_t)(_x >> 32); \
        (ptr)[4] = (uint8_t)(_x >> 24); \
        (ptr)[5] = (uint8_t)(_x >> 16); \
        (ptr)[6] = (uint8_t)(_x >> 8); \
        (ptr)[7] = (uint8_t)_x; \
    } while (0)

/* Load a little-endian 64-bit word from a byte buffer */
#define le_load_word64(ptr) \
    ((((uint64_t)((ptr)[7])) << 56) | \
     (((uint64_t)((ptr)[6])) << 48) | \
     (((uint64_t)((ptr)[5])) << 40) | \
     (((uint64_t)((ptr)[4])) << 32) | \
     (((uint64_t)((ptr)[3])) << 24) | \
     (((uint64_t)((ptr)[2])) << 16) | \
     (((uint64_t)((ptr)[1])) << 8) | \
      ((uint64_t)((ptr)[0])))

/* Store a little-endian 64-bit word into a byte buffer */
#define le_store_word64(ptr, x) \
    do { \
        uint64_t _x = (x); \
        (ptr)[0] = (uint8_t)_x; \
        (ptr)[1] = (uint8_t)(_x >> 8); \
        (ptr)[2] = (uint8_t)(_x >> 16); \
        (ptr)[3] = (uint8_t)(_x >> 24); \
        (ptr)[4] = (uint8_t)(_x >> 32); \
        (ptr)[5] = (uint8_t)(_x >> 40); \
        (ptr)[6] = (uint8_t)(_x >> 48); \
        (ptr)[7] = (uint8_t)(_x >> 56); \
    } while (0)

/* Load a big-endian 16-bit word from a byte buffer */
#define be_load_word16(ptr) \
    ((((uint16_t)((ptr)[0])) << 8) | \
      ((uint16_t)((ptr)[1])))

/* Store a big-endian 16-bit word into a byte buffer */
#define be_store_word16(ptr, x) \
    do { \
        uint16_t _x = (x); \
        (ptr)[0] = (uint8_t)(_x >> 8); \
        (ptr)[1] = (uint8_t)_x; \
    } while (0)

/* Load a little-endian 16-bit word from a byte buffer */
#define le_load_word16(ptr) \
    ((((uint16_t)((ptr)[1])) << 8) | \
      ((uint16_t)((ptr)[0])))

/* Store a little-endian 16-bit word into a byte buffer */
#define le_store_word16(ptr, x) \
    do { \
        uint16_t _x = (x); \
        (ptr)[0] = (uint8_t)_x; \
        (ptr)[1] = (uint8_t)(_x >> 8); \
    } while (0)

/* XOR a source byte buffer against a destination */
#define lw_xor_block(dest, src, len) \
    do { \
        unsigned char *_dest = (dest); \
        const unsigned char *_src = (src); \
        unsigned _len = (len); \
        while (_len > 0) { \
            *_dest++ ^= *_src++; \
            --_len; \
        } \
    } while (0)

/* XOR two source byte buffers and put the result in a destination buffer */
#define lw_xor_block_2_src(dest, src1, src2, len) \
    do { \
        unsigned char *_dest = (dest); \
        const unsigned char *_src1 = (src1); \
        const unsigned char *_src2 = (src2); \
        unsigned _len = (len); \
        while (_len > 0) { \
            *_dest++ = *_src1++ ^ *_src2++; \
            --_len; \
        } \
    } while (0)

/* XOR a source byte buffer against a destination and write to another
 * destination at the same time */
#define lw_xor_block_2_dest(dest2, dest, src, len) \
    do { \
        unsigned char *_dest2 = (dest2); \
        unsigned char *_dest = (dest); \
        const unsigned char *_src = (src); \
        unsigned _len = (len); \
        while (_len > 0) { \
            *_dest2++ = (*_dest++ ^= *_src++); \
            --_len; \
        } \
    } while (0)

/* XOR two byte buffers and write to a destination which at the same
 * time copying the contents of src2 to dest2 */
#define lw_xor_block_copy_src(dest2, dest, src1, src2, len) \
    do { \
        unsigned char *_dest2 = (dest2); \
        unsigned char *_dest = (dest); \
        const unsigned char *_src1 = (src1); \
        const unsigned char *_src2 = (src2); \
        unsigned _len = (len); \
        while (_len > 0) { \
            unsigned char _temp = *_src2++; \
            *_dest2++ = _temp; \
            *_dest++ = *_src1++ ^ _temp; \
            --_len; \
        } \
    } while (0)

/* XOR a source byte buffer against a destination and write to another
 * destination at the same time.  This version swaps the source value
 * into the "dest" buffer */
#define lw_xor_block_swap(dest2, dest, src, len) \
    do { \
        unsigned char *_dest2 = (dest2); \
        unsigned char *_dest = (dest); \
        const unsigned char *_src = (src); \
        unsigned _len = (len); \
        while (_len > 0) { \
            unsigned char _temp = *_src++; \
            *_dest2++ = *_dest ^ _temp; \
            *_dest++ = _temp; \
            --_len; \
        } \
    } while (0)

/* Rotation functions need to be optimised for best performance on AVR.
 * The most efficient rotations are where the number of bits is 1 or a
 * multiple of 8, so we compose the efficient rotations to produce all
 * other rotation counts of interest. */

#if defined(__AVR__)
#define LW_CRYPTO_ROTATE32_COMPOSED 1
#else
#define LW_CRYPTO_ROTATE32_COMPOSED 0
#endif

/* Rotation macros for 32-bit arguments */

/* Generic left rotate */
#define leftRotate(a, bits) \
    (__extension__ ({ \
        uint32_t _temp = (a); \
        (_temp << (bits)) | (_temp >> (32 - (bits))); \
    }))

/* Generic right rotate */
#define rightRotate(a, bits) \
    (__extension__ ({ \
        uint32_t _temp = (a); \
        (_temp >> (bits)) | (_temp << (32 - (bits))); \
    }))

#if !LW_CRYPTO_ROTATE32_COMPOSED

/* Left rotate by a specific number of bits.  These macros may be replaced
 * with more efficient ones on platforms that lack a barrel shifter */
#define leftRotate1(a)  (leftRotate((a), 1))
#define leftRotate2(a)  (leftRotate((a), 2))
#define leftRotate3(a)  (leftRotate((a), 3))
#define leftRotate4(a)  (leftRotate((a), 4))
#define leftRotate5(a)  (leftRotate((a), 5))
#define leftRotate6(a)  (leftRotate((a), 6))
#define leftRotate7(a)  (leftRotate((a), 7))
#define leftRotate8(a)  (leftRotate((a), 8))
#define leftRotate9(a)  (leftRotate((a), 9))
#define leftRotate10(a) (leftRotate((a), 10))
#define leftRotate11(a) (leftRotate((a), 11))
#define leftRotate12(a) (leftRotate((a), 12))
#define leftRotate13(a) (leftRotate((a), 13))
#define leftRotate14(a) (leftRotate((a), 14))
#define leftRotate15(a) (leftRotate((a), 15))
#define leftRotate16(a) (leftRotate((a), 16))
#define leftRotate17(a) (leftRotate((a), 17))
#define leftRotate18(a) (leftRotate((a), 18))
#define leftRotate19(a) (leftRotate((a), 19))
#define leftRotate20(a) (leftRotate((a), 20))
#define leftRotate21(a) (leftRotate((a), 21))
#define leftRotate22(a) (leftRotate((a), 22))
#define leftRotate23(a) (leftRotate((a), 23))
#define leftRotate24(a) (leftRotate((a), 24))
#define leftRotate25(a) (leftRotate((a), 25))
#define leftRotate26(a) (leftRotate((a), 26))
#define leftRotate27(a) (leftRotate((a), 27))
#define leftRotate28(a) (leftRotate((a), 28))
#define leftRotate29(a) (leftRotate((a), 29))
#define leftRotate30(a) (leftRotate((a), 30))
#define leftRotate31(a) (leftRotate((a), 31))

/* Right rotate by a specific number of bits.  These macros may be replaced
 * with more efficient ones on platforms that lack a barrel shifter */
#define rightRotate1(a)  (rightRotate((a), 1))
#define rightRotate2(a)  (rightRotate((a), 2))
#define rightRotate3(a)  (rightRotate((a), 3))
#define rightRotate4(a)  (rightRotate((a), 4))
#define rightRotate5(a)  (rightRotate((a), 5))
#define rightRotate6(a)  (rightRotate((a), 6))
#define rightRotate7(a)  (rightRotate((a), 7))
#define rightRotate8(a)  (rightRotate((a), 8))
#define rightRotate9(a)  (rightRotate((a), 9))
#define rightRotate10(a) (rightRotate((a), 10))
#define rightRotate11(a) (rightRotate((a), 11))
#define rightRotate12(a) (rightRotate((a), 12))
#define rightRotate13(a) (rightRotate((a), 13))
#define rightRotate14(a) (rightRotate((a), 14))
#define rightRotate15(a) (rightRotate((a), 15))
#define rightRotate16(a) (rightRotate((a), 16))
#define rightRotate17(a) (rightRotate((a), 17))
#define rightRotate18(a) (rightRotate((a), 18))
#define rightRotate19(a) (rightRotate((a), 19))
#define rightRotate20(a) (rightRotate((a), 20))
#define rightRotate21(a) (rightRotate((a), 21))
#define rightRotate22(a) (rightRotate((a), 22))
#define rightRotate23(a) (rightRotate((a), 23))
#define rightRotate24(a) (rightRotate((a), 24))
#define rightRotate25(a) (rightRotate((a), 25))
#define rightRotate26(a) (rightRotate((a), 26))
#define rightRotate27(a) (rightRotate((a), 27))
#define rightRotate28(a) (rightRotate((a), 28))
#define rightRotate29(a) (rightRotate((a), 29))
#define rightRotate30(a) (rightRotate((a), 30))
#define rightRotate31(a) (rightRotate((a), 31))

#else /* LW_CRYPTO_ROTATE32_COMPOSED */

/* Composed rotation macros where 1 and 8 are fast, but others are slow */

/* Left rotate by 1 */
#define leftRotate1(a)  (leftRotate((a), 1))

/* Left rotate by 2 */
#define leftRotate2(a)  (leftRotate(leftRotate((a), 1), 1))

/* Left rotate by 3 */
#define leftRotate3(a)  (leftRotate(leftRotate(leftRotate((a), 1), 1), 1))

/* Left rotate by 4 */
#define leftRotate4(a)  (leftRotate(leftRotate(leftRotate(leftRotate((a), 1), 1), 1), 1))

/* Left rotate by 5: Rotate left by 8, then right by 3 */
#define leftRotate5(a)  (rightRotate(rightRotate(rightRotate(leftRotate((a), 8), 1), 1), 1))

/* Left rotate by 6: Rotate left by 8, then right by 2 */
#define leftRotate6(a)  (rightRotate(rightRotate(leftRotate((a), 8), 1), 1))

/* Left rotate by 7: Rotate left by 8, then right by 1 */
#define leftRotate7(a)  (rightRotate(leftRotate((a), 8), 1))

/* Left rotate by 8 */
#define leftRotate8(a)  (leftRotate((a), 8))

/* Left rotate by 9: Rotate left by 8, then left by 1 */
#define leftRotate9(a)  (leftRotate(leftRotate((a), 8), 1))

/* Left rotate by 10: Rotate left by 8, then left by 2 */
#define leftRotate10(a) (leftRotate(leftRotate(leftRotate((a), 8), 1), 1))

/* Left rotate by 11: Rotate left by 8, then left by 3 */
#define leftRotate11(a) (leftRotate(leftRotate(leftRotate(leftRotate((a), 8), 1), 1), 1))

/* Left rotate by 12: Rotate left by 16, then right by 4 */
#define leftRotate12(a) (rightRotate(rightRotate(rightRotate(rightRotate(leftRotate((a), 16), 1), 1), 1), 1))

/* Left rotate by 13: Rotate left by 16, then right by 3 */
#define leftRotate13(a) (rightRotate(rightRotate(rightRotate(leftRotate((a), 16), 1), 1), 1))

/* Left rotate by 14: Rotate left by 16, then right by 2 */
#define leftRotate14(a) (rightRotate(rightRotate(leftRotate((a), 16), 1), 1))

/* Left rotate by 15: Rotate left by 16, then right by 1 */
#define leftRotate15(a) (rightRotate(leftRotate((a), 16), 1))

/* Left rotate by 16 */
#define leftRotate16(a) (leftRotate((a), 16))

/* Left rotate by 17: Rotate left by 16, then left by 1 */
#define leftRotate17(a) (leftRotate(leftRotate((a), 16), 1))

/* Left rotate by 18: Rotate left by 16, then left by 2 */
#define leftRotate18(a) (leftRotate(leftRotate(leftRotate((a), 16), 1), 1))

/* Left rotate by 19: Rotate left by 16, then left by 3 */
#define leftRotate19(a) (leftRotate(leftRotate(leftRotate(leftRotate((a), 16), 1), 1), 1))

/* Left rotate by 20: Rotate left by 16, then left by 4 */
#define leftRotate20(a) (leftRotate(leftRotate(leftRotate(leftRotate(leftRotate((a), 16), 1), 1), 1), 1))

/* Left rotate by 21: Rotate left by 24, then right by 3 */
#define leftRotate21(a) (rightRotate(rightRotate(rightRotate(leftRotate((a), 24), 1), 1), 1))

/* Left rotate by 22: Rotate left by 24, then right by 2 */
#define leftRotate22(a) (rightRotate(rightRotate(leftRotate((a), 24), 1), 1))

/* Left rotate by 23: Rotate left by 24, then right by 1 */
#define leftRotate23(a) (rightRotate(leftRotate((a), 24), 1))

/* Left rotate by 24 */
#define leftRotate24(a) (leftRotate((a), 24))

/* Left rotate by 25: Rotate left by 24, then left by 1 */
#define leftRotate25(a) (leftRotate(leftRotate((a), 24), 1))

/* Left rotate by 26: Rotate left by 24, then left by 2 */
#define leftRotate26(a) (leftRotate(leftRotate(leftRotate((a), 24), 1), 1))

/* Left rotate by 27: Rotate left by 24, then left by 3 */
#define leftRotate27(a) (leftRotate(leftRotate(leftRotate(leftRotate((a), 24), 1), 1), 1))

/* Left rotate by 28: Rotate right by 4 */
#define leftRotate28(a) (rightRotate(rightRotate(rightRotate(rightRotate((a), 1), 1), 1), 1))

/* Left rotate by 29: Rotate right by 3 */
#define leftRotate29(a) (rightRotate(rightRotate(rightRotate((a), 1), 1), 1))

/* Left rotate by 30: Rotate right by 2 */
#define leftRotate30(a) (rightRotate(rightRotate((a), 1), 1))

/* Left rotate by 31: Rotate right by 1 */
#define leftRotate31(a) (rightRotate((a), 1))

/* Define the 32-bit right rotations in terms of left rotations */
#define rightRotate1(a)  (leftRotate31((a)))
#define rightRotate2(a)  (leftRotate30((a)))
#define rightRotate3(a)  (leftRotate29((a)))
#define rightRotate4(a)  (leftRotate28((a)))
#define rightRotate5(a)  (leftRotate27((a)))
#define rightRotate6(a)  (leftRotate26((a)))
#define rightRotate7(a)  (leftRotate25((a)))
#define rightRotate8(a)  (leftRotate24((a)))
#define rightRotate9(a)  (leftRotate23((a)))
#define rightRotate10(a) (leftRotate22((a)))
#define rightRotate11(a) (leftRotate21((a)))
#define rightRotate12(a) (leftRotate20((a)))
#define rightRotate13(a) (leftRotate19((a)))
#define rightRotate14(a) (leftRotate18((a)))
#define rightRotate15(a) (leftRotate17((a)))
#define rightRotate16(a) (leftRotate16((a)))
#define rightRotate17(a) (leftRotate15((a)))
#define rightRotate18(a) (leftRotate14((a)))
#define rightRotate19(a) (leftRotate13((a)))
#define rightRotate20(a) (leftRotate12((a)))
#define rightRotate21(a) (leftRotate11((a)))
#define rightRotate22(a) (leftRotate10((a)))
#define rightRotate23(a) (leftRotate9((a)))
#define rightRotate24(a) (leftRotate8((a)))
#define rightRotate25(a) (leftRotate7((a)))
#define rightRotate26(a) (leftRotate6((a)))
#define rightRotate27(a) (leftRotate5((a)))
#define rightRotate28(a) (leftRotate4((a)))
#define rightRotate29(a) (leftRotate3((a)))
#define rightRotate30(a) (leftRotate2((a)))
#define rightRotate31(a) (leftRotate1((a)))

#endif /* LW_CRYPTO_ROTATE32_COMPOSED */

/* Rotation macros for 64-bit arguments */

/* Generic left rotate */
#define leftRotate_64(a, bits) \
    (__extension__ ({ \
        uint64_t _temp = (a); \
        (_temp << (bits)) | (_temp >> (64 - (bits))); \
    }))

/* Generic right rotate */
#define rightRotate_64(a, bits) \
    (__extension__ ({ \
        uint64_t _temp = (a); \
        (_temp >> (bits)) | (_temp << (64 - (bits))); \
    }))

/* Left rotate by a specific number of bits.  These macros may be replaced
 * with more efficient ones on platforms that lack a barrel shifter */
#define leftRotate1_64(a)  (leftRotate_64((a), 1))
#define leftRotate2_64(a)  (leftRotate_64((a), 2))
#define leftRotate3_64(a)  (leftRotate_64((a), 3))
#define leftRotate4_64(a)  (leftRotate_64((a), 4))
#define leftRotate5_64(a)  (leftRotate_64((a), 5))
#define leftRotate6_64(a)  (leftRotate_64((a), 6))
#define leftRotate7_64(a)  (leftRotate_64((a), 7))
#define leftRotate8_64(a)  (leftRotate_64((a), 8))
#define leftRotate9_64(a)  (leftRotate_64((a), 9))
#define leftRotate10_64(a) (leftRotate_64((a), 10))
#define leftRotate11_64(a) (leftRotate_64((a), 11))
#define leftRotate12_64(a) (leftRotate_64((a), 12))
#define leftRotate13_64(a) (leftRotate_64((a), 13))
#define leftRotate14_64(a) (leftRotate_64((a), 14))
#define leftRotate15_64(a) (leftRotate_64((a), 15))
#define leftRotate16_64(a) (leftRotate_64((a), 16))
#define leftRotate17_64(a) (leftRotate_64((a), 17))
#define leftRotate18_64(a) (leftRotate_64((a), 18))
#define leftRotate19_64(a) (leftRotate_64((a), 19))
#define leftRotate20_64(a) (leftRotate_64((a), 20))
#define leftRotate21_64(a) (leftRotate_64((a), 21))
#define leftRotate22_64(a) (leftRotate_64((a), 22))
#define leftRotate23_64(a) (leftRotate_64((a), 23))
#define leftRotate24_64(a) (leftRotate_64((a), 24))
#define leftRotate25_64(a) (leftRotate_64((a), 25))
#define leftRotate26_64(a) (leftRotate_64((a), 26))
#define leftRotate27_64(a) (leftRotate_64((a), 27))
#define leftRotate28_64(a) (leftRotate_64((a), 28))
#define leftRotate29_64(a) (leftRotate_64((a), 29))
#define leftRotate30_64(a) (leftRotate_64((a), 30))
#define leftRotate31_64(a) (leftRotate_64((a), 31))
#define leftRotate32_64(a) (leftRotate_64((a), 32))
#define leftRotate33_64(a) (leftRotate_64((a), 33))
#define leftRotate34_64(a) (leftRotate_64((a), 34))
#define leftRotate35_64(a) (leftRotate_64((a), 35))
#define leftRotate36_64(a) (leftRotate_64((a), 36))
#define leftRotate37_64(a) (leftRotate_64((a), 37))
#define leftRotate38_64(a) (leftRotate_64((a), 38))
#define leftRotate39_64(a) (leftRotate_64((a), 39))
#define leftRotate40_64(a) (leftRotate_64((a), 40))
#define leftRotate41_64(a) (leftRotate_64((a), 41))
#define leftRotate42_64(a) (leftRotate_64((a), 42))
#define leftRotate43_64(a) (leftRotate_64((a), 43))
#define leftRotate44_64(a) (leftRotate_64((a), 44))
#define leftRotate45_64(a) (leftRotate_64((a), 45))
#define leftRotate46_64(a) (leftRotate_64((a), 46))
#define leftRotate47_64(a) (leftRotate_64((a), 47))
#define leftRotate48_64(a) (leftRotate_64((a), 48))
#define leftRotate49_64(a) (leftRotate_64((a), 49))
#define leftRotate50_64(a) (leftRotate_64((a), 50))
#define leftRotate51_64(a) (leftRotate_64((a), 51))
#define leftRotate52_64(a) (leftRotate_64((a), 52))
#define leftRotate53_64(a) (leftRotate_64((a), 53))
#define leftRotate54_64(a) (leftRotate_64((a), 54))
#define leftRotate55_64(a) (leftRotate_64((a), 55))
#define leftRotate56_64(a) (leftRotate_64((a), 56))
#define leftRotate57_64(a) (leftRotate_64((a), 57))
#define leftRotate58_64(a) (leftRotate_64((a), 58))
#define leftRotate59_64(a) (leftRotate_64((a), 59))
#define leftRotate60_64(a) (leftRotate_64((a), 60))
#define leftRotate61_64(a) (leftRotate_64((a), 61))
#define leftRotate62_64(a) (leftRotate_64((a), 62))
#define leftRotate63_64(a) (leftRotate_64((a), 63))

/* Right rotate by a specific number of bits.  These macros may be replaced
 * with more efficient ones on platforms that lack a barrel shifter */
#define rightRotate1_64(a)  (rightRotate_64((a), 1))
#define rightRotate2_64(a)  (rightRotate_64((a), 2))
#define rightRotate3_64(a)  (rightRotate_64((a), 3))
#define rightRotate4_64(a)  (rightRotate_64((a), 4))
#define rightRotate5_64(a)  (rightRotate_64((a), 5))
#define rightRotate6_64(a)  (rightRotate_64((a), 6))
#define rightRotate7_64(a)  (rightRotate_64((a), 7))
#define rightRotate8_64(a)  (rightRotate_64((a), 8))
#define rightRotate9_64(a)  (rightRotate_64((a), 9))
#define rightRotate10_64(a) (rightRotate_64((a), 10))
#define rightRotate11_64(a) (rightRotate_64((a), 11))
#define rightRotate12_64(a) (rightRotate_64((a), 12))
#define rightRotate13_64(a) (rightRotate_64((a), 13))
#define rightRotate14_64(a) (rightRotate_64((a), 14))
#define rightRotate15_64(a) (rightRotate_64((a), 15))
#define rightRotate16_64(a) (rightRotate_64((a), 16))
#define rightRotate17_64(a) (rightRotate_64((a), 17))
#define rightRotate18_64(a) (rightRotate_64((a), 18))
#define rightRotate19_64(a) (rightRotate_64((a), 19))
#define rightRotate20_64(a) (rightRotate_64((a), 20))
#define rightRotate21_64(a) (rightRotate_64((a), 21))
#define rightRotate22_64(a) (rightRotate_64((a), 22))
#define rightRotate23_64(a) (rightRotate_64((a), 23))
#define rightRotate24_64(a) (rightRotate_64((a), 24))
#define rightRotate25_64(a) (rightRotate_64((a), 25))
#define rightRotate26_64(a) (rightRotate_64((a), 26))
#define rightRotate27_64(a) (rightRotate_64((a), 27))
#define rightRotate28_64(a) (rightRotate_64((a), 28))
#define rightRotate29_64(a) (rightRotate_64((a), 29))
#define rightRotate30_64(a) (rightRotate_64((a), 30))
#define rightRotate31_64(a) (rightRotate_64((a), 31))
#define rightRotate32_64(a) (rightRotate_64((a), 32))
#define rightRotate33_64(a) (rightRotate_64((a), 33))
#define rightRotate34_64(a) (rightRotate_64((a), 34))
#define rightRotate35_64(a) (rightRotate_64((a), 35))
#define rightRotate36_64(a) (rightRotate_64((a), 36))
#define rightRotate37_64(a) (rightRotate_64((a), 37))
#define rightRotate38_64(a) (rightRotate_64((a), 38))
#define rightRotate39_64(a) (rightRotate_64((a), 39))
#define rightRotate40_64(a) (rightRotate_64((a), 40))
#define rightRotate41_64(a) (rightRotate_64((a), 41))
#define rightRotate42_64(a) (rightRotate_64((a), 42))
#define rightRotate43_64(a) (rightRotate_64((a), 43))
#define rightRotate44_64(a) (rightRotate_64((a), 44))
#define rightRotate45_64(a) (rightRotate_64((a), 45))
#define rightRotate46_64(a) (rightRotate_64((a), 46))
#define rightRotate47_64(a) (rightRotate_64((a), 47))
#define rightRotate48_64(a) (rightRotate_64((a), 48))
#define rightRotate49_64(a) (rightRotate_64((a), 49))
#define rightRotate50_64(a) (rightRotate_64((a), 50))
#define rightRotate51_64(a) (rightRotate_64((a), 51))
#define rightRotate52_64(a) (rightRotate_64((a), 52))
#define rightRotate53_64(a) (rightRotate_64((a), 53))
#define rightRotate54_64(a) (rightRotate_64((a), 54))
#define rightRotate55_64(a) (rightRotate_64((a), 55))
#define rightRotate56_64(a) (rightRotate_64((a), 56))
#define rightRotate57_64(a) (rightRotate_64((a), 57))
#define rightRotate58_64(a) (rightRotate_64((a), 58))
#define rightRotate59_64(a) (rightRotate_64((a), 59))
#define rightRotate60_64(a) (rightRotate_64((a), 60))
#define rightRotate61_64(a) (rightRotate_64((a), 61))
#define rightRotate62_64(a) (rightRotate_64((a), 62))
#define rightRotate63_64(a) (rightRotate_64((a), 63))

/* Rotate a 16-bit value left by a number of bits */
#define leftRotate_16(a, bits) \
    (__extension__ ({ \
        uint16_t _temp = (a); \
        (_temp << (bits)) | (_temp >> (16 - (bits))); \
    }))

/* Rotate a 16-bit value right by a number of bits */
#define rightRotate_16(a, bits) \
    (__extension__ ({ \
        uint16_t _temp = (a); \
        (_temp >> (bits)) | (_temp << (16 - (bits))); \
    }))

/* Left rotate by a specific number of bits.  These macros may be replaced
 * with more efficient ones on platforms that lack a barrel shifter */
#define leftRotate1_16(a)  (leftRotate_16((a), 1))
#define leftRotate2_16(a)  (leftRotate_16((a), 2))
#define leftRotate3_16(a)  (leftRotate_16((a), 3))
#define leftRotate4_16(a)  (leftRotate_16((a), 4))
#define leftRotate5_16(a)  (leftRotate_16((a), 5))
#define leftRotate6_16(a)  (leftRotate_16((a), 6))
#define leftRotate7_16(a)  (leftRotate_16((a), 7))
#define leftRotate8_16(a)  (leftRotate_16((a), 8))
#define leftRotate9_16(a)  (leftRotate_16((a), 9))
#define leftRotate10_16(a) (leftRotate_16((a), 10))
#define leftRotate11_16(a) (leftRotate_16((a), 11))
#define leftRotate12_16(a) (leftRotate_16((a), 12))
#define leftRotate13_16(a) (leftRotate_16((a), 13))
#define leftRotate14_16(a) (leftRotate_16((a), 14))
#define leftRotate15_16(a) (leftRotate_16((a), 15))

/* Right rotate by a specific number of bits.  These macros may be replaced
 * with more efficient ones on platforms that lack a barrel shifter */
#define rightRotate1_16(a)  (rightRotate_16((a), 1))
#define rightRotate2_16(a)  (rightRotate_16((a), 2))
#define rightRotate3_16(a)  (rightRotate_16((a), 3))
#define rightRotate4_16(a)  (rightRotate_16((a), 4))
#define rightRotate5_16(a)  (rightRotate_16((a), 5))
#define rightRotate6_16(a)  (rightRotate_16((a), 6))
#define rightRotate7_16(a)  (rightRotate_16((a), 7))
#define rightRotate8_16(a)  (rightRotate_16((a), 8))
#define rightRotate9_16(a)  (rightRotate_16((a), 9))
#define rightRotate10_16(a) (rightRotate_16((a), 10))
#define rightRotate11_16(a) (rightRotate_16((a), 11))
#define rightRotate12_16(a) (rightRotate_16((a), 12))
#define rightRotate13_16(a) (rightRotate_16((a), 13))
#define rightRotate14_16(a) (rightRotate_16((a), 14))
#define rightRotate15_16(a) (rightRotate_16((a), 15))

/* Rotate an 8-bit value left by a number of bits */
#define leftRotate_8(a, bits) \
    (__extension__ ({ \
        uint8_t _temp = (a); \
        (_temp << (bits)) | (_temp >> (8 - (bits))); \
    }))

/* Rotate an 8-bit value right by a number of bits */
#define rightRotate_8(a, bits) \
    (__extension__ ({ \
        uint8_t _temp = (a); \
        (_temp >> (bits)) | (_temp << (8 - (bits))); \
    }))

/* Left rotate by a specific number of bits.  These macros may be replaced
 * with more efficient ones on platforms that lack a barrel shifter */
#define leftRotate1_8(a)  (leftRotate_8((a), 1))
#define leftRotate2_8(a)  (leftRotate_8((a), 2))
#define leftRotate3_8(a)  (leftRotate_8((a), 3))
#define leftRotate4_8(a)  (leftRotate_8((a), 4))
#define leftRotate5_8(a)  (leftRotate_8((a), 5))
#define leftRotate6_8(a)  (leftRotate_8((a), 6))
#define leftRotate7_8(a)  (leftRotate_8((a), 7))

/* Right rotate by a specific number of bits.  These macros may be replaced
 * with more efficient ones on platforms that lack a barrel shifter */
#define rightRotate1_8(a)  (rightRotate_8((a), 1))
#define rightRotate2_8(a)  (rightRotate_8((a), 2))
#define rightRotate3_8(a)  (rightRotate_8((a), 3))
#define rightRotate4_8(a)  (rightRotate_8((a), 4))
#define rightRotate5_8(a)  (rightRotate_8((a), 5))
#define rightRotate6_8(a)  (rightRotate_8((a), 6))
#define rightRotate7_8(a)  (rightRotate_8((a), 7))

/**
 * \brief Check an authentication tag in constant time.
 *
 * \param plaintext Points to the plaintext data.
 * \param plaintext_len Length of the plaintext in bytes.
 * \param tag1 First tag to compare.
 * \param tag2 Second tag to compare.
 * \param size Length of the tags in bytes.
 *
 * \return Returns -1 if the tag check failed or 0 if the check succeeded.
 *
 * If the tag check fails, then the \a plaintext will also be zeroed to
 * prevent it from being used accidentally by the application when the
 * ciphertext was invalid.
 */
int tinyjambu_aead_check_tag
    (unsigned char *plaintext, size_t plaintext_len,
     const unsigned char *tag1, const unsigned char *tag2, size_t size);

#endif
