/*
 * Copyright (C) 2022 Southern Storm Software, Pty Ltd.
 *
 * Permission is hereby granted, free of charge, to any person obtaining a
 * copy of this software and associated documentation files (the "Software"),
 * to deal in the Software without restriction, including without limitation
 * the rights to use, copy, modify, merge, publish, distribute, sublicense,
 * and/or sell copies of the Software, and to permit persons to whom the
 * Software is furnished to do so, subject to the following conditions:
 *
 * The above copyright notice and this permission notice shall be included
 * in all copies or substantial portions of the Software.
 *
 * THE SOFTWARE IS PROVIDED "AS IS", WITHOUT WARRANTY OF ANY KIND, EXPRESS
 * OR IMPLIED, INCLUDING BUT NOT LIMITED TO THE WARRANTIES OF MERCHANTABILITY,
 * FITNESS FOR A PARTICULAR PURPOSE AND NONINFRINGEMENT. IN NO EVENT SHALL THE
 * AUTHORS OR COPYRIGHT HOLDERS BE LIABLE FOR ANY CLAIM, DAMAGES OR OTHER
 * LIABILITY, WHETHER IN AN ACTION OF CONTRACT, TORT OR OTHERWISE, ARISING
 * FROM, OUT OF OR IN CONNECTION WITH THE SOFTWARE OR THE USE OR OTHER
 * DEALINGS IN THE SOFTWARE.
 */

#ifndef TINYJAMBU_H
#define TINYJAMBU_H

#include <stddef.h>

/**
 * \file TinyJAMBU.h
 * \brief TinyJAMBU authenticated encryption algorithm.
 *
 * TinyJAMBU is a family of encryption algorithms that are built around a
 * lightweight 128-bit permutation.  There are three variants of TinyJAMBU
 * with different key sizes:
 *
 * \li TinyJAMBU-128 with a 128-bit key, a 96-bit nonce, and a 64-bit tag.
 * This is the primary member of the family.
 * \li TinyJAMBU-192 with a 192-bit key, a 96-bit nonce, and a 64-bit tag.
 * \li TinyJAMBU-256 with a 256-bit key, a 96-bit nonce, and a 64-bit tag.
 *
 * TinyJAMBU has one of the smallest RAM and flash memory footprints out of
 * the algorithms in the NIST Lightweight Cryptography Competition (LWC).
 */

#ifdef __cplusplus
extern "C" {
#endif

/**
 * \brief Size of the key for TinyJAMBU-128.
 */
#define TINYJAMBU_128_KEY_SIZE 16

/**
 * \brief Size of the key for TinyJAMBU-192.
 */
#define TINYJAMBU_192_KEY_SIZE 24

/**
 * \brief Size of the key for TinyJAMBU-256.
 */
#define TINYJAMBU_256_KEY_SIZE 32

/**
 * \brief Size of the authentication tag for all TinyJAMBU variants.
 */
#define TINYJAMBU_TAG_SIZE 8

/**
 * \brief Size of the nonce for all TinyJAMBU variants.
 */
#define TINYJAMBU_NONCE_SIZE 12

/**
 * \brief Size of the hash output for TinyJAMBU-Hash.
 */
#define TINYJAMBU_HASH_SIZE 32

/**
 * \brief Default size of the output for TinyJAMBU-HMAC.
 */
#define TINYJAMBU_HMAC_SIZE TINYJAMBU_HASH_SIZE

/**
 * \brief Default output block size for TinyJAMBU-PBKDF2.  Key material is
 * generated in blocks of this size.
 */
#define TINYJAMBU_PBKDF2_SIZE TINYJAMBU_HASH_SIZE

/**
 * \brief Encrypts and authenticates a packet with TinyJAMBU-128.
 *
 * \param c Buffer to receive the output.
 * \param clen On exit, set to the length of the output which includes
 * the ciphertext and the 8 byte authentication tag.
 * \param m Buffer that contains the plaintext message to encrypt.
 * \param mlen Length of the plaintext message in bytes.
 * \param ad Buffer that contains associated data to authenticate
 * along with the packet but which does not need to be encrypted.
 * \param adlen Length of the associated data in bytes.
 * \param npub Points to the public nonce for the packet which must
 * be 12 bytes in length.
 * \param k Points to the 16 bytes of the key to use to encrypt the packet.
 *
 * \sa tinyjambu_128_aead_decrypt()
 */
void tinyjambu_128_aead_encrypt
    (unsigned char *c, size_t *clen,
     const unsigned char *m, size_t mlen,
     const unsigned char *ad, size_t adlen,
     const unsigned char *npub,
     const unsigned char *k);

/**
 * \brief Decrypts and authenticates a packet with TinyJAMBU-128.
 *
 * \param m Buffer to receive the plaintext message on output.
 * \param mlen Receives the length of the plaintext message on output.
 * \param c Buffer that contains the ciphertext and authentication
 * tag to decrypt.
 * \param clen Length of the input data in bytes, which includes the
 * ciphertext and the 8 byte authentication tag.
 * \param ad Buffer that contains associated data to authenticate
 * along with the packet but which does not need to be encrypted.
 * \param adlen Length of the associated data in bytes.
 * \param npub Points to the public nonce for the packet which must
 * be 12 bytes in length.
 * \param k Points to the 16 bytes of the key to use to decrypt the packet.
 *
 * \return 0 on success, -1 if the authentication tag was incorrect,
 * or some other negative number if there was an error in the parameters.
 *
 * \sa tinyjambu_128_aead_encrypt()
 */
int tinyjambu_128_aead_decrypt
    (unsigned char *m, size_t *mlen,
     const unsigned char *c, size_t clen,
     const unsigned char *ad, size_t adlen,
     const unsigned char *npub,
     const unsigned char *k);

/**
 * \brief Encrypts and authenticates a packet with TinyJAMBU-192.
 *
 * \param c Buffer to receive the output.
 * \param clen On exit, set to the length of the output which includes
 * the ciphertext and the 8 byte authentication tag.
 * \param m Buffer that contains the plaintext message to encrypt.
 * \param mlen Length of the plaintext message in bytes.
 * \param ad Buffer that contains associated data to authenticate
 * along with the packet but which does not need to be encrypted.
 * \param adlen Length of the associated data in bytes.
 * \param npub Points to the public nonce for the packet which must
 * be 12 bytes in length.
 * \param k Points to the 24 bytes of the key to use to encrypt the packet.
 *
 * \sa tinyjambu_192_aead_decrypt()
 */
void tinyjambu_192_aead_encrypt
    (unsigned char *c, size_t *clen,
     const unsigned char *m, size_t mlen,
     const unsigned char *ad, size_t adlen,
     const unsigned char *npub,
     const unsigned char *k);

/**
 * \brief Decrypts and authenticates a packet with TinyJAMBU-192.
 *
 * \param m Buffer to receive the plaintext message on output.
 * \param mlen Receives the length of the plaintext message on output.
 * \param c Buffer that contains the ciphertext and authentication
 * tag to decrypt.
 * \param clen Length of the input data in bytes, which includes the
 * ciphertext and the 8 byte authentication tag.
 * \param ad Buffer that contains associated data to authenticate
 * along with the packet but which does not need to be encrypted.
 * \param adlen Length of the associated data in bytes.
 * \param npub Points to the public nonce for the packet which must
 * be 12 bytes in length.
 * \param k Points to the 24 bytes of the key to use to decrypt the packet.
 *
 * \return 0 on success, -1 if the authentication tag was incorrect,
 * or some other negative number if there was an error in the parameters.
 *
 * \sa tinyjambu_192_aead_encrypt()
 */
int tinyjambu_192_aead_decrypt
    (unsigned char *m, size_t *mlen,
     const unsigned char *c, size_t clen,
     const unsigned char *ad, size_t adlen,
     const unsigned char *npub,
     const unsigned char *k);

/**
 * \brief Encrypts and authenticates a packet with TinyJAMBU-256.
 *
 * \param c Buffer to receive the output.
 * \param clen On exit, set to the length of the output which includes
 * the ciphertext and the 8 byte authentication tag.
 * \param m Buffer that contains the plaintext message to encrypt.
 * \param mlen Length of the plaintext message in bytes.
 * \param ad Buffer that contains associated data to authenticate
 * along with the packet but which does not need to be encrypted.
 * \param adlen Length of the associated data in bytes.
 * \param npub Points to the public nonce for the packet which must
 * be 12 bytes in length.
 * \param k Points to the 32 bytes of the key to use to encrypt the packet.
 *
 * \sa tinyjambu_256_aead_decrypt()
 */
void tinyjambu_256_aead_encrypt
    (unsigned char *c, size_t *clen,
     const unsigned char *m, size_t mlen,
     const unsigned char *ad, size_t adlen,
     const unsigned char *npub,
     const unsigned char *k);

/**
 * \brief Decrypts and authenticates a packet with TinyJAMBU-256.
 *
 * \param m Buffer to receive the plaintext message on output.
 * \param mlen Receives the length of the plaintext message on output.
 * \param c Buffer that contains the ciphertext and authentication
 * tag to decrypt.
 * \param clen Length of the input data in bytes, which includes the
 * ciphertext and the 8 byte authentication tag.
 * \param ad Buffer that contains associated data to authenticate
 * along with the packet but which does not need to be encrypted.
 * \param adlen Length of the associated data in bytes.
 * \param npub Points to the public nonce for the packet which must
 * be 12 bytes in length.
 * \param k Points to the 32 bytes of the key to use to decrypt the packet.
 *
 * \return 0 on success, -1 if the authentication tag was incorrect,
 * or some other negative number if there was an error in the parameters.
 *
 * \sa tinyjambu_256_aead_encrypt()
 */
int tinyjambu_256_aead_decrypt
    (unsigned char *m, size_t *mlen,
     const unsigned char *c, size_t clen,
     const unsigned char *ad, size_t adlen,
     const unsigned char *npub,
     const unsigned char *k);

/**
 * \brief Encrypts and authenticates a packet with TinyJAMBU-128 in SIV mode.
 *
 * \param c Buffer to receive the output.
 * \param clen On exit, set to the length of the output which includes
 * the ciphertext and the 8 byte authentication tag.
 * \param m Buffer that contains the plaintext message to encrypt.
 * \param mlen Length of the plaintext message in bytes.
 * \param ad Buffer that contains associated data to authenticate
 * along with the packet but which does not need to be encrypted.
 * \param adlen Length of the associated data in bytes.
 * \param npub Points to the public nonce for the packet which must
 * be 12 bytes in length.
 * \param k Points to the 16 bytes of the key to use to encrypt the packet.
 *
 * \sa tinyjambu_128_siv_decrypt()
 */
void tinyjambu_128_siv_encrypt
    (unsigned char *c, size_t *clen,
     const unsigned char *m, size_t mlen,
     const unsigned char *ad, size_t adlen,
     const unsigned char *npub,
     const unsigned char *k);

/**
 * \brief Decrypts and authenticates a packet with TinyJAMBU-128 in SIV mode.
 *
 * \param m Buffer to receive the plaintext message on output.
 * \param mlen Receives the length of the plaintext message on output.
 * \param c Buffer that contains the ciphertext and authentication
 * tag to decrypt.
 * \param clen Length of the input data in bytes, which includes the
 * ciphertext and the 8 byte authentication tag.
 * \param ad Buffer that contains associated data to authenticate
 * along with the packet but which does not need to be encrypted.
 * \param adlen Length of the associated data in bytes.
 * \param npub Points to the public nonce for the packet which must
 * be 12 bytes in length.
 * \param k Points to the 16 bytes of the key to use to decrypt the packet.
 *
 * \return 0 on success, -1 if the authentication tag was incorrect,
 * or some other negative number if there was an error in the parameters.
 *
 * \sa tinyjambu_128_siv_encrypt()
 */
int tinyjambu_128_siv_decrypt
    (unsigned char *m, size_t *mlen,
     const unsigned char *c, size_t clen,
     const unsigned char *ad, size_t adlen,
     const unsigned char *npub,
     const unsigned char *k);

/**
 * \brief Encrypts and authenticates a packet with TinyJAMBU-192 in SIV mode.
 *
 * \param c Buffer to receive the output.
 * \param clen On exit, set to the length of the output which includes
 * the ciphertext and the 8 byte authentication tag.
 * \param m Buffer that contains the plaintext message to encrypt.
 * \param mlen Length of the plaintext message in bytes.
 * \param ad Buffer that contains associated data to authenticate
 * along with the packet but which does not need to be encrypted.
 * \param adlen Length of the associated data in bytes.
 * \param npub Points to the public nonce for the packet which must
 * be 12 bytes in length.
 * \param k Points to the 24 bytes of the key to use to encrypt the packet.
 *
 * \sa tinyjambu_192_siv_decrypt()
 */
void tinyjambu_192_siv_encrypt
    (unsigned char *c, size_t *clen,
     const unsigned char *m, size_t mlen,
     const unsigned char *ad, size_t adlen,
     const unsigned char *npub,
     const unsigned char *k);

/**
 * \brief Decrypts and authenticates a packet with TinyJAMBU-192 in SIV mode.
 *
 * \param m Buffer to receive the plaintext message on output.
 * \param mlen Receives the length of the plaintext message on output.
 * \param c Buffer that contains the ciphertext and authentication
 * tag to decrypt.
 * \param clen Length of the input data in bytes, which includes the
 * ciphertext and the 8 byte authentication tag.
 * \param ad Buffer that contains associated data to authenticate
 * along with the packet but which does not need to be encrypted.
 * \param adlen Length of the associated data in bytes.
 * \param npub Points to the public nonce for the packet which must
 * be 12 bytes in length.
 * \param k Points to the 24 bytes of the key to use to decrypt the packet.
 *
 * \return 0 on success, -1 if the authentication tag was incorrect,
 * or some other negative number if there was an error in the parameters.
 *
 * \sa tinyjambu_192_siv_encrypt()
 */
int tinyjambu_192_siv_decrypt
    (unsigned char *m, size_t *mlen,
     const unsigned char *c, size_t clen,
     const unsigned char *ad, size_t adlen,
     const unsigned char *npub,
     const unsigned char *k);

/**
 * \brief Encrypts and authenticates a packet with TinyJAMBU-256 in SIV mode.
 *
 * \param c Buffer to receive the output.
 * \param clen On exit, set to the length of the output which includes
 * the ciphertext and the 8 byte authentication tag.
 * \param m Buffer that contains the plaintext message to encrypt.
 * \param mlen Length of the plaintext message in bytes.
 * \param ad Buffer that contains associated data to authenticate
 * along with the packet but which does not need to be encrypted.
 * \param adlen Length of the associated data in bytes.
 * \param npub Points to the public nonce for the packet which must
 * be 12 bytes in length.
 * \param k Points to the 32 bytes of the key to use to encrypt the packet.
 *
 * \sa tinyjambu_256_siv_decrypt()
 */
void tinyjambu_256_siv_encrypt
    (unsigned char *c, size_t *clen,
     const unsigned char *m, size_t mlen,
     const unsigned char *ad, size_t adlen,
     const unsigned char *npub,
     const unsigned char *k);

/**
 * \brief Decrypts and authenticates a packet with TinyJAMBU-256 in SIV mode.
 *
 * \param m Buffer to receive the plaintext message on output.
 * \param mlen Receives the length of the plaintext message on output.
 * \param c Buffer that contains the ciphertext and authentication
 * tag to decrypt.
 * \param clen Length of the input data in bytes, which includes the
 * ciphertext and the 8 byte authentication tag.
 * \param ad Buffer that contains associated data to authenticate
 * along with the packet but which does not need to be encrypted.
 * \param adlen Length of the associated data in bytes.
 * \param npub Points to the public nonce for the packet which must
 * be 12 bytes in length.
 * \param k Points to the 32 bytes of the key to use to decrypt the packet.
 *
 * \return 0 on success, -1 if the authentication tag was incorrect,
 * or some other negative number if there was an error in the parameters.
 *
 * \sa tinyjambu_256_siv_encrypt()
 */
int tinyjambu_256_siv_decrypt
    (unsigned char *m, size_t *mlen,
     const unsigned char *c, size_t clen,
     const unsigned char *ad, size_t adlen,
     const unsigned char *npub,
     const unsigned char *k);

/**
 * \brief State information for TinyJAMBU-Hash.
 */
typedef struct
{
    /** Private state for the hash.  Must be treated as opaque */
    unsigned long long s[56 / sizeof(unsigned long long)];

} tinyjambu_hash_state_t;

/**
 * \brief Hashes a block of input data with TinyJAMBU-Hash.
 *
 * \param out Buffer to receive the hash output which must be at least
 * TINYJAMBU_HASH_SIZE bytes in length.
 * \param in Points to the input data to be hashed.
 * \param inlen Length of the input data in bytes.
 *
 * \sa tinyjambu_hash_init(), tinyjambu_hash_update(), tinyjambu_hash_finalize()
 */
void tinyjambu_hash(unsigned char *out, const unsigned char *in, size_t inlen);

/**
 * \brief Initializes the state for an TinyJAMBU-Hash hashing operation.
 *
 * \param state Hash state to be initialized.
 *
 * \sa tinyjambu_hash_update(), tinyjambu_hash_finalize(), tinyjambu_hash()
 */
void tinyjambu_hash_init(tinyjambu_hash_state_t *state);

/**
 * \brief Re-initializes the state for an TinyJAMBU-Hash hashing operation.
 *
 * \param state Hash state to be re-initialized.
 *
 * This function is equivalent to calling tinyjambu_hash_free() and then
 * tinyjambu_hash_init() to restart the hashing process.
 *
 * \sa tinyjambu_hash_init()
 */
void tinyjambu_hash_reinit(tinyjambu_hash_state_t *state);

/**
 * \brief Frees the TinyJAMBU-Hash state and destroys any sensitive material.
 *
 * \param state Hash state to be freed.
 */
void tinyjambu_hash_free(tinyjambu_hash_state_t *state);

/**
 * \brief Updates an TinyJAMBU-Hash state with more input data.
 *
 * \param state Hash state to be updated.
 * \param in Points to the input data to be incorporated into the state.
 * \param inlen Length of the input data to be incorporated into the state.
 *
 * \sa tinyjambu_hash_init(), tinyjambu_hash_finalize()
 */
void tinyjambu_hash_update
    (tinyjambu_hash_state_t *state, const unsigned char *in, size_t inlen);

/**
 * \brief Returns the final hash value from an TinyJAMBU-Hash hashing operation.
 *
 * \param state Hash state to be finalized.
 * \param out Points to the output buffer to receive the hash value.
 * Must be at least TINYJAMBU_HASH_SIZE bytes in length.
 *
 * \sa tinyjambu_hash_init(), tinyjambu_hash_update()
 */
void tinyjambu_hash_finalize(tinyjambu_hash_state_t *state, unsigned char *out);

/**
 * \brief State information for the TINYJAMBU-HMAC incremental mode.
 */
typedef struct
{
    tinyjambu_hash_state_t hash;    /**< Internal TINYJAMBU-Hash state */

} tinyjambu_hmac_state_t;

/**
 * \brief Computes a HMAC value using TINYJAMBU-HASH.
 *
 * \param out Buffer to receive the output HMAC value; must be at least
 * TINYJAMBU_HMAC_SIZE bytes in length.
 * \param key Points to the key.
 * \param keylen Number of bytes in the key.
 * \param in Points to the data to authenticate.
 * \param inlen Number of bytes of data to authenticate.
 */
void tinyjambu_hmac
    (unsigned char *out,
     const unsigned char *key, size_t keylen,
     const unsigned char *in, size_t inlen);

/**
 * \brief Initializes an incremental HMAC state using TINYJAMBU-HASH.
 *
 * \param state Points to the state to be initialized.
 * \param key Points to the key.
 * \param keylen Number of bytes in the key.
 *
 * The \a key needs to be preserved until the tinyjambu_hmac_finalize() call
 * to provide the outer HMAC hashing key.
 *
 * \sa tinyjambu_hmac_update(), tinyjambu_hmac_finalize()
 */
void tinyjambu_hmac_init
    (tinyjambu_hmac_state_t *state, const unsigned char *key, size_t keylen);

/**
 * \brief Re-initializes an incremental HMAC state using TinyJAMBU-Hash.
 *
 * \param state Points to the state to be re-initialized.
 * \param key Points to the key.
 * \param keylen Number of bytes in the key.
 *
 * The \a key needs to be preserved until the tinyjambu_hmac_finalize() call
 * to provide the outer HMAC hashing key.
 *
 * This function is equivalent to calling tinyjambu_hmac_free() followed by
 * tinyjambu_hmac_init().
 *
 * \sa tinyjambu_hmac_init()
 */
void tinyjambu_hmac_reinit
    (tinyjambu_hmac_state_t *state, const unsigned char *key, size_t keylen);

/**
 * \brief Frees the TinyJAMBU-HMAC state and destroys any sensitive material.
 *
 * \param state HMAC state to be freed.
 */
void tinyjambu_hmac_free(tinyjambu_hmac_state_t *state);

/**
 * \brief Updates an incremental TINYJAMBU-HMAC state with more input data.
 *
 * \param state HMAC state to be updated.
 * \param in Points to the input data to be incorporated into the state.
 * \param inlen Length of the input data to be incorporated into the state.
 *
 * \sa tinyjambu_hmac_init(), tinyjambu_hmac_finalize()
 */
void tinyjambu_hmac_update
    (tinyjambu_hmac_state_t *state, const unsigned char *in, size_t inlen);

/**
 * \brief Finalizes an incremental TINYJAMBU-HMAC state.
 *
 * \param state HMAC state to squeeze the output data from.
 * \param key Points to the key.
 * \param keylen Number of bytes in the key.
 * \param out Points to the output buffer to receive the HMAC value;
 * must be at least TINYJAMBU_HMAC_SIZE bytes in length.
 *
 * \sa tinyjambu_hmac_init(), tinyjambu_hmac_update()
 */
void tinyjambu_hmac_finalize
    (tinyjambu_hmac_state_t *state, const unsigned char *key, size_t keylen,
     unsigned char *out);

/**
 * \brief State information for a TinyJAMBU-based PRNG.
 *
 * The PRNG can be used to expand a small amount of random entropy
 * into an arbitrary amount of output.  If the entropy source is not
 * uniform, then the PRNG will also help to distribute the input
 * entropy throughout the output in a uniform manner.
 */
typedef struct
{
    /** Private state for the PRNG.  Must be treated as opaque */
    unsigned long long s[96 / sizeof(unsigned long long)];

} tinyjambu_prng_state_t;

/**
 * \brief Prototype for a callback that seeds the TinyJAMBU PRNG.
 *
 * \param user_data User-supplied data pointer from tinyjambu_prng_init().
 * \param buf Points to the buffer to fill with random data.
 * \param size Number of bytes that are requested.
 *
 * \return The number of bytes that were returned, or zero if the
 * system random number source has failed.
 *
 * The callback should consult the system random number source
 * to obtain \a size bytes of new entropy.  It is allowed to return
 * less than \a size bytes but the callback should try very hard to
 * retrieve all requested bytes.
 */
typedef size_t (*tinyjambu_prng_callback_t)
    (void *user_data, unsigned char *buf, size_t size);

/**
 * \brief Initializes a TinyJAMBU-based PRNG and seeds it from the
 * default system random number source.
 *
 * \param state Points to the PRNG state to be initialized.
 * \param custom Points to a customization string to make this
 * instantiation of the PRNG unique.
 * \param custom_len Length of the customization string.
 *
 * \return Non-zero if enough data was obtained from the system random
 * number source to seed the PRNG; or zero otherwise.
 */
int tinyjambu_prng_init
    (tinyjambu_prng_state_t *state,
     const unsigned char *custom, size_t custom_len);

/**
 * \brief Initializes a TinyJAMBU-based PRNG with a user-supplied callback
 * to access the system random number source.
 *
 * \param state Points to the PRNG state to be initialized.
 * \param callback Callback for obtaining entropy from the system
 * random number source.
 * \param user_data User data pointer to supply to \a callback.
 * \param custom Points to a customization string to make this
 * instantiation of the PRNG unique.
 * \param custom_len Length of the customization string.
 *
 * \return Non-zero if enough data was obtained from the system random
 * number source to seed the PRNG; or zero otherwise.
 *
 * If \a callback is NULL, then a default source will be used.
 */
int tinyjambu_prng_init_user
    (tinyjambu_prng_state_t *state, tinyjambu_prng_callback_t callback,
     void *user_data, const unsigned char *custom, size_t custom_len);

/**
 * \brief Frees a TinyJAMBU-based PRNG and destroys all sensitive material.
 *
 * \param state Points to the PRNG state to be freed.
 */
void tinyjambu_prng_free(tinyjambu_prng_state_t *state);

/**
 * \brief Generates random bytes with a TinyJAMBU-based PRNG.
 *
 * \param state Points to the PRNG state to be used.
 * \param data Points to the data buffer to fill with random bytes.
 * \param size Number of bytes to be generated.
 *
 * This function generates data based on the random entropy that has
 * already been incorporated into the PRNG state.
 *
 * This function will automatically reseed after every 1K of output.
 *
 * It is recommended that tinyjambu_prng_reseed() be called regularly by
 * the application at other times when random numbers are not needed.
 * This will ensure that fresh entropy is mixed in regularly to improve
 * forward security.
 */
void tinyjambu_prng_generate
    (tinyjambu_prng_state_t *state, unsigned char *data, size_t size);

/**
 * \brief Feeds additional data into a TinyJAMBU-based PRNG.
 *
 * \param state Points to the PRNG state to be used.
 * \param data Points to the additional data to feed into the state.
 * \param size Number of bytes to feed into the state.
 *
 * This function can be used to add other sources of entropy to the
 * PRNG state.  Or to feed in serial numbers or other unique values
 * that will make the data generated by this device different from the
 * data generated by other devices.
 *
 * The PRNG is rekeyed after the data is fed in to improve forward
 * security.  If \a size is zero, then this function will just rekey.
 */
void tinyjambu_prng_feed
    (tinyjambu_prng_state_t *state, const unsigned char *data, size_t size);

/**
 * \brief Reseeds a TinyJAMBU-based PRNG from the system random number source.
 *
 * \param state Points to the PRNG state to be reseeded.
 *
 * \return Non-zero if it was possible to obtain all requested seed
 * material from the system random number source, or zero if the request
 * could not be accomodated.
 */
int tinyjambu_prng_reseed(tinyjambu_prng_state_t *state);

/**
 * \brief Sets the reseeding limit for a TinyJAMBU-based PRNG.
 *
 * \param state Points to the PRNG state to be updated.
 * \param limit Number of bytes to generate, after which the PRNG
 * will be automatically reseeded.  Maximum of 1M, default is 1K.
 *
 * The \a limit will be rounded up to the next block size if it is not a
 * multiple of 32.  Setting \a limit to zero will force the PRNG to be
 * reseeded every time tinyjambu_prng_generate() is called.
 */
void tinyjambu_prng_set_reseed_limit
    (tinyjambu_prng_state_t *state, size_t limit);

/**
 * \brief Derives key material using TinyJAMBU-PBKDF2.
 *
 * \param out Points to the output buffer to receive the key material.
 * \param outlen Number of bytes of key material to generate.
 * \param password Points to the bytes of the password.
 * \param passwordlen Number of bytes in the password.
 * \param salt Points to the bytes of the salt.
 * \param saltlen Number of bytes in the salt.
 * \param count Number of iterations to perform.  If this is set to zero,
 * then the value will be changed to 1.
 *
 * This function can generate a maximum of (2^32 - 1) *
 * TINYJAMBU_PBKDF2_SIZE bytes, but this limit is not checked.
 * The \a count value should be large enough to provide resistance
 * against dictionary attacks on the password.
 */
void tinyjambu_pbkdf2
    (unsigned char *out, size_t outlen,
     const unsigned char *password, size_t passwordlen,
     const unsigned char *salt, size_t saltlen, unsigned long count);

/**
 * \brief State for incremental generation of key material from TinyJAMBU-HKDF.
 */
typedef struct
{
    /** Private state for the HKDF algorithm.  Must be treated as opaque */
    unsigned long long s[72 / sizeof(unsigned long long)];

} tinyjambu_hkdf_state_t;

/**
 * \brief Derives key material using TinyJAMBU-HKDF.
 *
 * \param out Points to the output buffer to receive the key material.
 * \param outlen Number of bytes of key material to generate, maximum of
 * 8160 bytes.
 * \param key Points to the bytes of the key.
 * \param keylen Number of bytes in the key.
 * \param salt Points to the bytes of the salt.
 * \param saltlen Number of bytes in the salt.
 * \param info Points to the bytes of the informational data.
 * \param infolen Number of bytes in the informational data.
 *
 * \return Zero on success or -1 if \a outlen is out of range.
 *
 * \sa tinyjambu_hkdf_extract(), tinyjambu_hkdf_expand()
 */
int tinyjambu_hkdf
    (unsigned char *out, size_t outlen,
     const unsigned char *key, size_t keylen,
     const unsigned char *salt, size_t saltlen,
     const unsigned char *info, size_t infolen);

/**
 * \brief Extracts entropy from a key and salt for TinyJAMBU-HKDF.
 *
 * \param state HKDF state to be initialized.
 * \param key Points to the bytes of the key.
 * \param keylen Number of bytes in the key.
 * \param salt Points to the bytes of the salt.
 * \param saltlen Number of bytes in the salt.
 *
 * \sa tinyjambu_hkdf_expand(), tinyjambu_hkdf()
 */
void tinyjambu_hkdf_extract
    (tinyjambu_hkdf_state_t *state,
     const unsigned char *key, size_t keylen,
     const unsigned char *salt, size_t saltlen);

/**
 * \brief Expands key material using a TinyJAMBU-HKDF state.
 *
 * \param state HKDF state to use to expand key material.
 * \param info Points to the bytes of the informational data.
 * \param infolen Number of bytes in the informational data.
 * \param out Points to the output buffer to receive the key material.
 * \param outlen Number of bytes of key material to generate.
 *
 * \return Zero on success or -1 if too many bytes have been generated so far.
 * There is a limit of 8160 bytes.
 */
int tinyjambu_hkdf_expand
    (tinyjambu_hkdf_state_t *state,
     const unsigned char *info, size_t infolen,
     unsigned char *out, size_t outlen);

/**
 * \brief Frees all sensitive material in a TinyJAMBU-HKDF state.
 *
 * \param state Points to the HKDF state.
 */
void tinyjambu_hkdf_free(tinyjambu_hkdf_state_t *state);

/**
 * \brief Cleans a buffer that contains sensitive material.
 *
 * \param buf Points to the buffer to clear.
 * \param size Size of the buffer to clear in bytes.
 */
void tinyjambu_clean(void *buf, unsigned size);

#ifdef __cplusplus
}
#endif

#endif
