/*
 * Copyright (C) 2022 Southern Storm Software, Pty Ltd.
 *
 * Permission is hereby granted, free of charge, to any person obtaining a
 * copy of this software and associated documentation files (the "Software"),
 * to deal in the Software without restriction, including without limitation
 * the rights to use, copy, modify, merge, publish, distribute, sublicense,
 * and/or sell copies of the Software, and to permit persons to whom the
 * Software is furnished to do so, subject to the following conditions:
 *
 * The above copyright notice and this permission notice shall be included
 * in all copies or substantial portions of the Software.
 *
 * THE SOFTWARE IS PROVIDED "AS IS", WITHOUT WARRANTY OF ANY KIND, EXPRESS
 * OR IMPLIED, INCLUDING BUT NOT LIMITED TO THE WARRANTIES OF MERCHANTABILITY,
 * FITNESS FOR A PARTICULAR PURPOSE AND NONINFRINGEMENT. IN NO EVENT SHALL THE
 * AUTHORS OR COPYRIGHT HOLDERS BE LIABLE FOR ANY CLAIM, DAMAGES OR OTHER
 * LIABILITY, WHETHER IN AN ACTION OF CONTRACT, TORT OR OTHERWISE, ARISING
 * FROM, OUT OF OR IN CONNECTION WITH THE SOFTWARE OR THE USE OR OTHER
 * DEALINGS IN THE SOFTWARE.
 */

#ifndef TINYJAMBU_TRNG_STM32_H
#define TINYJAMBU_TRNG_STM32_H

#if defined(USE_HAL_DRIVER)

/* STM32 platform with the HAL libraries.  Try to detect the chip family.
 * Unfortunately there is no single header or define for "STM32 with an RNG".
 * Patches welcome to extend this list to new STM32 platforms.
 *
 * For each chip family we link to the .h file that contains the
 * up to date list of #define's for that family.  Some of them
 * don't have an RNG which will be caught later when we check for
 * the HAL_RNG_MODULE_ENABLED define.  It is easier to list
 * everything and not risk missing one.
 *
 * The list of defines for each family will need to be updated periodically. */
/* https://github.com/STMicroelectronics/STM32CubeF2/blob/master/Drivers/CMSIS/Device/ST/STM32F2xx/Include/stm32f2xx.h */
#if defined(STM32F205xx) || defined(STM32F215xx) || defined(STM32F207xx) || \
    defined(STM32F217xx)
#include "stm32f2xx_hal.h"
#define TINYJAMBU_TRNG_STM32 hrng
/* https://github.com/STMicroelectronics/STM32CubeF4/blob/master/Drivers/CMSIS/Device/ST/STM32F4xx/Include/stm32f4xx.h */
#elif defined(STM32F405xx) || defined(STM32F415xx) || defined(STM32F415xx) || \
      defined(STM32F417xx) || defined(STM32F427xx) || defined(STM32F437xx) || \
      defined(STM32F429xx) || defined(STM32F439xx) || defined(STM32F401xC) || \
      defined(STM32F401xE) || defined(STM32F410Tx) || defined(STM32F410Cx) || \
      defined(STM32F410Rx) || defined(STM32F411xE) || defined(STM32F446xx) || \
      defined(STM32F469xx) || defined(STM32F479xx) || defined(STM32F412Cx) || \
      defined(STM32F412Zx) || defined(STM32F412Rx) || defined(STM32F412Vx) || \
      defined(STM32F413xx) || defined(STM32F413xx)
#include "stm32f4xx_hal.h"
#define TINYJAMBU_TRNG_STM32 hrng
/* https://github.com/STMicroelectronics/STM32CubeF7/blob/master/Drivers/CMSIS/Device/ST/STM32F7xx/Include/stm32f7xx.h */
#elif defined(STM32F722xx) || defined(STM32F723xx) || defined(STM32F732xx) || \
      defined(STM32F733xx) || defined(STM32F756xx) || defined(STM32F746xx) || \
      defined(STM32F745xx) || defined(STM32F765xx) || defined(STM32F767xx) || \
      defined(STM32F769xx) || defined(STM32F777xx) || defined(STM32F779xx) || \
      defined(STM32F730xx) || defined(STM32F750xx)
#include "stm32f7xx_hal.h"
#define TINYJAMBU_TRNG_STM32 hrng
/* https://github.com/STMicroelectronics/STM32CubeG0/blob/master/Drivers/CMSIS/Device/ST/STM32G0xx/Include/stm32g0xx.h */
#elif defined(STM32G0B1xx) || defined(STM32G0C1xx) || defined(STM32G0B0xx) || \
      defined(STM32G071xx) || defined(STM32G081xx) || defined(STM32G070xx) || \
      defined(STM32G031xx) || defined(STM32G041xx) || defined(STM32G030xx) || \
      defined(STM32G051xx) || defined(STM32G061xx) || defined(STM32G050xx)
#include "stm32g0xx_hal.h"
#define TINYJAMBU_TRNG_STM32 hrng
/* https://github.com/STMicroelectronics/STM32CubeG4/blob/master/Drivers/CMSIS/Device/ST/STM32G4xx/Include/stm32g4xx.h */
#elif defined(STM32G431xx) || defined(STM32G441xx) || defined(STM32G471xx) || \
      defined(STM32G473xx) || defined(STM32G483xx) || defined(STM32G474xx) || \
      defined(STM32G484xx) || defined(STM32G491xx) || defined(STM32G4A1xx) || \
      defined(STM32GBK1CB)
#include "stm32g4xx_hal.h"
#define TINYJAMBU_TRNG_STM32 hrng
/* https://github.com/STMicroelectronics/STM32CubeH7/blob/master/Drivers/CMSIS/Device/ST/STM32H7xx/Include/stm32h7xx.h */
#elif defined(STM32H743xx) || defined(STM32H753xx) || defined(STM32H750xx) || \
      defined(STM32H742xx) || defined(STM32H745xx) || defined(STM32H755xx) || \
      defined(STM32H747xx) || defined(STM32H757xx) || defined(STM32H7B0xx) || \
      defined(STM32H7B0xxQ) || defined(STM32H7A3xx) || defined(STM32H7B3xx) || \
      defined(STM32H7A3xxQ) || defined(STM32H7B3xxQ) || defined(STM32H735xx) || \
      defined(STM32H733xx) || defined(STM32H730xx) || defined(STM32H730xxQ) || \
      defined(STM32H725xx) || defined(STM32H723xx)
#include "stm32h7xx_hal.h"
#define TINYJAMBU_TRNG_STM32 hrng
/* https://github.com/STMicroelectronics/STM32CubeL0/blob/master/Drivers/CMSIS/Device/ST/STM32L0xx/Include/stm32l0xx.h */
#elif defined(STM32L010xB) || defined(STM32L010x8) || defined(STM32L010x6) || \
      defined(STM32L010x4) || defined(STM32L011xx) || defined(STM32L021xx) || \
      defined(STM32L031xx) || defined(STM32L041xx) || defined(STM32L051xx) || \
      defined(STM32L052xx) || defined(STM32L053xx) || defined(STM32L062xx) || \
      defined(STM32L063xx) || defined(STM32L071xx) || defined(STM32L072xx) || \
      defined(STM32L073xx) || defined(STM32L082xx) || defined(STM32L083xx) || \
      defined(STM32L081xx)
#include "stm32l0xx_hal.h"
#define TINYJAMBU_TRNG_STM32 hrng
/* https://github.com/STMicroelectronics/STM32CubeL4/blob/master/Drivers/CMSIS/Device/ST/STM32L4xx/Include/stm32l4xx.h */
#elif defined(STM32L412xx) || defined(STM32L422xx) || defined(STM32L431xx) || \
      defined(STM32L432xx) || defined(STM32L433xx) || defined(STM32L442xx) || \
      defined(STM32L443xx) || defined(STM32L451xx) || defined(STM32L452xx) || \
      defined(STM32L462xx) || defined(STM32L471xx) || defined(STM32L475xx) || \
      defined(STM32L476xx) || defined(STM32L485xx) || defined(STM32L486xx) || \
      defined(STM32L496xx) || defined(STM32L4A6xx) || defined(STM32L4P5xx) || \
      defined(STM32L4Q5xx) || defined(STM32L4R5xx) || defined(STM32L4R7xx) || \
      defined(STM32L4R9xx) || defined(STM32L4S5xx) || defined(STM32L4S7xx) || \
      defined(STM32L4S9xx)
#include "stm32l4xx_hal.h"
#define TINYJAMBU_TRNG_STM32 hrng
/* https://github.com/STMicroelectronics/STM32CubeL5/blob/master/Drivers/CMSIS/Device/ST/STM32L5xx/Include/stm32l5xx.h */
#elif defined(STM32L552xx) || defined(STM32L562xx)
#include "stm32l5xx_hal.h"
#define TINYJAMBU_TRNG_STM32 hrng
/* https://github.com/STMicroelectronics/STM32CubeWB/blob/master/Drivers/CMSIS/Device/ST/STM32WBxx/Include/stm32wbxx.h */
#elif defined(STM32WB55xx) || defined(STM32WB5Mxx) || defined(STM32WB50xx) || \
      defined(STM32WB35xx) || defined(STM32WB30xx) || defined(STM32WB15xx) || \
      defined(STM32WB10xx)
#include "stm32wbxx_hal.h"
/* https://github.com/STMicroelectronics/STM32CubeWL/blob/main/Drivers/CMSIS/Device/ST/STM32WLxx/Include/stm32wlxx.h */
#elif defined(STM32WL55xx) || defined(STM32WLE5xx) || defined(STM32WL54xx) || \
      defined(STM32WLE4xx)
#include "stm32wlxx_hal.h"
#define TINYJAMBU_TRNG_STM32 hrng
/* https://github.com/STMicroelectronics/STM32CubeMP1/blob/master/Drivers/CMSIS/Device/ST/STM32MP1xx/Include/stm32mp1xx.h */
#elif defined(STM32MP15xx) || defined(STM32MP157Axx) || \
      defined(STM32MP157Cxx) || defined(STM32MP157Dxx) || \
      defined(STM32MP157Fxx) || defined(STM32MP153Axx) || \
      defined(STM32MP153Cxx) || defined(STM32MP153Dxx) || \
      defined(STM32MP153Fxx) || defined(STM32MP151Axx) || \
      defined(STM32MP151Cxx) || defined(STM32MP151Dxx) || \
      defined(STM32MP151Fxx)
#include "stm32mp1xx_hal.h"
#define TINYJAMBU_TRNG_STM32 hrng1 /* MP1 series has two RNG's, use the first one */
#endif

#if defined(HAL_RNG_MODULE_ENABLED)
#define TINYJAMBU_TRNG_STM32 1
#else
/* Using HAL libraries on STM32, but the RNG has not been selected
 * in the configuration.  Use STM32Cube to fix this and recompile. */
#warning "STM32 HAL configuration has not enabled the RNG"
#define TINYJAMBU_TRNG_NONE 1
#define TINYJAMBU_TRNG_MIXER 1
#endif

#endif /* USE_HAL_DRIVER */

#endif
