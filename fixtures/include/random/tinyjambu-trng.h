/*
 * Copyright (C) 2022 Southern Storm Software, Pty Ltd.
 *
 * Permission is hereby granted, free of charge, to any person obtaining a
 * copy of this software and associated documentation files (the "Software"),
 * to deal in the Software without restriction, including without limitation
 * the rights to use, copy, modify, merge, publish, distribute, sublicense,
 * and/or sell copies of the Software, and to permit persons to whom the
 * Software is furnished to do so, subject to the following conditions:
 *
 * The above copyright notice and this permission notice shall be included
 * in all copies or substantial portions of the Software.
 *
 * THE SOFTWARE IS PROVIDED "AS IS", WITHOUT WARRANTY OF ANY KIND, EXPRESS
 * OR IMPLIED, INCLUDING BUT NOT LIMITED TO THE WARRANTIES OF MERCHANTABILITY,
 * FITNESS FOR A PARTICULAR PURPOSE AND NONINFRINGEMENT. IN NO EVENT SHALL THE
 * AUTHORS OR COPYRIGHT HOLDERS BE LIABLE FOR ANY CLAIM, DAMAGES OR OTHER
 * LIABILITY, WHETHER IN AN ACTION OF CONTRACT, TORT OR OTHERWISE, ARISING
 * FROM, OUT OF OR IN CONNECTION WITH THE SOFTWARE OR THE USE OR OTHER
 * DEALINGS IN THE SOFTWARE.
 */

#ifndef TINYJAMBU_TRNG_H
#define TINYJAMBU_TRNG_H

/**
 * \file tinyjambu-trng.h
 * \brief Access to the system's random number source.
 *
 * This is not a public API and should only be used by the library itself.
 * Applications should use the PRNG API instead.
 *
 * The data that comes out of the system's random number source may not
 * be very good for direct application use with non-uniform entropy
 * distribution in the output.
 *
 * If the source is embedded in a chip then the user may have reason to
 * distrust the chip vendor.
 *
 * The PRNG will destroy any watermarks from the chip vendor and spread
 * out the entropy in the source before passing the data to the application.
 */

#include "tinyjambu-trng-select.h"

#ifdef __cplusplus
extern "C" {
#endif

/**
 * \brief Number of bytes to request from the system TRNG to seed a PRNG.
 */
#define TINYJAMBU_SYSTEM_SEED_SIZE 32

/**
 * \brief Generates a buffer of bytes from the system TRNG source.
 *
 * \param out Output buffer to be filled with random bytes.  Must be at
 * least TINYJAMBU_SYSTEM_SEED_SIZE bytes in length.
 *
 * \return Non-zero if the system random number source is working;
 * zero if there is no system random number source or it has failed.
 *
 * This function should try to generate high quality random data even
 * if it is a little slower.
 */
int tinyjambu_trng_generate(unsigned char *out);

#ifdef __cplusplus
}
#endif

#endif
