/*
 * Copyright (C) 2022 Southern Storm Software, Pty Ltd.
 *
 * Permission is hereby granted, free of charge, to any person obtaining a
 * copy of this software and associated documentation files (the "Software"),
 * to deal in the Software without restriction, including without limitation
 * the rights to use, copy, modify, merge, publish, distribute, sublicense,
 * and/or sell copies of the Software, and to permit persons to whom the
 * Software is furnished to do so, subject to the following conditions:
 *
 * The above copyright notice and this permission notice shall be included
 * in all copies or substantial portions of the Software.
 *
 * THE SOFTWARE IS PROVIDED "AS IS", WITHOUT WARRANTY OF ANY KIND, EXPRESS
 * OR IMPLIED, INCLUDING BUT NOT LIMITED TO THE WARRANTIES OF MERCHANTABILITY,
 * FITNESS FOR A PARTICULAR PURPOSE AND NONINFRINGEMENT. IN NO EVENT SHALL THE
 * AUTHORS OR COPYRIGHT HOLDERS BE LIABLE FOR ANY CLAIM, DAMAGES OR OTHER
 * LIABILITY, WHETHER IN AN ACTION OF CONTRACT, TORT OR OTHERWISE, ARISING
 * FROM, OUT OF OR IN CONNECTION WITH THE SOFTWARE OR THE USE OR OTHER
 * DEALINGS IN THE SOFTWARE.
 */

#ifndef TINYJAMBU_TRNG_SELECT_H
#define TINYJAMBU_TRNG_SELECT_H

#if defined(_WIN32) || defined(__WIN32__) || defined(_WIN64) || \
    defined(__CYGWIN__) || defined(__CYGWIN32__)

/* Use the Windows CryptGenRandom() function */
#define TINYJAMBU_TRNG_WINDOWS 1

#elif defined(__linux__) || defined(__APPLE__) || defined(__MACH__) || \
      defined(__FreeBSD__) || defined(__unix__) || defined(__ANDROID__) || \
      defined(__OpenBSD__)

/* Unix-like system with access to a /dev/urandom or /dev/random device */
#define TINYJAMBU_TRNG_DEV_RANDOM 1

#elif defined(USE_HAL_DRIVER)

/* STM32 platform with HAL libraries.  Detecting the TRNG is complicated. */
#include "tinyjambu-trng-stm32.h"

#elif defined(__arm__) && defined(__SAM3X8E__) && defined(ARDUINO)

/* TRNG on the Arduino Due */
#define TINYJAMBU_TRNG_DUE 1

#elif defined(ESP8266) || defined(ESP32)

/* TRNG on ESP8266 and ESP32 modules */
#define TINYJAMBU_TRNG_ESP 1

#else

/* No idea how to generate random numbers on this device yet */
#define TINYJAMBU_TRNG_NONE 1

#endif

#endif
