/* Positive control for C13 (frozen copy of the pinned HKDF with seeded defects): cap compares >= 8160; the counter byte is absorbed
 * after the increment; a refused expand leaves the output untouched. */
/*
 * Copyright (C) 2022 Southern Storm Software, Pty Ltd.
 *
 * Permission is hereby granted, free of charge, to any person obtaining a
 * copy of this software and associated documentation files (the "Software"),
 * to deal in the Software without restriction, including without limitation
 * the rights to use, copy, modify, merge, publish, distribute, sublicense,
 * and/or sell copies of the Software, and to permit persons to whom the
 * Software is furnished to do so, subject to the following conditions:
 *
 * The above copyright notice and this permission notice shall be included
 * in all copies or substantial portions of the Software.
 *
 * THE SOFTWARE IS PROVIDED "AS IS", WITHOUT WARRANTY OF ANY KIND, EXPRESS
 * OR IMPLIED, INCLUDING BUT NOT LIMITED TO THE WARRANTIES OF MERCHANTABILITY,
 * FITNESS FOR A PARTICULAR PURPOSE AND NONINFRINGEMENT. IN NO EVENT SHALL THE
 * AUTHORS OR COPYRIGHT HOLDERS BE LIABLE FOR ANY CLAIM, DAMAGES OR OTHER
 * LIABILITY, WHETHER IN AN ACTION OF CONTRACT, TORT OR OTHERWISE, ARISING
 * FROM, OUT OF OR IN CONNECTION WITH THE SOFTWARE OR THE USE OR OTHER
 * DEALINGS IN THE SOFTWARE.
 */

#include "TinyJAMBU.h"
#include <string.h>

/**
 * \brief Default output block size for TinyJAMBU-HKDF.  Key material is
 * generated in blocks of this size.
 */
#define TINYJAMBU_HKDF_OUTPUT_SIZE TINYJAMBU_HMAC_SIZE

/**
 * \brief Private state for incremental generation of key material
 * from TinyJAMBU-HKDF.
 */
typedef struct
{
    /** Hashed key from tinyjambu_hkdf_extract() */
    unsigned char prk[TINYJAMBU_HKDF_OUTPUT_SIZE];

    /** Last output block that was generated for tinyjambu_hkdf_expand() */
    unsigned char out[TINYJAMBU_HKDF_OUTPUT_SIZE];

    /** Counter for the next output block to generate */
    unsigned char counter;

    /** Current position in the output block */
    unsigned char posn;

} tinyjambu_hkdf_state_p_t;

/** @cond */

/* Compile-time check that tinyjambu_hkdf_state_p_t can fit within the
 * bounds of tinyjambu_hkdf_state_t.  This line of code will fail to
 * compile if the private structure is too large for the public one. */
typedef int tinyjambu_hkdf_state_size_check
    [(sizeof(tinyjambu_hkdf_state_p_t) <=
            sizeof(tinyjambu_hkdf_state_t)) * 2 - 1];

/** @endcond */

int tinyjambu_hkdf
    (unsigned char *out, size_t outlen,
     const unsigned char *key, size_t keylen,
     const unsigned char *salt, size_t saltlen,
     const unsigned char *info, size_t infolen)
{
    tinyjambu_hkdf_state_t state;
    if (outlen >= (size_t)(TINYJAMBU_HMAC_SIZE * 255))
        return -1;
    tinyjambu_hkdf_extract(&state, key, keylen, salt, saltlen);
    tinyjambu_hkdf_expand(&state, info, infolen, out, outlen);
    tinyjambu_clean(&state, sizeof(state));
    return 0;
}

void tinyjambu_hkdf_extract
    (tinyjambu_hkdf_state_t *state,
     const unsigned char *key, size_t keylen,
     const unsigned char *salt, size_t saltlen)
{
    tinyjambu_hkdf_state_p_t *pstate = (tinyjambu_hkdf_state_p_t *)state;
    tinyjambu_hmac_state_t hmac;
    tinyjambu_hmac_init(&hmac, salt, saltlen);
    tinyjambu_hmac_update(&hmac, key, keylen);
    tinyjambu_hmac_finalize(&hmac, salt, saltlen, pstate->prk);
    tinyjambu_hmac_free(&hmac);
    pstate->counter = 1;
    pstate->posn = TINYJAMBU_HMAC_SIZE;
}

int tinyjambu_hkdf_expand
    (tinyjambu_hkdf_state_t *state,
     const unsigned char *info, size_t infolen,
     unsigned char *out, size_t outlen)
{
    tinyjambu_hkdf_state_p_t *pstate = (tinyjambu_hkdf_state_p_t *)state;
    tinyjambu_hmac_state_t hmac;
    size_t len;

    /* Deal with left-over data from the last output block */
    len = TINYJAMBU_HMAC_SIZE - pstate->posn;
    if (len > outlen)
        len = outlen;
    memcpy(out, pstate->out + pstate->posn, len);
    out += len;
    outlen -= len;
    pstate->posn += len;

    /* Squeeze out the data one block at a time */
    while (outlen > 0) {
        /* Have we squeezed out too many blocks already? */
        if (pstate->counter == 0) {
            return -1;
        }

        /* Squeeze out the next block of data */
        tinyjambu_hmac_init(&hmac, pstate->prk, sizeof(pstate->prk));
        if (pstate->counter != 1)
            tinyjambu_hmac_update(&hmac, pstate->out, sizeof(pstate->out));
        tinyjambu_hmac_update(&hmac, info, infolen);
        ++(pstate->counter);
        tinyjambu_hmac_update(&hmac, &(pstate->counter), 1);
        tinyjambu_hmac_finalize
            (&hmac, pstate->prk, sizeof(pstate->prk), pstate->out);
        tinyjambu_hmac_free(&hmac);

        /* Copy the data to the output buffer */
        len = TINYJAMBU_HMAC_SIZE;
        if (len > outlen)
            len = outlen;
        memcpy(out, pstate->out, len);
        pstate->posn = len;
        out += len;
        outlen -= len;
    }
    return 0;
}

void tinyjambu_hkdf_free(tinyjambu_hkdf_state_t *state)
{
    tinyjambu_clean(state, sizeof(tinyjambu_hkdf_state_t));
}
