/* Positive control for C19: every construct here must be reported. */
#include <stdlib.h>
#include <string.h>

static unsigned fx_cached_key[4];          /* file-scope writable state */
__thread int fx_tls;                       /* thread-local state */
static const unsigned char *fx_saved;

void fx_scratch(unsigned char *out, const unsigned char *p, size_t n)
{
    static unsigned char buf[32];          /* function-local static scratch */
    unsigned char *h = malloc(n);          /* heap */
    memcpy(buf, p, n < 32 ? n : 32);
    memcpy(h, buf, n < 32 ? n : 32);
    fx_cached_key[0] ^= (unsigned)rand();  /* non-reentrant libc */
    fx_tls++;
    fx_saved = p;                          /* parameter pointer escapes */
    memcpy(out, h, n < 32 ? n : 32);
    free(h);
}
