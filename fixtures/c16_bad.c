/* Positive control for C16: check hoisted out of the loop, feed refills the budget,
 * limit clamp missing. */
#include "TinyJAMBU.h"
#include <string.h>
#include <stdint.h>
typedef struct {
    unsigned char V[32];
    unsigned char C[32];
    uint32_t reseed_counter;
    uint32_t reseed_limit;
    tinyjambu_prng_callback_t callback;
    void *user_data;
} tinyjambu_prng_state_p_t;

int tinyjambu_prng_reseed(tinyjambu_prng_state_t *state)
{
    tinyjambu_prng_state_p_t *pstate = (tinyjambu_prng_state_p_t *)state;
    int ok = (*(pstate->callback))(pstate->user_data, pstate->C, 32) == 32;
    pstate->reseed_counter = 1;
    return ok;
}

void tinyjambu_prng_generate(tinyjambu_prng_state_t *state, unsigned char *data, size_t size)
{
    tinyjambu_prng_state_p_t *pstate = (tinyjambu_prng_state_p_t *)state;
    unsigned char H[32];
    size_t len;
    if (pstate->reseed_counter > pstate->reseed_limit)   /* once per call */
        tinyjambu_prng_reseed(state);
    while (size > 0) {
        len = size < 32 ? size : 32;
        tinyjambu_hash(H, pstate->V, 32);
        memcpy(data, H, len);
        ++(pstate->reseed_counter);
        data += len;
        size -= len;
    }
}

void tinyjambu_prng_feed(tinyjambu_prng_state_t *state, const unsigned char *data, size_t size)
{
    tinyjambu_prng_state_p_t *pstate = (tinyjambu_prng_state_p_t *)state;
    (void)data; (void)size;
    pstate->reseed_counter = 1;                          /* refills the budget without entropy */
}

void tinyjambu_prng_set_reseed_limit(tinyjambu_prng_state_t *state, size_t limit)
{
    tinyjambu_prng_state_p_t *pstate = (tinyjambu_prng_state_p_t *)state;
    limit = (limit + 31) / 32;                           /* no 1 MiB clamp */
    if (!limit)
        limit = 1;
    pstate->reseed_limit = limit;
}
