/* Positive control for C08/C09 (frozen copy of the pinned 128-bit SIV with seeded defects):
 * second pass absorbs the plaintext word; nonce' takes 8 bytes of npub instead of 4+tag in decrypt. */
/*
 * Copyright (C) 2022 Southern Storm Software, Pty Ltd.
 *
 * Permission is hereby granted, free of charge, to any person obtaining a
 * copy of this software and associated documentation files (the "Software"),
 * to deal in the Software without restriction, including without limitation
 * the rights to use, copy, modify, merge, publish, distribute, sublicense,
 * and/or sell copies of the Software, and to permit persons to whom the
 * Software is furnished to do so, subject to the following conditions:
 *
 * The above copyright notice and this permission notice shall be included
 * in all copies or substantial portions of the Software.
 *
 * THE SOFTWARE IS PROVIDED "AS IS", WITHOUT WARRANTY OF ANY KIND, EXPRESS
 * OR IMPLIED, INCLUDING BUT NOT LIMITED TO THE WARRANTIES OF MERCHANTABILITY,
 * FITNESS FOR A PARTICULAR PURPOSE AND NONINFRINGEMENT. IN NO EVENT SHALL THE
 * AUTHORS OR COPYRIGHT HOLDERS BE LIABLE FOR ANY CLAIM, DAMAGES OR OTHER
 * LIABILITY, WHETHER IN AN ACTION OF CONTRACT, TORT OR OTHERWISE, ARISING
 * FROM, OUT OF OR IN CONNECTION WITH THE SOFTWARE OR THE USE OR OTHER
 * DEALINGS IN THE SOFTWARE.
 */

#include "TinyJAMBU.h"
#include "backend/tinyjambu-aead-common.h"
#include <string.h>

/*
 * Specification of TinyJAMBU-SIV mode:
 *
 * The algorithm performs two passes over the data.  In the first pass
 * the associated data and plaintext are authenticated to produce a
 * 64-bit authentication tag.
 *
 * The first pass is identical in structure to the regular AEAD mode,
 * except that the domain separator when absorbing the nonce is 0x90
 * instead of 0x10.  The ciphertext is discarded.
 *
 * In the second pass, a new nonce is formed from the first 32 bits of
 * the original nonce and the 64 bits of the authentication tag.
 * The original nonce is assumed to be a packet sequence number or a
 * memory address in little-endian byte order.
 *
 * The second pass absorbs the nonce using the domain separator of
 * 0xB0 this time.  And then encrypts the plaintext in a similar
 * manner to the regular AEAD mode.  In this pass, the plaintext is
 * not incorporated into the state to authenticate it.
 *
 * The domain separator for encryption in the second pass is 0xD0
 * instead of 0x50 for the first pass.
 */

void tinyjambu_128_siv_encrypt
    (unsigned char *c, size_t *clen,
     const unsigned char *m, size_t mlen,
     const unsigned char *ad, size_t adlen,
     const unsigned char *npub,
     const unsigned char *k)
{
    tinyjambu_128_state_t state;
    unsigned char nonce[TINYJAMBU_NONCE_SIZE];
    uint32_t data;

    /* Set the length of the returned ciphertext */
    *clen = mlen + TINYJAMBU_TAG_SIZE;

    /* Unpack the key and invert it for later */
    state.k[0] = tinyjambu_key_load_even(k);
    state.k[1] = tinyjambu_key_load_odd(k + 4);
    state.k[2] = tinyjambu_key_load_even(k + 8);
    state.k[3] = tinyjambu_key_load_odd(k + 12);

    /* Set up the TinyJAMBU state with the key, nonce, and associated data */
    tinyjambu_setup_128(&state, npub, 0x90);
    tinyjambu_absorb_128(&state, ad, adlen, 0x30, TINYJAMBU_ROUNDS(640));

    /* Authenticate the plaintext but do not encrypt it */
    tinyjambu_absorb_128(&state, m, mlen, 0x50, TINYJAMBU_ROUNDS(1024));

    /* Generate the authentication tag */
    tinyjambu_generate_tag_128(&state, c + mlen);

    /* Re-initialize the state with a new nonce based on the tag */
    memcpy(nonce, npub, 4);
    memcpy(nonce + 4, c + mlen, 8);
    tinyjambu_setup_128(&state, nonce, 0xB0);

    /* Encrypt the plaintext to produce the ciphertext */
    while (mlen >= 4) {
        tinyjambu_add_domain(&state, 0xD0); /* Domain sep for message data */
        tinyjambu_permutation_128(&state, TINYJAMBU_ROUNDS(1024));
        data = le_load_word32(m);
        tinyjambu_absorb(&state, data);
        data ^= tinyjambu_squeeze(&state);
        le_store_word32(c, data);
        c += 4;
        m += 4;
        mlen -= 4;
    }
    if (mlen == 1) {
        tinyjambu_add_domain(&state, 0xD0);
        tinyjambu_permutation_128(&state, TINYJAMBU_ROUNDS(1024));
        data = m[0];
        c[0] = (uint8_t)(tinyjambu_squeeze(&state) ^ data);
    } else if (mlen == 2) {
        tinyjambu_add_domain(&state, 0xD0);
        tinyjambu_permutation_128(&state, TINYJAMBU_ROUNDS(1024));
        data = le_load_word16(m);
        data ^= tinyjambu_squeeze(&state);
        c[0] = (uint8_t)data;
        c[1] = (uint8_t)(data >> 8);
    } else if (mlen == 3) {
        tinyjambu_add_domain(&state, 0xD0);
        tinyjambu_permutation_128(&state, TINYJAMBU_ROUNDS(1024));
        data = le_load_word16(m) | (((uint32_t)(m[2])) << 16);
        data ^= tinyjambu_squeeze(&state);
        c[0] = (uint8_t)data;
        c[1] = (uint8_t)(data >> 8);
        c[2] = (uint8_t)(data >> 16);
    }
}

int tinyjambu_128_siv_decrypt
    (unsigned char *m, size_t *mlen,
     const unsigned char *c, size_t clen,
     const unsigned char *ad, size_t adlen,
     const unsigned char *npub,
     const unsigned char *k)
{
    unsigned char *mtemp = m;
    tinyjambu_128_state_t state;
    unsigned char nonce[TINYJAMBU_NONCE_SIZE];
    size_t m2len;
    uint32_t data;

    /* Validate the ciphertext length and set the return "mlen" value */
    if (clen < TINYJAMBU_TAG_SIZE)
        return -1;
    *mlen = clen - TINYJAMBU_TAG_SIZE;

    /* Unpack the key and invert it for later */
    state.k[0] = tinyjambu_key_load_even(k);
    state.k[1] = tinyjambu_key_load_odd(k + 4);
    state.k[2] = tinyjambu_key_load_even(k + 8);
    state.k[3] = tinyjambu_key_load_odd(k + 12);

    /* Set up the TinyJAMBU state with the key, nonce, and authentication tag
     * to decrypt the ciphertext to produce the plaintext */
    m2len = *mlen;
    memcpy(nonce, npub, 8);
    memcpy(nonce + 8, c + m2len, 4);
    tinyjambu_setup_128(&state, nonce, 0xB0);

    /* Decrypt the ciphertext to produce the plaintext */
    clen = m2len;
    while (clen >= 4) {
        tinyjambu_add_domain(&state, 0xD0); /* Domain sep for message data */
        tinyjambu_permutation_128(&state, TINYJAMBU_ROUNDS(1024));
        data = le_load_word32(c) ^ tinyjambu_squeeze(&state);
        le_store_word32(m, data);
        c += 4;
        m += 4;
        clen -= 4;
    }
    if (clen == 1) {
        tinyjambu_add_domain(&state, 0xD0);
        tinyjambu_permutation_128(&state, TINYJAMBU_ROUNDS(1024));
        data = (c[0] ^ tinyjambu_squeeze(&state)) & 0xFFU;
        m[0] = (uint8_t)data;
        ++c;
    } else if (clen == 2) {
        tinyjambu_add_domain(&state, 0xD0);
        tinyjambu_permutation_128(&state, TINYJAMBU_ROUNDS(1024));
        data = (le_load_word16(c) ^ tinyjambu_squeeze(&state)) & 0xFFFFU;
        m[0] = (uint8_t)data;
        m[1] = (uint8_t)(data >> 8);
        c += 2;
    } else if (clen == 3) {
        tinyjambu_add_domain(&state, 0xD0);
        tinyjambu_permutation_128(&state, TINYJAMBU_ROUNDS(1024));
        data = le_load_word16(c) | (((uint32_t)(c[2])) << 16);
        data = (data ^ tinyjambu_squeeze(&state)) & 0xFFFFFFU;
        m[0] = (uint8_t)data;
        m[1] = (uint8_t)(data >> 8);
        m[2] = (uint8_t)(data >> 16);
        c += 3;
    }

    /* Set up the TinyJAMBU state with the key, nonce, and associated data
     * to perform the authentication pass over the plaintext */
    tinyjambu_setup_128(&state, npub, 0x90);
    tinyjambu_absorb_128(&state, ad, adlen, 0x30, TINYJAMBU_ROUNDS(640));

    /* Authenticate the plaintext */
    tinyjambu_absorb_128(&state, mtemp, m2len, 0x50, TINYJAMBU_ROUNDS(1024));

    /* Check the authentication tag */
    tinyjambu_generate_tag_128(&state, nonce);
    return tinyjambu_aead_check_tag(mtemp, m2len, nonce, c, TINYJAMBU_TAG_SIZE);
}
