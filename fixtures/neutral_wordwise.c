/* Negative control: CORRECT word-at-a-time versions of tinyjambu_clean (volatile fallback) and of the
 * check_tag wipe.  D-COV must prove exact coverage for these (a false alarm here is a checker bug). */
#include <stddef.h>
#include <stdint.h>
void tinyjambu_clean(void *buf, unsigned size)
{
    typedef size_t clean_word_t;
    volatile unsigned char *d = (volatile unsigned char *)buf;
    volatile clean_word_t *w;
    unsigned head = (unsigned)((0 - (uintptr_t)buf) & (sizeof(clean_word_t) - 1));
    unsigned tail;
    if (head > size)
        head = size;
    size -= head;
    tail = size & (sizeof(clean_word_t) - 1);
    while (head > 0) { *d++ = 0; --head; }
    w = (volatile clean_word_t *)d;
    while (size >= sizeof(clean_word_t)) { *w++ = 0; size -= sizeof(clean_word_t); }
    d = (volatile unsigned char *)w;
    while (tail > 0) { *d++ = 0; --tail; }
}
int tinyjambu_aead_check_tag(unsigned char *plaintext, size_t plaintext_len,
     const unsigned char *tag1, const unsigned char *tag2, size_t size)
{
    uint32_t *words; uint32_t mask; size_t head, count, tail;
    int accum = 0;
    while (size > 0) { accum |= (*tag1++ ^ *tag2++); --size; }
    accum = (accum - 1) >> 8;
    mask = (uint32_t)accum;
    head = ((size_t)0 - (size_t)(uintptr_t)plaintext) & 3U;
    if (head > plaintext_len) head = plaintext_len;
    count = (plaintext_len - head) >> 2;
    tail = (plaintext_len - head) & 3U;
    while (head > 0) { *plaintext++ &= accum; --head; }
    words = (uint32_t *)plaintext;
    while (count > 0) { *words++ &= mask; --count; }
    plaintext = (unsigned char *)words;
    while (tail > 0) { *plaintext++ &= accum; --tail; }
    return ~accum;
}
