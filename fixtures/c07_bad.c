/* Positive controls for C07 (function names reuse classified API names so the secret table applies). */
#include <stddef.h>
#include <string.h>
#include <stdint.h>
typedef struct { uint32_t s[4]; uint32_t k[4]; } tinyjambu_128_state_t;
typedef struct { struct { uint32_t s[4]; uint32_t k[8]; } state; unsigned posn; } tinyjambu_hash_state_p_t;
typedef union { unsigned char b[56]; unsigned long long t; } tinyjambu_hash_state_t;
static const unsigned char sbox[256] = {1, 2, 3};

int tinyjambu_aead_check_tag(unsigned char *plaintext, size_t plaintext_len,
                             const unsigned char *tag1, const unsigned char *tag2, size_t size)
{
    (void)plaintext; (void)plaintext_len;
    return memcmp(tag1, tag2, size) == 0 ? 0 : -1;          /* library comparison on the computed tag */
}

void tinyjambu_permutation_128(tinyjambu_128_state_t *state, unsigned rounds)
{
    while (rounds-- > 0)
        state->s[0] ^= sbox[state->s[1] & 0xFF];            /* table lookup indexed by a state byte */
}

void tinyjambu_hash_update(tinyjambu_hash_state_t *state, const unsigned char *in, size_t inlen)
{
    tinyjambu_hash_state_p_t *p = (tinyjambu_hash_state_p_t *)state;
    while (inlen-- > 0) {
        if (*in & 1)                                          /* branch on a message bit */
            p->state.s[0] ^= *in;
        ++in;
    }
}

void tinyjambu_clean(void *buf, unsigned size)
{
    unsigned char *b = buf;
    if (size)
        b[0] = (unsigned char)(size / (b[0] | 1u));          /* division by a secret byte */
}
