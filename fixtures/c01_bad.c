/* Positive control for C01/C02 (frozen copy of the pinned 128-bit AEAD with seeded defects):
 * decrypt 1-byte tail mask drops bit 7; encrypt forgets to advance m; encrypt writes the tag at c + mlen + 4;
 * message blocks use 9 rounds. */
/*
 * Copyright (C) 2022 Southern Storm Software, Pty Ltd.
 *
 * Permission is hereby granted, free of charge, to any person obtaining a
 * copy of this software and associated documentation files (the "Software"),
 * to deal in the Software without restriction, including without limitation
 * the rights to use, copy, modify, merge, publish, distribute, sublicense,
 * and/or sell copies of the Software, and to permit persons to whom the
 * Software is furnished to do so, subject to the following conditions:
 *
 * The above copyright notice and this permission notice shall be included
 * in all copies or substantial portions of the Software.
 *
 * THE SOFTWARE IS PROVIDED "AS IS", WITHOUT WARRANTY OF ANY KIND, EXPRESS
 * OR IMPLIED, INCLUDING BUT NOT LIMITED TO THE WARRANTIES OF MERCHANTABILITY,
 * FITNESS FOR A PARTICULAR PURPOSE AND NONINFRINGEMENT. IN NO EVENT SHALL THE
 * AUTHORS OR COPYRIGHT HOLDERS BE LIABLE FOR ANY CLAIM, DAMAGES OR OTHER
 * LIABILITY, WHETHER IN AN ACTION OF CONTRACT, TORT OR OTHERWISE, ARISING
 * FROM, OUT OF OR IN CONNECTION WITH THE SOFTWARE OR THE USE OR OTHER
 * DEALINGS IN THE SOFTWARE.
 */

#include "TinyJAMBU.h"
#include "backend/tinyjambu-aead-common.h"

void tinyjambu_128_aead_encrypt
    (unsigned char *c, size_t *clen,
     const unsigned char *m, size_t mlen,
     const unsigned char *ad, size_t adlen,
     const unsigned char *npub,
     const unsigned char *k)
{
    tinyjambu_128_state_t state;
    uint32_t data;

    /* Set the length of the returned ciphertext */
    *clen = mlen + TINYJAMBU_TAG_SIZE;

    /* Unpack the key and invert it for later */
    state.k[0] = tinyjambu_key_load_even(k);
    state.k[1] = tinyjambu_key_load_odd(k + 4);
    state.k[2] = tinyjambu_key_load_even(k + 8);
    state.k[3] = tinyjambu_key_load_odd(k + 12);

    /* Set up the TinyJAMBU state with the key, nonce, and associated data */
    tinyjambu_setup_128(&state, npub, 0x10);
    tinyjambu_absorb_128(&state, ad, adlen, 0x30, TINYJAMBU_ROUNDS(640));

    /* Encrypt the plaintext to produce the ciphertext */
    while (mlen >= 4) {
        tinyjambu_add_domain(&state, 0x50); /* Domain sep for message data */
        tinyjambu_permutation_128(&state, TINYJAMBU_ROUNDS(1024));
        data = le_load_word32(m);
        tinyjambu_absorb(&state, data);
        data ^= tinyjambu_squeeze(&state);
        le_store_word32(c, data);
        c += 4;
        mlen -= 4;
    }
    if (mlen == 1) {
        tinyjambu_add_domain(&state, 0x50);
        tinyjambu_permutation_128(&state, TINYJAMBU_ROUNDS(1024));
        data = m[0];
        tinyjambu_absorb(&state, data);
        tinyjambu_add_domain(&state, 0x01);
        c[0] = (uint8_t)(tinyjambu_squeeze(&state) ^ data);
    } else if (mlen == 2) {
        tinyjambu_add_domain(&state, 0x50);
        tinyjambu_permutation_128(&state, TINYJAMBU_ROUNDS(1024));
        data = le_load_word16(m);
        tinyjambu_absorb(&state, data);
        tinyjambu_add_domain(&state, 0x02);
        data ^= tinyjambu_squeeze(&state);
        c[0] = (uint8_t)data;
        c[1] = (uint8_t)(data >> 8);
    } else if (mlen == 3) {
        tinyjambu_add_domain(&state, 0x50);
        tinyjambu_permutation_128(&state, TINYJAMBU_ROUNDS(1024));
        data = le_load_word16(m) | (((uint32_t)(m[2])) << 16);
        tinyjambu_absorb(&state, data);
        tinyjambu_add_domain(&state, 0x03);
        data ^= tinyjambu_squeeze(&state);
        c[0] = (uint8_t)data;
        c[1] = (uint8_t)(data >> 8);
        c[2] = (uint8_t)(data >> 16);
    }

    /* Generate the authentication tag */
    tinyjambu_generate_tag_128(&state, c + mlen + 4);
}

int tinyjambu_128_aead_decrypt
    (unsigned char *m, size_t *mlen,
     const unsigned char *c, size_t clen,
     const unsigned char *ad, size_t adlen,
     const unsigned char *npub,
     const unsigned char *k)
{
    unsigned char *mtemp = m;
    tinyjambu_128_state_t state;
    unsigned char tag[TINYJAMBU_TAG_SIZE];
    uint32_t data;

    /* Validate the ciphertext length and set the return "mlen" value */
    if (clen < TINYJAMBU_TAG_SIZE)
        return -1;
    *mlen = clen - TINYJAMBU_TAG_SIZE;

    /* Unpack the key and invert it for later */
    state.k[0] = tinyjambu_key_load_even(k);
    state.k[1] = tinyjambu_key_load_odd(k + 4);
    state.k[2] = tinyjambu_key_load_even(k + 8);
    state.k[3] = tinyjambu_key_load_odd(k + 12);

    /* Set up the TinyJAMBU state with the key, nonce, and associated data */
    tinyjambu_setup_128(&state, npub, 0x10);
    tinyjambu_absorb_128(&state, ad, adlen, 0x30, TINYJAMBU_ROUNDS(640));

    /* Decrypt the ciphertext to produce the plaintext */
    clen -= TINYJAMBU_TAG_SIZE;
    while (clen >= 4) {
        tinyjambu_add_domain(&state, 0x50); /* Domain sep for message data */
        tinyjambu_permutation_128(&state, TINYJAMBU_ROUNDS(1024));
        data = le_load_word32(c) ^ tinyjambu_squeeze(&state);
        tinyjambu_absorb(&state, data);
        le_store_word32(m, data);
        c += 4;
        m += 4;
        clen -= 4;
    }
    if (clen == 1) {
        tinyjambu_add_domain(&state, 0x50);
        tinyjambu_permutation_128(&state, TINYJAMBU_ROUNDS(1024));
        data = (c[0] ^ tinyjambu_squeeze(&state)) & 0x7FU;
        tinyjambu_absorb(&state, data);
        tinyjambu_add_domain(&state, 0x01);
        m[0] = (uint8_t)data;
        ++c;
    } else if (clen == 2) {
        tinyjambu_add_domain(&state, 0x50);
        tinyjambu_permutation_128(&state, TINYJAMBU_ROUNDS(1024));
        data = (le_load_word16(c) ^ tinyjambu_squeeze(&state)) & 0xFFFFU;
        tinyjambu_absorb(&state, data);
        tinyjambu_add_domain(&state, 0x02);
        m[0] = (uint8_t)data;
        m[1] = (uint8_t)(data >> 8);
        c += 2;
    } else if (clen == 3) {
        tinyjambu_add_domain(&state, 0x50);
        tinyjambu_permutation_128(&state, TINYJAMBU_ROUNDS(1024));
        data = le_load_word16(c) | (((uint32_t)(c[2])) << 16);
        data = (data ^ tinyjambu_squeeze(&state)) & 0xFFFFFFU;
        tinyjambu_absorb(&state, data);
        tinyjambu_add_domain(&state, 0x03);
        m[0] = (uint8_t)data;
        m[1] = (uint8_t)(data >> 8);
        m[2] = (uint8_t)(data >> 16);
        c += 3;
    }

    /* Check the authentication tag */
    tinyjambu_generate_tag_128(&state, tag);
    return tinyjambu_aead_check_tag(mtemp, *mlen, tag, c, TINYJAMBU_TAG_SIZE);
}
