#!/bin/sh
# Builds the fact extractor from files on disk only (offline).
set -e
cd "$(dirname "$0")"
mkdir -p bin evidence/reports
if [ ! -x bin/tjfacts ] || [ tools/tjfacts.cc -nt bin/tjfacts ]; then
  clang++ $(llvm-config-14 --cxxflags) -fno-rtti -O1 -w tools/tjfacts.cc -o bin/tjfacts.tmp /usr/lib/llvm-14/lib/libLLVM-14.so
  mv bin/tjfacts.tmp bin/tjfacts
fi
echo "setup ok"
