"""Data for MANIFEST.json (see tools/mkmanifest.py)."""
HOOK_COMMITS = []
NOTES = ("One technique family throughout: static analysis of /repo's current working tree (clang-14 LLVM IR in a source-shaped normal form "
         "and at -O3, preprocessed assembly text). Nothing in a registered check executes library code, tests, fuzzers, model checkers or solvers. "
         "Exit 0 = all obligations discharged; exit 1 + VIOLATION = an obligation refuted by a named construct; exit 2 + ANALYSIS-BROKEN = the analyser "
         "cannot follow the code (vanished anchor, floor not met, unknown idiom). See DESIGN.md.")

CHECKS = {
    "C19": {
        "text": "Structural = the property: every global definition in every buildable configuration (host, 3 other Unix entropy variants, TRNG-none, volatile-clean; "
                "N0 and -O3 IR) is constant and non-TLS, every external call is in a per-configuration allow-list of stateless imports (no heap, no VLA), no parameter pointer "
                "is stored outside the frame except the documented callback retention, and the 27 assembly programs define no writable section. With these, a call's effect is "
                "confined to its arguments and frame, so calls on disjoint objects commute under every schedule.",
        "note": "Trusted: clang 14 front end; allow-listed libc functions are thread-safe and errno is per-thread. gcc builds are covered at symbol level only (thorough tier). "
                "Windows/Arduino/ESP/STM32 TRNG files are not buildable here and not covered.",
        "technique": "module-level effect/ownership census over LLVM IR (globals, imports, pointer escapes) + assembly section scan",
    },
}

_NB = "not built yet in this session (design exists in DESIGN.md; claimed only once its check fires on broken variants and is silent on the unchanged tree)"
NOT_APPLICABLE = {p: _NB for p in ["C01", "C02", "C03", "C04", "C05", "C06", "C07", "C08", "C09", "C10", "C11", "C12", "C13", "C14", "C15", "C16", "C17", "C18", "C20"]}
