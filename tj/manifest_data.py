"""Data for MANIFEST.json (see tools/mkmanifest.py)."""
HOOK_COMMITS = []
NOTES = ("One technique family throughout: static analysis of /repo's current working tree (clang-14 LLVM IR in a source-shaped normal form "
         "and at -O3, preprocessed assembly text). Nothing in a registered check executes library code, tests, fuzzers, model checkers or solvers. "
         "Exit 0 = all obligations discharged; exit 1 + VIOLATION = an obligation refuted by a named construct; exit 2 + ANALYSIS-BROKEN = the analyser "
         "cannot follow the code (vanished anchor, floor not met, unknown idiom). See DESIGN.md.")

CHECKS = {
    "C19": {
        "text": "Structural = the property: every global definition in every buildable configuration (host, 3 other Unix entropy variants, TRNG-none, volatile-clean; "
                "N0 and -O3 IR) is constant and non-TLS, every external call is in a per-configuration allow-list of stateless imports (no heap, no VLA), no parameter pointer "
                "is stored outside the frame except the documented callback retention (a file-local helper's stores count as its callers': accepted when no call site is left after inlining or every call site hands on a parameter whose retention is documented), and the 27 assembly programs define no writable section. With these, a call's effect is "
                "confined to its arguments and frame, so calls on disjoint objects commute under every schedule. R-C19-FRESH: the PRNG initialisers leave no byte of the caller's object that they later hash to its previous content (the other carrier of 'depends on earlier unrelated calls'); listed as not decided when the seeding summary does not follow the code. R-C19-FRESH: the buffer handed to the entropy source is defined before the request in the initialisers and in reseed (a short delivery must not leave residue of the caller's object or of the stack in what is hashed).",
        "note": "Trusted: clang 14 front end; allow-listed libc functions are thread-safe and errno is per-thread. gcc builds are covered at symbol level only (thorough tier). "
                "Windows/Arduino/ESP/STM32 TRNG files are not buildable here and not covered.",
        "technique": "module-level effect/ownership census over LLVM IR (globals, imports, pointer escapes) + assembly section scan",
    },
    "C20": {
        "text": "Must-pass-through + value rules on the IR of the four free functions (N0 and -O3): on every path with a non-null state a wipe primitive is applied to the "
                "parameter itself and the union of wiped byte ranges equals [0, sizeof(public type)) taken from DWARF; nothing writes the state after the wipe. tinyjambu_clean: "
                "host configuration forwards (buf, size) unchanged to explicit_bzero on every path; the volatile fallback (built by shadowing config.h) is one loop whose SCEV "
                "trip count is `size` with one unconditional volatile i8 0 store at {buf,+,1}; at -O3 the call / the volatile stores are still there. Calls of tinyjambu_clean use the function type it is defined with (a size parameter of another width is read from a register half nobody wrote).",
        "note": "Trusted: explicit_bzero's contract; C's rule that volatile accesses are not added or removed. memset_s / SecureZeroMemory variants cannot be built here and are not covered. "
                "gcc only via a relocation cross-check (thorough).",
        "technique": "CFG must-pass-through and argument-provenance rules over LLVM IR + SCEV trip count, in two configurations and two optimisation levels",
    },
    "C17": {
        "text": "(1) Contradiction rule over every indirect call of the module: a call through a value that the function null-tests must be unreachable from the null edge "
                "(this found the pinned defect at prng.c:161, repaired by the fix: commit). (2) Finite-class abstract execution (D-FIN): the callback's return size is partitioned by the "
                "constants it is compared with; init_user/reseed return 1 exactly for the class {32}; the request is for 32 bytes into a 32-byte field. (3) Under callback == NULL the first "
                "request resolves (field values tracked along the path) to the function plain init passes. (4) Must-pass rules: on every path after the request, whatever it returned, V and C "
                "are re-derived by hashes that absorbed the callback's buffer, counters are set, the stored callback is never NULL; with a caller-supplied callback its user data is stored on every path (no return reachable, null edges pruned, that avoids the store), and reseed makes its request through the stored callback with the stored user data. Where the buffer is absorbed through a local staging copy the call-shape rule defers to the byte-provenance rule (delivered-bytes-*). One entropy request per path in init_user and reseed (two requests on one path: the status and the bytes mixed in are not those of one delivery).",
        "note": "Decides the control/data-flow shape that makes the statement true for every delivery pattern; does not compute hash values. Entropy quality is outside the property.",
        "technique": "null-check contradiction rule + finite-class abstract execution over the CFG + must-pass-through dominance rules",
    },
    "C18": {
        "text": "Finite-class abstract execution of tinyjambu_trng_generate in four build variants (getrandom, getentropy, raw SYS_getrandom, /dev/urandom; the latter three built by "
                "shadowing config.h): the OS call's return value and errno are partitioned into {<0,>=0 / short / full} x {EINTR, EAGAIN, other}; from the call the CFG is followed per class. "
                "Transient classes lead back to the same call with loop-invariant arguments and no effect; permanent classes return 0 after memset(out,0,32) without a back edge; "
                "success returns 1 with the buffer untouched; every path from a successful open() passes close(fd). Any finite fault sequence is a word over these classes, so the per-class "
                "obligations cover all sequences. C17's status rules are re-run on every variant for the 'not seeded but usable' clause. The errno classes are EINTR, EAGAIN, representative permanent values and every constant the code itself compares errno with (each must be permanent unless it is EINTR / EAGAIN).",
        "note": "Assumes the kernel contract (no short getrandom for 32 bytes). Windows/Arduino/ESP/STM32 TRNG files need vendor headers absent here: not covered.",
        "technique": "finite-class abstract execution (D-FIN) over the CFG of each configuration variant",
    },
    "C16": {
        "text": "Premises of a stated inductive invariant (emitted bytes since last request <= 32*(counter-1); emission only when counter <= limit; limit in [1,32768]) discharged over ALL "
                "writes of the two budget fields in the linked module (census of stores, mem intrinsics, wipes and callee outputs in every function that takes the PRNG state) and over every "
                "emission site of generate: per-iteration guard loaded from the state inside the loop, reseed on the exceeding edge, <= 32 bytes and one counter increment per emission; "
                "interval image of the limit clamp over the partition of its parameter (a proof when it lies within [1, 32768]; an interval that sticks out is an over-approximation and no witness: not decided) plus exact evaluation at the boundary representatives, the compared constants and the wrap points of the arithmetic (the refuter). A call of the documented setter on the state counts as a write of the limit (in init_user with the constant 1024). The automatic reseed is known as a call of tinyjambu_prng_reseed; an entropy request made by generate itself is not recognised (exit 2).",
        "note": "The induction itself is the argument in DESIGN.md; the checker discharges its premises. 2^32 counter wrap is assumed away.",
        "technique": "whole-module write census + dominance/must-pass rules + interval abstract interpretation of the clamp",
    },
    "C07": {
        "text": "Sound dependency (taint-label) analysis of the whole linked library, on the source-shaped IR and on the project's own -O3 IR: sources are the pointees of every parameter the "
                "API documents as secret (keys, plaintext, passwords, hash input, hash/HMAC/HKDF/PRNG state fields by DWARF offset, entropy written by the callback / OS); sinks are every branch, "
                "switch and select condition, every load/store/mem-intrinsic address and length, division operands, variable shift amounts, indirect-call targets and arguments of foreign calls. "
                "Memory is byte-granular per object with weak updates; calls are joined context-insensitively (over-approximation). A sink whose label set contains a secret label is reported with "
                "the def-use chain back to the source parameter. Every external function must be classified in the secret/public table or the check is BROKEN.",
        "note": "IR-level: assumes the x86 backend does not turn data operations into branches and that instruction timing is data-independent; gcc not analysed; pointer parameters assumed "
                "non-overlapping (except c == m); a variable index is assumed to stay inside its array field (C06). The 27 assembly programs are covered by R-C07-ASM (branches only on the round "
                "counter, addresses base + constant) using C05's symbolic machine.",
        "technique": "interprocedural taint/dependency dataflow over LLVM IR (N0 and -O3), byte-granular field-sensitive memory",
    },
    "C03": {
        "text": "Rule families over the three AEAD decrypt functions, check_tag and the helpers they share with SIV (the SIV decrypt functions are C08's, which re-runs these rules on them): (GUARD) finite-class execution on clen: 0..7 return negative before any load/store/call; (MUST) for every class >= 8 "
                "every path returns exactly the value of the single check_tag call; (ARGS) size = 8, tag1 = the 8-byte local filled by generate_tag on every path, tag2 = c + clen - 8 proven by affine "
                "cursor/length lock-step (SCEV recurrences + residue reasoning for the 1/2/3-byte tails); (CMP) in check_tag the compare loop's SCEV coverage is [0,size) for both tags, the accumulator "
                "update equals accum | (tag1[i]^tag2[i]) at bit granularity, its range is [0,255] by a known-bits fixpoint, and the fold is evaluated exhaustively on all 256 values: 0 -> 0, rest -> -1. "
                "(SENS) every ciphertext bit of a segment reaches the recovered plaintext bit and the authenticated state; (ABSORB) the shared absorb function leaves a state that is an injective "
                "function of the bytes of every segment (rank of the GF(2)-linear map the bytes enter by; otherwise a concrete pair of inputs absorbed alike is the refutation) - the premise of "
                "'modified associated data is rejected'; (KEY) the key words are an injective function of the key bytes in every decrypt function and every nonce bit enters the state in every "
                "path class of the shared setup function - premises of 'a modified key or nonce is rejected'; (DUAL) decrypt recomputes exactly the tag encrypt computes - the relational rules of C01 and C08 re-run as a premise (a deviation in decrypt alone rejects genuine packets).",
        "note": "Decides that the verdict is 0 exactly when all 64 bits of the computed and received tag agree, for every path; that the computed tag depends on every input bit is a property of the "
                "cipher (structure under C02), and the 2^-64 bound is not a code property. N0 (source-shaped) IR of clang 14 only.",
        "technique": "finite-class abstract execution + affine cursor/length analysis (SCEV) + bit-provenance and known-bits abstract interpretation",
    },
    "C04": {
        "text": "check_tag's wipe loop: SCEV trip count = plaintext_len, one unconditional byte store at {plaintext,+,1} of p[i] & mask, with mask = 0xFF for accumulator 0 and 0x00 for each of the 255 "
                "other accumulator values (exhaustive), the same accumulator the verdict is folded from. All six AEAD/SIV decrypt call sites pass the entry value of m and clen - 8 (affine equality, "
                "through the *mlen reload), and for every clen class >= 8 every path leaves through that call. A mask with clear upper bits or a truncation applied to a value computed from plaintext_len, or a length that reaches check_tag through a narrower integer, is refuted (the wipe would cover length mod 2^k bytes).",
        "note": "That an accepted buffer holds exactly the plaintext is C01/C08. Distinct pointer parameters assumed non-overlapping except c == m.",
        "technique": "SCEV loop-coverage + bit-provenance of the stored value + affine argument equality + must-pass-through",
    },
    "C05": {
        "text": "Each of the 27 assembly programs (8 ISAs x 3 key sizes, Xtensa under both ABIs; preprocessed under exactly the macro set tinyjambu-backend-select.h requires) is parsed by a "
                "per-ISA front end and followed by a symbolic machine in the bit-provenance (GF(2) term) domain with fresh symbols for the four state words, the key words and the round counter: "
                "no loop is unrolled, every conditional branch forks, a path ends at a return or the back edge. At every exit after j rounds and at the back edge the state registers / stored words "
                "equal, bit for bit, the bit-serial specification applied 128*j times (STEP); the counter is decremented and tested against zero after every round and the loop body realigns the key "
                "schedule (SCHED), key/base/stack registers are loop-invariant and nothing else is live into the loop - so the per-iteration result extends to every round count >= 1. On the same "
                "paths: stores only to the four state words or the own frame, loads inside the structure (EFFECT); stack, return address and every written callee-saved register restored (ABI, both "
                "Xtensa ABIs). SELECT: every target macro set selects one backend macro and exactly one unit defines each entry point. WELLFORMED: 7 of 8 ISAs assemble with LLVM-14 and the "
                "instruction counts agree with the parse. The three C backends get the same STEP/SCHED/EFFECT treatment on their N0 IR. No access to the state claims more than the 8-byte alignment its type guarantees. The C backends touch no writable global (no hidden state: a cached result makes the permutation depend on earlier calls).",
        "note": "NOT decided: the clause 'generated files are byte-identical to the generators' output' (needs running tools/gen*; no AVR generator is bundled) - declined as not static. ISA "
                "semantics and ABI tables are trusted as transcribed in tj/asmx.py; Xtensa has no assembler here (text only). rounds == 0 is outside the property.",
        "technique": "abstract interpretation of assembly / IR in a GF(2) bit-provenance term domain, one symbolic loop iteration + structural induction premises; effect and ABI pairing rules",
        "category": "translation_validation",
    },
    "C01": {
        "text": "Premises of the block-wise round-trip induction, discharged RELATIONALLY (encrypt vs decrypt of the same key size; nothing is compared with the TinyJAMBU specification here - that is "
                "C02) on symbolic path summaries in the GF(2) term domain (permutation and helpers uninterpreted, fresh symbols at the loop head, no unrolling), for every path class (prefix, generic "
                "loop iteration, residues 0..3, refusal): both directions unpack the key to the same words and make the same setup/absorb calls; per class they run the same permutation call on the "
                "same input state; substituting encrypt's output-byte terms for decrypt's input bytes, decrypt's output equals the plaintext bit for bit and its state equals encrypt's (a 0x7F mask, "
                "a sign extension, a one-sided constant is refuted); the only length store is mlen+8 / clen-8; cursors and remaining length (or one index over full words plus the left-over count) advance in lock-step through one or several "
                "data loops, the tag sits right after the data and survives, every input byte is loaded before the same output offset is stored; decrypt returns check_tag's verdict on the tag just generated."
                " Structure is recognised first (pointer-walking or index-based loops, bulk loops, merged tails); an unrecognised shape ends in exit 2, never in a verdict. Code that tests buffer alignment is followed per alignment class (alternative chains of data loops; every way through encrypt paired with every way through decrypt); R-C01-SETUPFN: the shared setup function computes the same state from the nonce bytes on every path class; R-C01-NOSTATE: no function reachable from the entry points refers to writable global state. R-C01-SMALL: every message length 0..100 as straight paths - length stored, exactly the output bytes written, tag position, load before store per offset, no read outside the input. And relationally for every length 0..80: decrypt applied to encrypt's output-byte terms repeats encrypt's calls on the same inputs, returns the plaintext bytes bit for bit and compares the regenerated tag with the stored one. The length out-parameter is write-only until stored (every load from it is dominated by a store).",
        "note": "Induction itself is the argument in DESIGN.md. A deviation from the specification made consistently in both directions keeps the round trip and is deliberately not reported by this "
                "check. N0 IR of clang 14; alignment/endianness independence is C06's R-BYTEWISE; purity of helpers/permutation is C05/C19.",
        "technique": "relational symbolic path summaries (encrypt vs decrypt) in a GF(2) bit-provenance term domain with term substitution, per path class; affine cursor tracking",
    },
    "C02": {
        "text": "Construction conformance on every path: the same per-path-class summaries compared with the TinyJAMBU v2 reference (frame bits 0x10/0x30/0x50/0x70, 640-step and 1024/1152/1280-step "
                "permutations, key words NOT LE32, nonce words, partial-block length injection into word 1, tag = two squeezes of word 2) for setup_N, absorb_N, generate_tag_N and the six AEAD "
                "functions, plus the three C permutation backends against the bit-serial NLFSR for every round count (C05's STEP/SCHED). Pins every absorbed and emitted bit to the specification's formula. Besides the per-class summaries, shape-independent small-length rules evaluate each AEAD function and absorb_N for every length 0..100 as straight paths (length concrete, data symbolic, one path per alignment class) and compare them with the sequential reference: refuters only (nothing beyond the bound is covered), so an unrecognised loop shape with a defect that shows at small lengths is still reported. setup_N is checked per path class (alignment of the nonce pointer), absorb_N per alternative loop. R-C02-NOSTATE: no writable global state reachable from the entry points.",
        "note": "No value is computed: agreement with other implementations follows only given that tj/mode.py and tj/asmx.py transcribe the specification correctly (trusted). gcc and object-level "
                "equivalence of shared/static builds not covered; alignment/endianness independence is C06's.",
        "technique": "symbolic path summaries in a GF(2) term domain vs a reference model of the mode; permutation by abstract interpretation of one loop iteration",
    },
    "C08": {
        "text": "As C01/C03 for the six SIV functions, RELATIONALLY (conformance with the documented construction is C09): decrypt's second-pass setup equals encrypt's with the 8 bytes at c+clen-8 in "
                "place of the generated tag (same callee, domain, key, nonce composition; encrypt stores the tag at c+mlen); per path class of the keystream pass both run the same permutation call "
                "and decrypt applied to encrypt's output terms returns the plaintext bit for bit; decrypt's authentication pass repeats encrypt's first pass call for call over (npub, ad, recovered "
                "plaintext, clen-8); lock-step/tag position/load-before-store (the tag bytes are copied before the first plaintext store), and C03's guard / must-pass / argument rules on "
                "the three SIV decrypt functions."
                " R-C08-SETUPFN (setup is a function of the nonce bytes on every path class and every nonce bit enters the state), R-C08-NOSTATE (no writable global state reachable), R-C08-SMALL "
                "(every length 0..100 as straight paths: i/o and memory discipline, refusal of inputs shorter than a tag; relationally for every length 0..80: decrypt's two passes are encrypt's two passes on the same inputs, plaintext recovered bit for bit, regenerated tag = stored tag). "
                "R-C08-ABSORB: the shared absorb function (associated data, and the plaintext of the authentication pass) is injective in the bytes of every segment - a loss of input bits made alike "
                "in both directions keeps the round trip but lets modified bodies or associated data through. R-C08-KEY: the key words are an injective function of the key bytes. The length out-parameter is write-only until stored (every load from it is dominated by a store). R-C08-NONCE also carries a non-relational premise: the set-up of the authentication pass is given the caller's nonce.",
        "note": "Values not computed; tag sensitivity is a cipher property; check_tag itself is decided under C03/C04. Consistent deviations from the construction are C09's.",
        "technique": "relational symbolic path summaries (encrypt vs decrypt) in a GF(2) term domain; finite-class execution for the length guard",
    },
    "C09": {
        "text": "Construction conformance of the six SIV functions with the documented two-pass construction (constants 0x90/0xB0/0xD0, pass 2 never absorbs, nonce' composition) at bit level on "
                "every path class, and the dependency shape this implies: the pass-2 state derives from setup(key, npub[0..3] || tag) only, so the keystream depends on key, four nonce bytes and tag; "
                "the message enters the body only through the final xor at the same offset. Besides the per-class summaries, shape-independent small-length rules evaluate each SIV function for every length 0..100 as straight paths (length concrete, data symbolic, one path per alignment class) and compare them with the sequential reference: refuters only (nothing beyond the bound is covered), so an unrecognised loop shape with a defect that shows at small lengths is still reported. R-C09-NOSTATE as for C02.",
        "note": "NOT decided: 'different tags give unrelated keystreams / XOR of bodies differs from XOR of plaintexts beyond chance' - a cryptographic property of the permutation, declined.",
        "technique": "symbolic path summaries in a GF(2) term domain vs the documented construction",
    },
    "C06": {
        "text": "Clauses decided: (BOUNDS) every load, store, mem intrinsic and call argument of the library stays inside the object it derives from - address = object + affine offset "
                "(SCEV recurrences; paired non-affine cursors), sizes from a contract table (fixed sizes, paired length parameters, DWARF state sizes) and allocas, bounds from dominating comparisons "
                "with consistent case splits on merge phis, unconditional facts about masked lengths (x & 3, x & ~3, their sum, divisibility), call sites checked against callee contracts; the two "
                "inter-call invariants used (hash/HKDF block position) are re-established by every store to those fields. (NOWRAP) every size_t subtraction with a negative part is non-negative under "
                "the dominating comparisons; refuted only by a witness (parameter values that pass every earlier check and make the length wrap). (BYTEWISE/CONST) whole-module points-to: accesses to "
                "caller byte buffers claim alignment 1 (N0 and -O3) and are one byte wide (N0); nothing is written through a pointer-to-const parameter. (SHIFT) shift amounts below the width "
                "(constants exactly, variables by known-bits range). (EXACT) AEAD/SIV write exactly mlen+8 / clen-8 bytes per path class, refusals write nothing; wipes and hash_update never touch "
                "bytes outside the declared range for every length/alignment class (D-COV, one-sided). (ASM) stores/loads of the 27 assembly programs stay in the state words / frame. "
                "Plus compile-fail witnesses. (ALIGN) no access through a pointer parameter claims more than 8-byte alignment. A wide access to a caller byte buffer is accepted when dominated by a test of that buffer's address, or when D-COV computes its address to be a multiple of the width in every (alignment, length) class; where the affine analysis has no trip count (a loop that tests the cursor's alignment) the bounds clause falls back to D-COV's per-class coverage. R-C06-DEFINED: the buffer the PRNG initialisers and reseed hand to the entropy source is defined before the request (a short delivery leaves no uninitialised byte in what is hashed). R-C06-PROTO: every direct call in the linked library has the function type its callee is defined with.",
        "note": "Modular: inside a function pointer parameters have the documented sizes (contract table = trusted transcription of TinyJAMBU.h); undecided side conditions (no-wrap without a "
                "parameter-only witness, variable shifts, nsw on opaque operands, exact ranges of functions whose shape the mode summaries do not recognise) are listed in the evidence, not reported; "
                "an access that can be neither proven nor refuted makes the check exit 2. -O3 objects only for alignment claims; gcc not covered.",
        "technique": "affine bounds analysis over LLVM IR with contracts (assume/guarantee) + points-to based access-shape rules + residue-affine coverage analysis + witness search for wraps",
    },
    "C10": {
        "text": "Construction conformance of TinyJAMBU-Hash with the documented MDPH construction: init, update and finalize are evaluated per buffer-position class (0..15), per length class, with "
                "one generic iteration of the whole-block loop; all offsets are then constants and block contents are tracked byte for byte in the GF(2) term domain with the permutation "
                "uninterpreted. Every compression equals K = R||M, L ^= d, L' = P(K,L)^L, R' = P(K,L^1)^L^1 with 20 rounds, d = 0 / 2 (final), padding 0x01 0*, digest = LE32(L')||LE32(R'); the blocks "
                "compressed are exactly the consecutive 16-byte groups of the message; the 256-bit C permutation equals the NLFSR for every round count. Besides the per-class summaries, shape-independent small-length rules evaluate tinyjambu_hash_update for each buffer position and every input length 0..100 as straight paths (length concrete, data symbolic, one path per alignment class) and compare them with the sequential reference: refuters only (nothing beyond the bound is covered), so an unrecognised loop shape with a defect that shows at small lengths is still reported. A block loop that also tops up the buffer in its first round is analysed with that iteration peeled into the entry path.",
        "note": "No digest is computed; the MDPH description in tj/rules/hashlib.py is a trusted transcription of tools/hashref/README.md and the source comments. Little-endian host branch only.",
        "technique": "symbolic path summaries per finite class (buffer position, length residue) in a GF(2) term domain vs a reference model",
    },
    "C11": {
        "text": "tinyjambu_hash_update is shown to implement 'append to a byte stream; compress every full 16 bytes' exactly: for each of the 16 buffer positions and every length class the buffered "
                "bytes, the bytes taken for the top-up, the whole-block loop (generic iteration, lock-step cursor/remaining) and the stashed tail are the consecutive bytes of (buffered || input), and the "
                "position is updated accordingly; so the abstract state after a call depends on the concatenated stream only, which gives split-independence by induction over the calls. init/reinit "
                "write every field that is read before written (whatever the object held); one-shot = init; update; finalize; free. Besides the per-class summaries, shape-independent small-length rules evaluate update for each buffer position and every input length 0..100 as straight paths (length concrete, data symbolic, one path per alignment class) and compare them with the sequential reference: refuters only (nothing beyond the bound is covered), so an unrecognised loop shape with a defect that shows at small lengths is still reported.",
        "note": "Digest equality as a value is not computed. Isolation between state objects rests on C19 (no globals).",
        "technique": "symbolic path summaries per finite class vs an abstract stream machine; induction over the call sequence stated in DESIGN.md",
    },
    "C12": {
        "text": "RFC 2104 structure for every key-length class (each length 0..64 and the class > 64): in init, reinit and finalize the 64-byte block absorbed equals (key ^ pad) || pad-padding byte for "
                "byte (ipad 0x36, opad 0x5C), long keys are hashed to 32 bytes first, the block is wiped; finalize = inner digest, outer key block, update(inner digest, 32), finalize(out); update is a "
                "wrapper; one-shot = init/update/finalize/wipe. Long keys reduced by the one-shot tinyjambu_hash into the local block are recognised as that preprocessing; hmac_update may return early for length 0. A key-length class that the code splits further (a test of the key pointer against null, an alignment) is checked once per path: each must set the documented block up; a null key with a non-zero length is outside the contract. Hash primitives are uninterpreted events whose outputs are fresh symbols. Premise R-C12-HASH re-runs all rules of C10/C11.",
        "note": "MAC values are not computed; the hash is C10/C11; the caller passing the same key to finalize is an API contract.",
        "technique": "finite-class (key length) symbolic path summaries with uninterpreted hash events",
    },
    "C13": {
        "text": "RFC 5869 structure: one-shot = the two outlen classes w.r.t. 8160 read off a plain comparison of outlen with a constant (arithmetic on outlen in front of the comparison, or a returned value that is not a constant of the function: not decided) (above: -1, no call, no write; else extract, expand, wipe, 0); extract = HMAC(salt, IKM) with counter 1 and nothing " "buffered on every path it distinguishes (on a path where a pointer is null or its length is 0 any pointer may be handed on with that length; a substitute of another length is not decided); "
                "expand analysed for each of the 33 buffer positions, each short-request length, and one generic loop iteration per counter class {0, 1, other}: T(n) = HMAC(PRK, T(n-1) | "
                "info | n) with the counter byte absorbed before its 8-bit increment, refusal with a zero-filled remainder when the counter is 0, left-over bytes served first, min(32, remaining) bytes "
                "handed out per block, cursor/remaining in lock-step. HMAC calls are uninterpreted events with fresh output symbols; buffer contents tracked byte for byte. The 255-block limit is a "
                "semantic rule: no block is generated with the 8-bit counter at 0 - by a check at the top of every iteration or because counter != 0 is an inductive invariant of the loop. "
                "Premise R-C13-PRF re-runs C12/C10/C11. Besides the per-class summaries, shape-independent small-length rules evaluate expand for buffer position x counter in {0,1,2,254,255} x every outlen 0..100 (HMAC transcript, bytes handed out, counter, position, refusal) as straight paths (length concrete, data symbolic, one path per alignment class) and compare them with the sequential reference: refuters only (nothing beyond the bound is covered), so an unrecognised loop shape with a defect that shows at small lengths is still reported.",
        "note": "Output values are not computed; HMAC is C12. 'Empty salt = 32 zero bytes' follows from C12's key-block rule for key length 0.",
        "technique": "finite-class symbolic path summaries (buffer position, counter class, length class) with uninterpreted HMAC events",
    },
    "C14": {
        "text": "RFC 8018 structure: per block U1 = PRF(P, S || INT32BE(i)) with the big-endian block-number bytes checked at bit level, count classes {0,1} (no chain) and > 1 (U2, then a chain loop "
                "from the caller's count while count > 2, one generic iteration U(j+1) = PRF(P,U(j)), T ^= U(j+1)): count PRFs in total; block number from 1 in steps of 1; full blocks in place with "
                "lock-step cursor/length; each last-block length 1..31 copies exactly that many bytes of T; T and U wiped. The chain trip count comes from ScalarEvolution (either loop direction). "
                "Premise R-C14-PRF re-runs C12/C10/C11. Besides the per-class summaries, the shape-independent rule R-C14-SMALL evaluates the function for count in {0,1,2,3,5} x every outlen 0..100 "
                "(200 and more counts in the thorough tier) as straight paths (count and length concrete, data symbolic, HMAC uninterpreted) and compares the PRF transcript of every block and the "
                "bytes written with RFC 8018: a refuter only (nothing beyond the bound is covered), so an unrecognised loop shape with a defect that shows for small block numbers is still reported. A password hashed once up front is recognised: the digest may key the PRFs only on paths where the password is longer than 64 bytes and while it is intact in its buffer. The iteration count must reach the chain at its full width: a truncation to fewer than 32 bits in a function that compares the count with no constant above 255 (so that no path can have bounded it) is refuted as count-narrowed, whatever the loops look like.",
        "note": "Derived key values are not computed; block numbers beyond 2^32 are outside RFC 8018; HMAC is C12.",
        "technique": "finite-class symbolic path summaries with uninterpreted HMAC events; generic iterations of the block and chain loops",
    },
    "C15": {
        "text": "Hash_DRBG structure on every path: instantiate, reseed and feed are the documented Hash_df chains (constant header bytes, the working value V absorbed byte for byte, then the new "
                "material, then C = Hash_df(0x00 | V)) with the counter reset/incremented as documented; generate, per generic iteration with and without the automatic reseed and per block length "
                "1..32: output = leading bytes of Hash(V), H = Hash(3 | V), V' = V + H + C + counter as a big-endian 256-bit sum (exact support sets plus evaluation of the bit-level terms on corner and "
                "pseudo-random assignments). Hash calls are uninterpreted events with fresh outputs. Premise R-C15-HASH re-runs all rules of C10/C11. Every site that generates a block exists both with and without the automatic reseed in front of it. The reseed counter and limit are 32-bit fields (a narrower count of calls wraps under feeds). Premise R-C15-RESEED re-runs all rules of C16 (the limit a request leaves behind, the writes to counter and limit, the test before every block): where the automatic reseeds fall.",
        "note": "Output values are not computed (hash: C10/C11); reseed placement is decided by C16's rules, re-run here as a premise; the sum is checked for counters below 2^31.",
        "technique": "symbolic path summaries with uninterpreted hash events; bit-level term evaluation for the 256-bit addition",
    },
}

_NB_OLD = "not built yet in this session (design exists in DESIGN.md; claimed only once its check fires on broken variants and is silent on the unchanged tree)"
NOT_APPLICABLE = {}
