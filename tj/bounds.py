"""R-C06-BOUNDS: every memory access stays inside the object it is derived from.

Modular (assume/guarantee): inside a function a pointer parameter denotes an object whose size is
given by the contract table (fixed size, or a paired length parameter +- constant, or the DWARF size
of the state type); allocas have their own size.  For every load / store / mem-intrinsic the address
is written as  base + offset  with the affine domain (tj/aff.py: SCEV recurrences for loop cursors),
and   0 <= offset  and  offset + n <= size   must follow from the branch conditions dominating the
access (inequalities between affine forms) and the non-negativity of unsigned quantities.
Three outcomes per access: proven, refuted (the access is definitely outside on every execution that
reaches it), unknown.  Call sites are checked against the callee's contract the same way.
"""
import re
from .build import Broken
from .facts import const_val, relpath
from . import aff, ir
from .aff import Lin

# contract table: (function regex, {param: spec}); spec = int | ("len", param, delta) | "state" | None
_KS = r"(128|192|256)"
CONTRACTS = [
    (r"tinyjambu_" + _KS + r"_(aead|siv)_encrypt$", {"c": ("len", "mlen", 8), "clen": 8, "m": ("len", "mlen", 0), "ad": ("len", "adlen", 0), "npub": 12, "k": "key"}),
    (r"tinyjambu_" + _KS + r"_(aead|siv)_decrypt$", {"m": ("len", "clen", -8), "mlen": 8, "c": ("len", "clen", 0), "ad": ("len", "adlen", 0), "npub": 12, "k": "key"}),
    (r"tinyjambu_setup_" + _KS + "$", {"state": "state", "nonce": 12}),
    (r"tinyjambu_absorb_" + _KS + "$", {"state": "state", "data": ("len", "size", 0)}),
    (r"tinyjambu_generate_tag_" + _KS + "$", {"state": "state", "tag": 8}),
    (r"tinyjambu_permutation_" + _KS + "$", {"state": "state"}),
    (r"tinyjambu_aead_check_tag$", {"plaintext": ("len", "plaintext_len", 0), "tag1": ("len", "size", 0), "tag2": ("len", "size", 0)}),
    (r"tinyjambu_clean$", {"buf": ("len", "size", 0)}),
    (r"tinyjambu_hash$", {"out": 32, "in": ("len", "inlen", 0)}),
    (r"tinyjambu_hash_(init|reinit|free)$", {"state": "state"}),
    (r"tinyjambu_hash_update$", {"state": "state", "in": ("len", "inlen", 0)}),
    (r"tinyjambu_hash_finalize$", {"state": "state", "out": 32}),
    (r"tinyjambu_hmac$", {"out": 32, "key": ("len", "keylen", 0), "in": ("len", "inlen", 0)}),
    (r"tinyjambu_hmac_(init|reinit)$", {"state": "state", "key": ("len", "keylen", 0)}),
    (r"tinyjambu_hmac_free$", {"state": "state"}),
    (r"tinyjambu_hmac_update$", {"state": "state", "in": ("len", "inlen", 0)}),
    (r"tinyjambu_hmac_finalize$", {"state": "state", "key": ("len", "keylen", 0), "out": 32}),
    (r"tinyjambu_hkdf$", {"out": ("len", "outlen", 0), "key": ("len", "keylen", 0), "salt": ("len", "saltlen", 0), "info": ("len", "infolen", 0)}),
    (r"tinyjambu_hkdf_extract$", {"state": "state", "key": ("len", "keylen", 0), "salt": ("len", "saltlen", 0)}),
    (r"tinyjambu_hkdf_expand$", {"state": "state", "info": ("len", "infolen", 0), "out": ("len", "outlen", 0)}),
    (r"tinyjambu_hkdf_free$", {"state": "state"}),
    (r"tinyjambu_pbkdf2$", {"out": ("len", "outlen", 0), "password": ("len", "passwordlen", 0), "salt": ("len", "saltlen", 0)}),
    (r"tinyjambu_prng_(init)$", {"state": "state", "custom": ("len", "custom_len", 0)}),
    (r"tinyjambu_prng_init_user$", {"state": "state", "custom": ("len", "custom_len", 0), "user_data": None, "callback": None}),
    (r"tinyjambu_prng_(free|reseed|set_reseed_limit)$", {"state": "state"}),
    (r"tinyjambu_prng_(generate|feed)$", {"state": "state", "data": ("len", "size", 0)}),
    (r"tinyjambu_prng_system$", {"user_data": None, "buf": 32}),   # documented: "size ignored, assumed to be 32"
    (r"tinyjambu_trng_generate$", {"out": 32}),
    (r"tinyjambu_trng_get_bytes$", {"out": ("len", "outlen", 0)}),
]
# inter-call invariants of private state fields (assumed for loads, re-established by every store): (composite, field) -> (lo, hi)
INVARIANTS = {("tinyjambu_hash_state_p_t", "posn"): (0, 15), ("tinyjambu_hkdf_state_p_t", "posn"): (0, 32)}
# external functions: pointer arg index -> (length arg index | constant) for reads/writes
EXTERNAL = {"explicit_bzero": {0: ("arg", 1)}, "getrandom": {0: ("arg", 1)}, "getentropy": {0: ("arg", 1)}, "read": {1: ("arg", 2)}, "syscall": {1: ("arg", 2)}}


def contract(fname):
    for rx, c in CONTRACTS:
        if re.match(rx, fname):
            return c
    return None


def key_size(fname):
    m = re.search(_KS, fname)
    return int(m.group(1)) // 8 if m else None


class FnBounds:
    def __init__(self, mod, f):
        self.mod, self.f = mod, f
        self.A = aff.Aff(f)
        self.c = contract(f.name)
        self.results = []   # (inst, what, verdict, detail)
        self.inv = self.field_invariants()
        self.inv_facts = []
        # every load of an invariant-carrying field is within its range
        for I in f.insts:
            if I.op == "load":
                b, o = ir.ptr_base(f, I.ops[0])
                if b[0] == "a" and b[1] in self.inv and o in self.inv[b[1]] and self.inv[b[1]][o][0] == I.get("size"):
                    lo, hi = self.inv[b[1]][o][1]
                    v = self.A.value(("i", I.id))
                    self.inv_facts.append(v.add(Lin.const(-lo)))
                    self.inv_facts.append(v.scale(-1).add(Lin.const(hi)))

    # -- object sizes -----------------------------------------------------------
    def param_size(self, g, idx, argvals=None):
        """size (Lin over g's parameters, or over the caller's values when argvals is given) of the object parameter idx of g points to"""
        c = contract(g.name)
        p = g.params[idx]
        if c is None or p["name"] not in c:
            return None
        spec = c[p["name"]]
        if spec is None:
            return None
        if spec == "state":
            sz = p["di"]["pointee_size"]
            nm = p["di"]["pointee"]
            if nm in self.mod.typedefs and self.mod.typedefs[nm]["size"]:
                sz = self.mod.typedefs[nm]["size"]
            return Lin.const(sz) if sz else None
        if spec == "key":
            ks = key_size(g.name)
            return Lin.const(ks) if ks else None
        if isinstance(spec, int):
            return Lin.const(spec)
        _, lp, delta = spec
        li = g.param_index(lp)
        if li is None:
            return None
        base = argvals[li] if argvals is not None else Lin.sym(("a", li))
        if base is None:
            return None
        return base.add(Lin.const(delta))

    def base_and_offset(self, lin):
        f = self.f
        bases = []
        for s in lin.syms():
            if s[0] == "a" and f.params[s[1]]["ty"].endswith("*"):
                bases.append(s)
            elif s[0] == "i" and f.insts[s[1]].op == "alloca":
                bases.append(s)
            elif s[0] == "i" and f.insts[s[1]].op == "call" and f.insts[s[1]].callee == "__errno_location":
                bases.append(s)
            elif s[0] == "g":
                bases.append(s)
        if len(bases) != 1 or lin[bases[0]] != 1:
            return None, None
        off = Lin(lin)
        del off[bases[0]]
        return bases[0], off

    def obj_size(self, base):
        f = self.f
        if base[0] == "g":
            for g_ in self.mod.globals:
                if g_.get("name") == base[1] and not g_.get("declaration") and g_.get("size"):
                    return Lin.const(int(g_["size"]))
            return None
        if base[0] == "i":
            if f.insts[base[1]].op == "call":
                return Lin.const(4)
            sz = f.insts[base[1]].get("alloc_size")
            return Lin.const(sz) if sz else None
        return self.param_size(f, base[1])

    # -- inequalities ---------------------------------------------------------------
    def ineqs_at(self, block):
        """list of Lin g with g >= 0 known at block (from dominating unsigned comparisons)"""
        A, f = self.A, self.f
        out = []
        for c, truth in ir.conditions_at(f, block):
            C = f.inst(c)
            if C is None or C.op != "icmp":
                continue
            pred = C.get("pred")
            a, b = A.value(C.ops[0]), A.value(C.ops[1])
            if not truth:
                pred = {"eq": "ne", "ne": "eq", "ult": "uge", "uge": "ult", "ugt": "ule", "ule": "ugt"}.get(pred)
            if pred == "uge":
                out.append(a.add(b, -1))
            elif pred == "ugt":
                out.append(a.add(b, -1).add(Lin.const(-self._strict_gap(a.add(b, -1)))))
            elif pred == "ule":
                out.append(b.add(a, -1))
            elif pred == "ult":
                out.append(b.add(a, -1).add(Lin.const(-self._strict_gap(b.add(a, -1)))))
            elif pred == "eq":
                out.append(a.add(b, -1))
                out.append(b.add(a, -1))
            elif pred == "ne" and b.constant() == 0:
                out.append(a.add(Lin.const(-1)))
            elif pred == "ne" and a.constant() == 0:
                out.append(b.add(Lin.const(-1)))
            elif pred == "sge":
                out.append(a.add(b, -1))
            elif pred == "sgt":
                out.append(a.add(b, -1).add(Lin.const(-1)))
            elif pred == "sle":
                out.append(b.add(a, -1))
            elif pred == "slt":
                out.append(b.add(a, -1).add(Lin.const(-1)))
        return out + self.inv_facts + self.and_facts() + self.switch_facts(block) + self.trip_facts(block) + self.header_phi_facts(block) + self.countdown_facts(block) + self.orbit_facts(block)

    def orbit_facts(self, block):
        """a loop-carried integer that starts at a constant and whose next value is computed from it by constants alone (`pos += 4; if (pos == 8)
        pos = 0;`): its values form a finite orbit, found by evaluating that computation concretely; min and max of the orbit bound it"""
        f, A = self.f, self.A
        cache = getattr(self, "_orbcache", None)
        if cache is None:
            cache = self._orbcache = {}
        out = []
        for L in f.loops:
            H = L["header"]
            if not f.dominates_block(H, block):
                continue
            if H not in cache:
                cache[H] = []
                for iid in f.blocks[H].insts:
                    P = f.insts[iid]
                    if P.op != "phi":
                        break
                    if (P.get("ty") or "").endswith("*") or not P.bits or (P.get("scev") or {}).get("k") == "rec":
                        continue
                    ini = [tuple(x[0]) for x in P.get("inc") if x[1] not in L["blocks"]]
                    backs = [(tuple(x[0]), x[1]) for x in P.get("inc") if x[1] in L["blocks"]]
                    if len(ini) != 1 or ini[0][0] != "c" or len(backs) != 1:
                        continue
                    orb = self._orbit(P, int(ini[0][1]), backs[0][0], L)
                    if orb:
                        pv = Lin.sym(("i", P.id))
                        cache[H] += [pv.add(Lin.const(-min(orb))), pv.scale(-1).add(Lin.const(max(orb)))]
            out += cache[H]
        return out

    def _orbit(self, P, v0, backv, L):
        f = self.f
        mask = (1 << P.bits) - 1

        def ev(v, val, depth=0):
            """concrete value of v when P == val, or None"""
            v = tuple(v)
            if depth > 12:
                return None
            if v[0] == "c":
                return int(v[1]) & ((1 << v[2]) - 1) if v[2] <= 64 else None
            if v == ("i", P.id):
                return val
            I = f.inst(v)
            if I is None or I.b not in L["blocks"]:
                return None
            o = I.ops
            if I.op in ("add", "sub", "and", "or", "xor", "mul", "shl", "lshr"):
                a, b_ = ev(o[0], val, depth + 1), ev(o[1], val, depth + 1)
                if a is None or b_ is None:
                    return None
                m = (1 << I.bits) - 1
                r = {"add": a + b_, "sub": a - b_, "and": a & b_, "or": a | b_, "xor": a ^ b_, "mul": a * b_,
                     "shl": a << b_ if b_ < 64 else 0, "lshr": a >> b_ if b_ < 64 else 0}[I.op]
                return r & m
            if I.op in ("zext", "trunc", "freeze"):
                a = ev(o[0], val, depth + 1)
                return None if a is None else a & ((1 << I.bits) - 1)
            if I.op == "icmp":
                a, b_ = ev(o[0], val, depth + 1), ev(o[1], val, depth + 1)
                if a is None or b_ is None:
                    return None
                bits = f.inst(tuple(o[0])).bits if f.inst(tuple(o[0])) is not None else (o[0][2] if o[0][0] == "c" else 64)
                return int(ir.eval_icmp(I.get("pred"), a, b_, bits or 64))
            if I.op == "select":
                c_ = ev(o[0], val, depth + 1)
                return None if c_ is None else ev(o[1] if c_ else o[2], val, depth + 1)
            if I.op == "phi":
                # a merge inside the loop body: follow the branch of its immediate dominator concretely
                d = f.blocks[I.b].idom
                be = ir.branch_edges(f, d) if d != -1 else None
                if not be:
                    return None
                c_ = ev(be[0], val, depth + 1)
                if c_ is None:
                    return None
                cur, prev = (be[1] if c_ else be[2]), d
                for _n in range(4):
                    if cur == I.b:
                        break
                    t = f.term(cur)
                    if t.op != "br" or t.get("cond"):
                        return None
                    prev, cur = cur, t.get("succ")[0]
                if cur != I.b:
                    return None
                inc = [tuple(x[0]) for x in I.get("inc") if x[1] == prev]
                return ev(inc[0], val, depth + 1) if len(inc) == 1 else None
            return None
        orb, v = [], v0 & mask
        while v not in orb:
            orb.append(v)
            if len(orb) > 64:
                return None
            v = ev(backv, v)
            if v is None:
                return None
        return orb

    def countdown_facts(self, block):
        """a top-tested loop that counts a remaining length down: `while (n >= C) { ...; n -= d; }` with C >= d and the head the only exit.
        By induction over the visits of the head, n0 - d*k >= 0 (n0 >= 0 from the conditions in front of the loop; the back edge is only
        reached after the test n >= C >= d) - inside the loop and behind it, where k stands for the last visit"""
        f, A = self.f, self.A
        cache = getattr(self, "_cdcache", None)
        if cache is None:
            cache = self._cdcache = {}
        out = []
        for L in f.loops:
            H = L["header"]
            if not f.dominates_block(H, block):
                continue
            if H not in cache:
                cache[H] = []
                be = ir.branch_edges(f, H)
                if be and list(L.get("exiting", [])) == [H]:
                    cnd, ts, fs = be
                    C = f.inst(cnd)
                    inl = [x for x in (ts, fs) if x in L["blocks"]]
                    if C is not None and C.op == "icmp" and len(inl) == 1:
                        pred = C.get("pred")
                        if inl[0] == fs:
                            pred = {"eq": "ne", "ne": "eq", "ult": "uge", "uge": "ult", "ugt": "ule", "ule": "ugt"}.get(pred)
                        a, b_ = A.value(C.ops[0]), A.value(C.ops[1])
                        if a.constant() is not None and b_.constant() is None:
                            a, b_ = b_, a
                            pred = {"ult": "ugt", "ugt": "ult", "ule": "uge", "uge": "ule", "ne": "ne"}.get(pred)
                        kb = b_.constant()
                        ksym = ("k", H)
                        s_ = a.get(ksym, 0)
                        if kb is not None and s_ < 0 and all(not (isinstance(t_, tuple) and t_[0] == "k") or t_ == ksym for t_ in a):
                            low = {"uge": kb, "ugt": kb + 1, "ne": 1 if kb == 0 else None}.get(pred)
                            if low is not None and low >= -s_:
                                v0 = Lin(a)
                                v0.pop(ksym)
                                base = self._ineqs_from(ir.conditions_at(f, H)) + self.inv_facts + self.and_facts()
                                okb = self._trivially_nonneg(v0) or any(self._trivially_nonneg(v0.add(g, -1)) for g in base) \
                                    or any(self._trivially_nonneg(v0.add(g, -1).add(h, -1)) for i_, g in enumerate(base) for h in base[i_ + 1:])
                                if okb:
                                    cache[H].append(a)
            out += cache[H]
        return out

    def header_phi_facts(self, block):
        """a value merged at a loop head (a remaining length in a bottom-tested loop): when every edge into the head - the guarded entry
        and the back edge - carries a comparison of the incoming value with a constant, the weakest of them holds for the merged value
        wherever the head dominates"""
        f, A = self.f, self.A
        cache = getattr(self, "_hpcache", None)
        if cache is None:
            cache = self._hpcache = {}
        out = []
        for L in f.loops:
            H = L["header"]
            if not f.dominates_block(H, block):
                continue
            if H not in cache:
                facts = []
                for iid in f.blocks[H].insts:
                    P = f.insts[iid]
                    if P.op != "phi":
                        break
                    if (P.get("ty") or "").endswith("*") or not P.bits:
                        continue
                    lows, ups = [], []
                    for inc, pb in P.get("inc"):
                        iv = A.value(tuple(inc))
                        lo, hi = None, None
                        if iv.constant() is not None:
                            lo = hi = iv.constant()
                        for c, truth in ir.conditions_on_edge(f, pb, H):
                            C = f.inst(c)
                            if C is None or C.op != "icmp":
                                continue
                            pred = C.get("pred")
                            if not truth:
                                pred = {"eq": "ne", "ne": "eq", "ult": "uge", "uge": "ult", "ugt": "ule", "ule": "ugt"}.get(pred)
                            a, b_ = A.value(C.ops[0]), A.value(C.ops[1])
                            if b_.constant() is not None and a == iv:
                                k = b_.constant()
                            elif a.constant() is not None and b_ == iv:
                                k = a.constant()
                                pred = {"ult": "ugt", "ugt": "ult", "ule": "uge", "uge": "ule", "eq": "eq", "ne": "ne"}.get(pred)
                            else:
                                continue
                            if k < 0:
                                continue
                            if pred == "ugt":
                                lo = max(lo or 0, k + 1)
                            elif pred == "uge":
                                lo = max(lo or 0, k)
                            elif pred == "ne" and k == 0:
                                lo = max(lo or 0, 1)
                            elif pred == "ult" and k > 0:
                                hi = k - 1 if hi is None else min(hi, k - 1)
                            elif pred == "ule":
                                hi = k if hi is None else min(hi, k)
                            elif pred == "eq":
                                lo, hi = max(lo or 0, k), (k if hi is None else min(hi, k))
                        lows.append(lo)
                        ups.append(hi)
                    pv = A.value(("i", P.id))
                    if lows and all(x is not None for x in lows) and min(lows) > 0:
                        facts.append(pv.add(Lin.const(-min(lows))))
                    if ups and all(x is not None for x in ups):
                        facts.append(pv.scale(-1).add(Lin.const(max(ups))))
                cache[H] = facts
            out += cache[H]
        return out

    def trip_facts(self, block):
        """inside a loop the iteration counter never exceeds ScalarEvolution's backedge-taken count (when that is affine and the loop has
        a single exit): this is what bounds a do/while body, whose test sits at the bottom"""
        f, A = self.f, self.A
        out = []
        for L in f.loops:
            # (behind the loop the counter symbol stands for the last visit of the head, which the same count bounds)
            if not f.dominates_block(L["header"], block) or len(L.get("exiting", [])) != 1:
                continue
            t = L.get("btc")
            if not t or t.get("k") == "cnc":
                continue
            if t.get("k") == "udiv" and (t.get("r") or {}).get("k") == "c":
                # the rotated ("if (n >= d) do { ... n -= d; } while (n >= d)") form: backedge-taken count = X /u d.  With X >= 0 established by the
                # guard in front of the loop, k <= floor(X / d) gives X - d*k >= 0
                try:
                    X, d = A.scev(t["l"]), int(t["r"]["v"])
                except Exception:
                    X = None
                if X is None or d <= 0:
                    continue
                dom = self._ineqs_from(ir.conditions_at(f, L["header"]))
                if self._trivially_nonneg(X) or any((lambda c_: c_ is not None and c_ >= 0)(X.add(g, -1).constant()) for g in dom):
                    out.append(X.add(Lin.sym(("k", L["header"])), -d))
                    # the same quotient computed by an instruction (the loop bound itself): k <= x / d
                    for Q in f.insts:
                        if Q.op in ("udiv", "lshr") and Q.ops[1][0] == "c" and Q.bits == t.get("w"):
                            qd = int(Q.ops[1][1]) if Q.op == "udiv" else (1 << int(Q.ops[1][1]) if int(Q.ops[1][1]) < 32 else 0)
                            if qd == d and A.value(tuple(Q.ops[0])) == X:
                                out.append(A.value(("i", Q.id)).add(Lin.sym(("k", L["header"])), -1))
                                break
                continue
            try:
                T = A.scev(t)
            except Exception:
                T = None
            if T is None:
                continue
            out.append(T.add(Lin.sym(("k", L["header"])), -1))
        return out

    def switch_facts(self, block):
        """a dominating switch: the switched value lies between the smallest and largest case value whose target can reach this
        block (fall-through included) when the default target cannot"""
        f, A = self.f, self.A
        cache = getattr(self, "_swcache", None)
        if cache is None:
            cache = self._swcache = {}
        if block in cache:
            return cache[block]
        out = []

        def reach(src, dst, avoid):
            seen, todo = set(), [src]
            while todo:
                x = todo.pop()
                if x == dst:
                    return True
                if x in seen or x == avoid:
                    continue
                seen.add(x)
                todo.extend(f.blocks[x].succs)
            return False
        d = f.blocks[block].idom
        guard = 0
        while d != -1 and guard < 200:
            guard += 1
            t = f.term(d)
            if t is not None and t.op == "switch" and t.get("cases") is not None:
                vals = [int(cv) for cv, dst in t.get("cases") if reach(dst, block, d)]
                if vals and not reach(t.get("default"), block, d):
                    v = A.value(tuple(t.ops[0]))
                    out.append(v.add(Lin.const(-min(vals))))
                    out.append(v.scale(-1).add(Lin.const(max(vals))))
                elif not vals and reach(t.get("default"), block, d) and f.dominates_block(t.get("default"), block):
                    # only the default arm leads here: the value is none of the cases; a lower bound known in front of the switch moves past them
                    v = A.value(tuple(t.ops[0]))
                    cases = {int(cv) for cv, _dst in t.get("cases")}
                    lo = None
                    for g in self._ineqs_from(ir.conditions_at(f, d)):
                        k = g.add(v, -1).constant()
                        if k is not None:
                            lo = -k if lo is None else max(lo, -k)
                    if lo is not None and lo in cases:
                        while lo in cases:
                            lo += 1
                        out.append(v.add(Lin.const(-lo)))
            d = f.blocks[d].idom
        cache[block] = out
        return out

    def _term_gcd(self, d):
        """gcd of the symbol terms of d (iteration counters scaled by their step, values masked with ~(g-1)); 1 if d has none"""
        from math import gcd
        self._strict_gap(Lin())          # makes sure the divisibility table exists
        g = 0
        for s_, c in d.items():
            if s_ != 1:
                g = gcd(g, abs(c) * self._divis.get(s_, 1))
        return g if g > 1 else 1

    def _strict_gap(self, d):
        """d > 0 is known; if every term of d is a multiple of g (iteration counters scaled by g, values masked with ~(g-1)) then d >= g"""
        from math import gcd
        if getattr(self, "_divis", None) is None:
            self._divis = {}
            for I in self.f.insts:
                if I.op == "and":
                    for c_ in (I.ops[0], I.ops[1]):
                        if c_[0] == "c":
                            cv = int(c_[1]) & ((1 << (I.bits or 64)) - 1)
                            low = (cv & -cv) if cv else 0
                            if low > 1:
                                self._divis[("i", I.id)] = low
        g = 0
        for s_, c in d.items():
            if s_ == 1:
                g = gcd(g, abs(c))
            else:
                g = gcd(g, abs(c) * self._divis.get(s_, 1))
        return g if g > 1 else 1

    def and_facts(self):
        """t = x & C (unsigned): 0 <= t <= x always, and t <= C for a non-negative constant C - whatever the path"""
        if getattr(self, "_and_facts", None) is not None:
            return self._and_facts
        A, f = self.A, self.f
        out = []
        for I in f.insts:
            if I.op != "and":
                continue
            t = A.value(("i", I.id))
            for x, c_ in ((I.ops[0], I.ops[1]), (I.ops[1], I.ops[0])):
                if c_[0] != "c":
                    continue
                xv = A.value(tuple(x))
                out.append(xv.add(t, -1))            # x - t >= 0
                cv = int(c_[1])
                if 0 <= cv < (1 << 31):
                    out.append(Lin.const(cv).add(t, -1))
                break
        # complementary masks of the same value: (x & C) + (x & ~C) == x
        ands = []
        for I in f.insts:
            if I.op == "and":
                for x, c_ in ((I.ops[0], I.ops[1]), (I.ops[1], I.ops[0])):
                    if c_[0] == "c":
                        ands.append((tuple(x), int(c_[1]) & ((1 << (I.bits or 64)) - 1), I.bits or 64, ("i", I.id)))
                        break
        for i, (x1, c1, w1, t1) in enumerate(ands):
            for (x2, c2, w2, t2) in ands[i + 1:]:
                if w1 == w2 and A.value(x1) == A.value(x2) and (c1 & c2) == 0 and (c1 | c2) == (1 << w1) - 1:
                    e = A.value(t1).add(A.value(t2)).add(A.value(x1), -1)
                    out += [e, e.scale(-1)]
        # t = x / c, t = x % c, t = x >> k (unsigned): c*t <= x <= c*t + c - 1;  x % c <= c - 1, x % c <= x
        for I in f.insts:
            if I.op in ("udiv", "urem", "lshr") and I.ops[1][0] == "c":
                cv = int(I.ops[1][1])
                if I.op == "lshr":
                    if not 0 < cv < 32:
                        continue
                    cv = 1 << cv
                if not 1 < cv <= 65536:
                    continue
                t = A.value(("i", I.id))
                xv = A.value(tuple(I.ops[0]))
                if I.op in ("udiv", "lshr"):
                    out.append(xv.add(t, -cv))                                   # x - c*t >= 0
                    out.append(t.scale(cv).add(Lin.const(cv - 1)).add(xv, -1))   # c*t + c - 1 - x >= 0
                else:
                    out.append(Lin.const(cv - 1).add(t, -1))
                    out.append(xv.add(t, -1))
        # quotient and remainder (or low mask) of the same value by the same constant: x == c*(x / c) + (x % c)
        qs, rs = [], []
        for I in f.insts:
            if I.op in ("udiv", "lshr", "urem", "and") and I.ops[1][0] == "c":
                cv = int(I.ops[1][1])
                if I.op == "lshr":
                    cv = (1 << cv) if 0 < cv < 32 else 0
                if I.op == "and":
                    cv = cv + 1 if cv > 0 and (cv & (cv + 1)) == 0 else 0       # x & (2^k - 1) = x % 2^k
                if 1 < cv <= 65536:
                    (qs if I.op in ("udiv", "lshr") else rs).append((A.value(tuple(I.ops[0])), cv, A.value(("i", I.id)), I.bits))
        for xq, cq, tq, bq in qs:
            for xr, cr, tr, br in rs:
                if cq == cr and xq == xr and bq == br:
                    e = xq.add(tq, -cq).add(tr, -1)
                    out += [e, e.scale(-1)]
        # a remainder without its quotient in the code still has one: x == c*Q + (x % c) for some Q >= 0 (a fresh symbol per remainder);
        # together with integer rounding this ties `len & 3` to a length counted down in steps of 4
        for n_, (xr, cr, tr, br) in enumerate(rs):
            if not any(cq == cr and xq == xr for xq, cq, tq, bq in qs):
                e = xr.add(Lin.sym(("qi", n_)), -cr).add(tr, -1)
                out += [e, e.scale(-1)]
        self._and_facts = out
        return out

    def field_invariants(self):
        """offset -> (lo, hi) for each state parameter, from INVARIANTS through the DWARF layouts"""
        out = {}

        def walk(tname, base, acc, depth=0):
            if depth > 5 or not tname:
                return
            priv = tname[:-2] + "_p_t" if tname.endswith("_t") and not tname.endswith("_p_t") else None
            c = self.mod.composites.get(priv) if priv and priv in self.mod.composites else self.mod.composites.get(tname)
            if c is None:
                return
            for m in c["members"]:
                if (c["name"], m["name"]) in INVARIANTS:
                    acc[base + m["offset"]] = (m["size"], INVARIANTS[(c["name"], m["name"])])
                if m["kind"] == "struct":
                    walk(m["type"], base + m["offset"], acc, depth + 1)
        for i, p in enumerate(self.f.params):
            if p["di"]["ptr"] and p["di"]["pointee"].endswith("_state_t"):
                acc = {}
                walk(p["di"]["pointee"], 0, acc)
                if acc:
                    out[i] = acc
        return out

    def nonneg_syms(self, lin):
        """all symbols are unsigned quantities (lengths, iteration counters, zero-extended loads)"""
        return True

    def prove_nonneg(self, R, block):
        """R >= 0 ?  True / None"""
        if self._trivially_nonneg(R):
            return True
        facts = [self._apply_substs(g) for g in self.ineqs_at(block)] + [self._apply_substs(g) for g in getattr(self, "_extra", [])]
        eqs = [self._apply_substs(e) for e in self.A.facts_at(block)]
        # apply equalities by elimination
        for e in eqs:
            for s in e.syms():
                if s in R and e[s] in (1, -1):
                    R2 = R.add(e, -R[s] // e[s] if e[s] != 0 else 0) if False else R.add(e.scale(-R[s] * e[s]))
                    if self._trivially_nonneg(R2):
                        return True
        # single and pairwise facts (multipliers: small ones and the coefficient magnitudes that occur in R, e.g. the block size)
        lams = sorted({1, 2, 3, 4} | {abs(c_) for c_ in R.values() if 0 < abs(c_) <= 4096})
        for g in facts:
            for lam in lams:
                if self._trivially_nonneg(R.add(g, -lam)):
                    return True
        for i, g in enumerate(facts):
            for h in facts[i + 1:]:
                if self._trivially_nonneg(R.add(g, -1).add(h, -1)):
                    return True
        # one fact scaled by a coefficient that occurs in R (an element size: index < count, scaled by 4) plus one plain fact (4*count <= length)
        mult = [l_ for l_ in lams if l_ > 1]
        for i, g in enumerate(facts):
            for lg in mult:
                Rg = R.add(g, -lg)
                for j, h in enumerate(facts):
                    if i != j and self._trivially_nonneg(Rg.add(h, -1)):
                        return True
        # equalities among the facts (g and -g both present, e.g. x == c*Q + x%c) eliminate a symbol from the goal and from the other
        # facts before the combinations below are tried: one step less to find for each of them
        reprs = {repr(g) for g in facts}
        for g in list(facts):
            if repr(g.scale(-1)) in reprs:
                tgt_ = [s_ for s_, c_ in g.items() if s_ != 1 and c_ in (1, -1) and s_ in R]
                if not tgt_:
                    continue
                s_ = tgt_[0]
                # s_ = -(g - c*s_)/c
                def _elim(L_):
                    k_ = L_.get(s_, 0)
                    return L_.add(g.scale(-k_ * g[s_])) if k_ else L_
                R_e = _elim(R)
                if R_e is not R and s_ not in R_e:
                    facts_e = [_elim(h) for h in facts if repr(h) not in (repr(g), repr(g.scale(-1)))]
                    if self._prove_with(R_e, facts_e, eqs):
                        return True
        return self._prove_with(R, facts, eqs, tail_only=True)

    def _prove_with(self, R, facts, eqs, tail_only=False):
        """the combination search of prove_nonneg on an explicit list of facts (tail_only: the cheap first steps were already tried)"""
        if not tail_only:
            if self._trivially_nonneg(R):
                return True
            lams0 = sorted({1, 2, 3, 4} | {abs(c_) for c_ in R.values() if 0 < abs(c_) <= 4096})
            for g in facts:
                for lam in lams0:
                    if self._trivially_nonneg(R.add(g, -lam)):
                        return True
            for i, g in enumerate(facts):
                for h in facts[i + 1:]:
                    if self._trivially_nonneg(R.add(g, -1).add(h, -1)):
                        return True
        lams = sorted({1, 2, 3, 4} | {abs(c_) for c_ in R.values() if 0 < abs(c_) <= 4096})
        mult = [l_ for l_ in lams if l_ > 1]
        if not tail_only:
            for i, g in enumerate(facts):
                for lg in mult:
                    Rg = R.add(g, -lg)
                    for j, h in enumerate(facts):
                        if i != j and self._trivially_nonneg(Rg.add(h, -1)):
                            return True
        # integer rounding: a fact (or the sum of two) whose symbol terms are all multiples of d says more than its constant shows:
        # 30 - 4k >= 0 means 28 - 4k >= 0 (4k < len and len <= 31 give 4k <= 28, the last whole word below a 32-byte buffer)
        def _rounded(F):
            d_ = self._term_gcd(F)
            if d_ > 1 and F.get(1, 0) % d_:
                F2 = Lin(F)
                F2[1] = (F.get(1, 0) // d_) * d_
                if not F2[1]:
                    del F2[1]
                return F2
            return None
        if len(facts) <= 60:
            # (symbols pinned to a constant by an equality - a switch case, a residue - are replaced first: they hide the common divisor)
            pin = {}
            for e in eqs:
                ss = [s_ for s_ in e if s_ != 1]
                if len(ss) == 1 and e[ss[0]] in (1, -1):
                    pin[ss[0]] = -e.get(1, 0) * e[ss[0]]

            def _pinned(L_):
                if not any(s_ in pin for s_ in L_):
                    return L_
                r_ = Lin()
                for s_, c_ in L_.items():
                    r_ = r_.add(Lin.const(pin[s_] * c_) if s_ in pin else Lin({s_: c_}))
                return r_
            Rp = _pinned(R)
            fp = [_pinned(g) for g in facts]
            for i, g in enumerate(fp):
                for h in [None] + fp[i + 1:]:
                    F = g if h is None else g.add(h)
                    F2 = _rounded(F)
                    if F2 is None:
                        continue
                    R2 = Rp.add(F2, -1)
                    if self._trivially_nonneg(R2) or any(self._trivially_nonneg(R2.add(h2, -1)) for h2 in fp):
                        return True
        # ... plus two plain facts (block index < block count scaled by the block size, count*size <= length, byte index < size)
        if len(facts) <= 60:
            for i, g in enumerate(facts):
                for lg in mult:
                    Rg = R.add(g, -lg)
                    neg = {s_ for s_, c_ in Rg.items() if c_ < 0}
                    for j, h in enumerate(facts):
                        if i == j or not any(h.get(s_, 0) < 0 for s_ in neg):
                            continue        # h must cancel something negative
                        Rh = Rg.add(h, -1)
                        for k_, h2 in enumerate(facts):
                            if k_ > j and k_ != i and self._trivially_nonneg(Rh.add(h2, -1)):
                                return True
        return None

    def _apply_substs(self, lin):
        """rewrite a fact with the merge phis replaced by the incoming values of the case being checked"""
        f, A = self.f, self.A
        for (blk, pb) in getattr(self, "_substs", []):
            for iid in f.blocks[blk].insts:
                P = f.insts[iid]
                if P.op != "phi":
                    break
                key = ("i", P.id)
                if key in lin and not (P.get("scev") or {}).get("k") == "rec":
                    inc = [tuple(x[0]) for x in P.get("inc") if x[1] == pb]
                    if inc:
                        r = Lin(lin)
                        c = r.pop(key)
                        lin = r.add(A.value(inc[0]), c)
        return lin

    def prove_nonneg_cases(self, lin, block):
        """lin >= 0 at block, with consistent case splits on merge phis"""
        for (fs, ex) in self.split_forms([lin]):
            self._substs = [(e[1], e[2]) for e in ex if isinstance(e, tuple) and e and e[0] == "subst"]
            self._extra = [e for e in ex if not (isinstance(e, tuple) and e and e[0] == "subst")]
            try:
                if self.prove_nonneg(Lin.const(-1), block):
                    continue
                if not self.prove_nonneg(fs[0], block):
                    return False
            finally:
                self._substs, self._extra = [], []
        return True

    def _trivially_nonneg(self, R):
        """constant >= 0 and every symbol coefficient >= 0 (all symbols are unsigned quantities)"""
        for s, c in R.items():
            if c < 0:
                return False
        return True

    # -- accesses ---------------------------------------------------------------------
    def split_forms(self, forms, depth=0, decided=None):
        """consistent case split of several affine forms on the merge phis they mention: all phis of one block
        take their incoming values from the SAME predecessor edge (also when the block shows up again after a
        later substitution).  Yields (forms, extra inequality facts + ("subst", block, pred) markers)."""
        f, A = self.f, self.A
        decided = dict(decided or {})
        target = None
        for lin in forms:
            for s_ in lin.syms():
                if s_[0] == "i":
                    P = f.insts[s_[1]]
                    if P.op == "phi" and not (P.get("scev") or {}).get("k") == "rec" and (f.loop_of(P.b) is None or self._head_splittable(P.b)):
                        target = P.b
                        break
            if target is not None:
                break
        if target is None or depth >= 8:
            return [(forms, [])]
        out = []
        phis = [f.insts[i] for i in f.blocks[target].insts if f.insts[i].op == "phi"]
        preds = [decided[target]] if target in decided else list(f.blocks[target].preds)
        L_t = f.loop_of(target)
        for pb in preds:
            extra = []
            if target not in decided and L_t is not None and pb in L_t["blocks"]:
                # coming round the loop: the conditions on this edge speak about the previous visit's values - only the substitution is used
                extra.append(("subst", target, pb))
            elif target not in decided:
                for e in A.facts_on_edge(pb, target):
                    extra += [e, e.scale(-1)]
                extra += self._ineqs_from(ir.conditions_on_edge(f, pb, target))
                extra.append(("subst", target, pb))
            newforms = []
            for lin in forms:
                sub = Lin(lin)
                for P in phis:
                    key = ("i", P.id)
                    if key in sub and not (P.get("scev") or {}).get("k") == "rec":
                        c = sub.pop(key)
                        inc = [tuple(x[0]) for x in P.get("inc") if x[1] == pb]
                        if not inc:
                            continue
                        sub = sub.add(A.value(inc[0]), c)
                newforms.append(sub)
            d2 = dict(decided)
            d2[target] = pb
            for (f2, ex2) in self.split_forms(newforms, depth + 1, d2):
                out.append((f2, extra + ex2))
        return out

    def _head_splittable(self, hb):
        """a loop head whose merge values (other than affine recurrences) are loop-invariant on the back edges (a pointer that is `first` on entry
        and `other` afterwards): the last visit came either from outside or round the loop, and in both cases the incoming values say what
        the phis hold - no value of a previous visit is involved"""
        f, A = self.f, self.A
        L = f.loop_of(hb)
        if L is None:
            return False
        own = set()
        for iid in f.blocks[hb].insts:
            P = f.insts[iid]
            if P.op != "phi":
                break
            own.add(("i", P.id))
        for t in own:
            P = f.inst(t)
            if (P.get("scev") or {}).get("k") == "rec":
                continue
            for inc, pb in P.get("inc"):
                if pb in L["blocks"]:
                    inc = tuple(inc)
                    # the value coming round must be computed outside the loop (a merge inside the loop of "old value + 4" and 0 refers
                    # to the previous visit's value under the same name: substituting it would count the same step again and again)
                    J = f.inst(inc)
                    if J is not None and J.b in L["blocks"]:
                        return False
                    v = A.value(inc)
                    if any(u in own or (isinstance(u, tuple) and u[0] == "k" and u[1] == hb) or (isinstance(u, tuple) and u[0] == "i" and f.inst(u) is not None and f.inst(u).b in L["blocks"]) for u in v):
                        return False
        return True

    def _ineqs_from(self, conds):
        save = None
        A, f = self.A, self.f
        out = []
        for c, truth in conds:
            C = f.inst(c)
            if C is None or C.op != "icmp":
                continue
            pred = C.get("pred")
            a, b = A.value(C.ops[0]), A.value(C.ops[1])
            if not truth:
                pred = {"eq": "ne", "ne": "eq", "ult": "uge", "uge": "ult", "ugt": "ule", "ule": "ugt", "slt": "sge", "sge": "slt", "sgt": "sle", "sle": "sgt"}.get(pred)
            if pred in ("uge", "sge"):
                out.append(a.add(b, -1))
            elif pred in ("ugt", "sgt"):
                out.append(a.add(b, -1).add(Lin.const(-1)))
            elif pred in ("ule", "sle"):
                out.append(b.add(a, -1))
            elif pred in ("ult", "slt"):
                out.append(b.add(a, -1).add(Lin.const(-1)))
            elif pred == "eq":
                out += [a.add(b, -1), b.add(a, -1)]
        return out

    def check_range(self, I, ptr, nlin, what):
        """object range check of [ptr, ptr+n), case-splitting non-recurrence phis in the address and the length"""
        A = self.A
        total = A.value(ptr)
        # combine address and length so that both are split consistently: use a marker symbol for the length part
        cases = []
        for (fs, ex) in self.split_forms([total, nlin]):
            cases.append((fs[0], fs[1], ex))
        verdicts = []
        for (l1, n1, extra) in cases:
            verdicts.append(self._check_case(I, l1, n1, what, extra))
        if any(v[0] == "unknown" for v in verdicts) and not any(v[0] == "refuted" for v in verdicts):
            # second attempt: also split the merge phis that only occur in the dominating comparisons (a bound such as
            # i < n where n is a merge of two bounded values)
            syms = set(total.syms()) | set(nlin.syms())
            allf = self.ineqs_at(I.b)
            rel = []
            for _round in range(3):            # facts connected to the access through shared symbols (a quotient, then the value it divides ...)
                more = [g for g in allf if g not in rel and set(g.syms()) & syms]
                if not more:
                    break
                rel += more
                for g in more:
                    syms |= set(g.syms())
            rel = rel[:24]
            if rel:
                cases2 = [(fs[0], fs[1], ex) for (fs, ex) in self.split_forms([total, nlin] + rel)]
                if len(cases2) > len(cases):
                    v2 = [self._check_case(I, l1, n1, what, extra) for (l1, n1, extra) in cases2]
                    if all(v[0] == "proven" for v in v2):
                        verdicts = v2
        if all(v[0] == "proven" for v in verdicts):
            self.results.append((I, what, "proven", verdicts[0][1] + (" (%d cases)" % len(verdicts) if len(verdicts) > 1 else "")))
        elif any(v[0] == "refuted" for v in verdicts):
            self.results.append((I, what, "refuted", [v[1] for v in verdicts if v[0] == "refuted"][0]))
        else:
            self.results.append((I, what, "unknown", [v[1] for v in verdicts if v[0] == "unknown"][0]))

    def _check_case(self, I, lin, nlin, what, extra):
        f, A = self.f, self.A
        self._substs = [(e[1], e[2]) for e in extra if isinstance(e, tuple) and e and e[0] == "subst"]
        extra = [e for e in extra if not (isinstance(e, tuple) and e and e[0] == "subst")]
        self._extra = extra
        try:
            return self._check_case2(I, lin, nlin, what)
        finally:
            self._extra = []

    def _check_case2(self, I, lin, nlin, what):
        f, A = self.f, self.A
        if self.prove_nonneg(Lin.const(-1), I.b):
            return ("proven", "case infeasible (its conditions are contradictory)")
        base, off = self.base_and_offset(lin)
        if base is None:
            return ("unknown", ("address is not object + affine offset (%s)" % A.names(lin)))
        S = self.obj_size(base)
        if S is None:
            return ("unknown", ("no size contract for %s" % self._bname(base)))
        lo_ok = self.prove_nonneg(off, I.b)
        R = S.add(off, -1).add(nlin, -1)
        hi_ok = self.prove_nonneg(R, I.b)
        if lo_ok and hi_ok:
            return ("proven", ("%s + [%s, +%s) within %s" % (self._bname(base), A.names(off), A.names(nlin), A.names(S))))
        # refutation: the access is beyond the object on every execution reaching it
        over = R.scale(-1).add(Lin.const(-1))
        if self.prove_nonneg(over, I.b):
            return ("refuted", ("%s: offset %s + %s bytes exceeds the object size %s by at least 1 on every execution reaching this access"
                                 % (self._bname(base), A.names(off), A.names(nlin), A.names(S))))
        under = off.scale(-1).add(Lin.const(-1))
        if not lo_ok and self.prove_nonneg(under, I.b):
            return ("refuted", ("%s: negative offset %s" % (self._bname(base), A.names(off))))
        return ("unknown", ("%s: cannot show 0 <= %s and %s + %s <= %s" % (self._bname(base), A.names(off), A.names(off), A.names(nlin), A.names(S))))

    def _bname(self, base):
        f = self.f
        if base[0] == "a":
            return "*" + f.params[base[1]]["name"]
        if base[0] == "g":
            return "global " + str(base[1])
        return "local " + (f.locals.get(base[1]) or f.insts[base[1]].get("name") or ("#%d" % base[1]))

    def run(self):
        f, A = self.f, self.A
        for I in f.insts:
            if I.op == "load":
                self.check_range(I, I.ops[0], Lin.const(I.get("size")), "load")
            elif I.op == "store":
                self.check_range(I, I.ops[1], Lin.const(I.get("size")), "store")
            elif I.op == "call" and not I.is_dbg() and not I.is_lifetime():
                intr = I.get("intrinsic") or ""
                args = I.call_args()
                if intr.startswith("llvm.memcpy") or intr.startswith("llvm.memmove"):
                    n = A.value(args[2])
                    self.check_range(I, args[0], n, "memcpy-dst")
                    self.check_range(I, args[1], n, "memcpy-src")
                elif intr.startswith("llvm.memset"):
                    self.check_range(I, args[0], A.value(args[2]), "memset-dst")
                elif I.callee in self.mod.fns:
                    g = self.mod.fns[I.callee]
                    argvals = [A.value(a) for a in args]
                    for i, p in enumerate(g.params):
                        if i >= len(args) or not p["ty"].endswith("*"):
                            continue
                        if ir.is_null(args[i]):
                            continue
                        need = self.param_size(g, i, argvals)
                        if need is None:
                            continue
                        self.check_range(I, args[i], need, "call %s(%s)" % (g.name, p["name"]))
                elif I.callee in EXTERNAL:
                    for pi, ln in EXTERNAL[I.callee].items():
                        n = A.value(args[ln[1]]) if ln[0] == "arg" else Lin.const(ln[1])
                        self.check_range(I, args[pi], n, "call %s" % I.callee)
                elif I.callee is None:
                    # entropy callback(user, buf, size)
                    if len(args) >= 3:
                        self.check_range(I, args[1], A.value(args[2]), "callback buffer")
        return self.results
