"""D-ASM: front ends for the five assembly syntaxes (ARM unified incl. Thumb-1,
RISC-V, Xtensa, AVR) into one generic instruction form, and a symbolic machine
that evaluates one loop iteration in the D-GF2 bit-provenance domain.

Nothing is executed and no loop is unrolled: the function is followed from its
entry with symbolic state words / key words / round counter; every conditional
branch forks; a path ends at a return or when it takes the back edge.  Since
the values at the loop head are fully symbolic, the iteration evaluated is the
generic one (premises checked by the rules: key/base/stack registers invariant
at the back edge, nothing else live into the loop).
"""
import re
from .build import Broken
from . import gf2


class Ins:
    __slots__ = ("op", "a", "line", "text", "setflags")

    def __init__(self, op, a, line, text, setflags=False):
        self.op, self.a, self.line, self.text, self.setflags = op, a, line, text, setflags

    def __repr__(self):
        return "%s %s  ; %d: %s" % (self.op, self.a, self.line, self.text)


def _imm(s):
    s = s.strip().lstrip("#")
    return int(s, 0)


# ---------------------------------------------------------------------------
# front ends: return (list of Ins, labels dict name -> index, entry label)

def split_lines(lines):
    """lines: [(file, lineno, text)] -> [(lineno, label or None, mnemonic or None, operand string)]"""
    out = []
    for fl, ln, t in lines:
        t = t.split("//")[0].strip()
        if not t or t.startswith((".L__stack_usage",)):
            continue
        while True:
            m = re.match(r"^([A-Za-z_.$0-9]+):\s*(.*)$", t)
            if not m:
                break
            out.append((ln, m.group(1), None, None))
            t = m.group(2).strip()
        if not t:
            continue
        if t.startswith("."):
            out.append((ln, None, t.split()[0], t[len(t.split()[0]):].strip()))
            continue
        parts = t.split(None, 1)
        out.append((ln, None, parts[0].lower(), parts[1].strip() if len(parts) > 1 else ""))
    return out


def _ops(s):
    """split operands at top-level commas (not inside [] or {})"""
    out, depth, cur = [], 0, ""
    for ch in s:
        if ch in "[{(":
            depth += 1
        elif ch in "]})":
            depth -= 1
        if ch == "," and depth == 0:
            out.append(cur.strip())
            cur = ""
        else:
            cur += ch
    if cur.strip():
        out.append(cur.strip())
    return out


ARM_ALIAS = {"ip": "r12", "sp": "r13", "lr": "r14", "pc": "r15", "fp": "r11", "sl": "r10", "sb": "r9"}


def _areg(r):
    r = r.strip().lower()
    r = ARM_ALIAS.get(r, r)
    if not re.match(r"^r(\d|1[0-5])$", r):
        raise Broken("ARM: unknown register '%s'" % r)
    return r


def parse_arm(lines):
    ins, labels = [], {}
    for ln, lab, mn, ops in split_lines(lines):
        if lab:
            labels[lab] = len(ins)
            continue
        if mn.startswith("."):
            continue
        o = _ops(ops)
        text = mn + " " + ops
        sf = False
        base = mn
        if mn in ("eors", "ands", "lsrs", "lsls", "subs", "orrs", "movs", "adds"):
            sf = True
            base = mn[:-1]
        if base in ("push", "pop"):
            regs = [_areg(x) for x in ops.strip("{} ").split(",")]
            ins.append(Ins(base, regs, ln, text))
        elif base in ("ldr", "str"):
            m = re.match(r"^\[\s*(\w+)\s*(?:,\s*#?(-?\w+))?\s*\]$", o[1])
            if not m:
                raise Broken("ARM: unsupported addressing '%s' (line %d)" % (text, ln))
            ins.append(Ins("load" if base == "ldr" else "store", (_areg(o[0]), _areg(m.group(1)), _imm(m.group(2) or "0"), 4), ln, text))
        elif base in ("eor", "and", "orr"):
            op = {"eor": "xor", "and": "and", "orr": "or"}[base]
            if len(o) == 2:
                rd, rn, rm, sh = o[0], o[0], o[1], None
            elif len(o) == 3 and not re.match(r"^(lsl|lsr|asr|ror)\b", o[2].lower()):
                rd, rn, rm, sh = o[0], o[1], o[2], None
            elif len(o) == 3:
                rd, rn, rm, sh = o[0], o[0], o[1], o[2]
            else:
                rd, rn, rm, sh = o[0], o[1], o[2], o[3]
            shift = None
            if sh:
                m = re.match(r"^(lsl|lsr)\s+#(\d+)$", sh.lower())
                if not m:
                    raise Broken("ARM: unsupported shifted operand '%s' (line %d)" % (text, ln))
                shift = (m.group(1), int(m.group(2)))
            ins.append(Ins(op, (_areg(rd), _areg(rn), _areg(rm), shift), ln, text, sf))
        elif base in ("lsr", "lsl"):
            if len(o) == 2:
                rd, rm, n = o[0], o[0], o[1]
            else:
                rd, rm, n = o
            ins.append(Ins("shr" if base == "lsr" else "shl", (_areg(rd), _areg(rm), _imm(n)), ln, text, sf))
        elif base == "mov":
            if o[1].startswith("#"):
                raise Broken("ARM: mov immediate unsupported (line %d)" % ln)
            ins.append(Ins("mov", (_areg(o[0]), _areg(o[1])), ln, text, sf))
        elif base in ("sub", "add"):
            rd, rn, n = (o[0], o[0], o[1]) if len(o) == 2 else o
            k = _imm(n)
            ins.append(Ins("addi", (_areg(rd), _areg(rn), -k if base == "sub" else k), ln, text, sf))
        elif mn in ("bne", "beq"):
            ins.append(Ins("brflag", ("ne" if mn == "bne" else "eq", o[0]), ln, text))
        elif mn == "b":
            ins.append(Ins("jmp", (o[0],), ln, text))
        elif mn == "bx":
            ins.append(Ins("ret", (_areg(o[0]),), ln, text))
        else:
            raise Broken("ARM: unknown mnemonic '%s' (line %d)" % (mn, ln))
    return ins, labels


RV_ABI = {"zero": "x0", "ra": "x1", "sp": "x2", "gp": "x3", "tp": "x4", "t0": "x5", "t1": "x6", "t2": "x7", "s0": "x8", "fp": "x8", "s1": "x9"}
for _i in range(8):
    RV_ABI["a%d" % _i] = "x%d" % (10 + _i)
for _i in range(2, 12):
    RV_ABI["s%d" % _i] = "x%d" % (16 + _i)
for _i in range(3, 7):
    RV_ABI["t%d" % _i] = "x%d" % (25 + _i)


def _rvreg(r):
    r = r.strip().lower()
    r = RV_ABI.get(r, r)
    if not re.match(r"^x([0-9]|[12][0-9]|3[01])$", r):
        raise Broken("RISC-V: unknown register '%s'" % r)
    return r


def parse_riscv(lines):
    ins, labels = [], {}
    for ln, lab, mn, ops in split_lines(lines):
        if lab:
            labels[lab] = len(ins)
            continue
        if mn.startswith("."):
            continue
        o = _ops(ops)
        text = mn + " " + ops
        if mn in ("lw", "sw", "ld", "sd"):
            m = re.match(r"^(-?\w*)\((\w+)\)$", o[1].replace(" ", ""))
            if not m:
                raise Broken("RISC-V: unsupported addressing '%s' (line %d)" % (text, ln))
            off = _imm(m.group(1)) if m.group(1) else 0
            w = 4 if mn in ("lw", "sw") else 8
            ins.append(Ins("load" if mn[0] == "l" else "store", (_rvreg(o[0]), _rvreg(m.group(2)), off, w), ln, text))
        elif mn in ("xor", "and", "or"):
            ins.append(Ins(mn, (_rvreg(o[0]), _rvreg(o[1]), _rvreg(o[2]), None), ln, text))
        elif mn in ("srli", "slli", "srliw", "slliw"):
            # (RV64: the w forms work on the low 32 bits and sign-extend the result; the plain forms shift all 64 bits)
            ins.append(Ins("shr" if mn.startswith("srl") else "shl", (_rvreg(o[0]), _rvreg(o[1]), _imm(o[2]), mn.endswith("w")), ln, text))
        elif mn == "addi":
            ins.append(Ins("addi", (_rvreg(o[0]), _rvreg(o[1]), _imm(o[2])), ln, text))
        elif mn == "mv":
            ins.append(Ins("mov", (_rvreg(o[0]), _rvreg(o[1])), ln, text))
        elif mn in ("beq", "bne"):
            ins.append(Ins("brcmp", (mn[1:], _rvreg(o[0]), _rvreg(o[1]), o[2]), ln, text))
        elif mn in ("beqz", "bnez"):
            ins.append(Ins("brcmp", (mn[1:3], _rvreg(o[0]), "x0", o[1]), ln, text))
        elif mn == "j":
            ins.append(Ins("jmp", (o[0],), ln, text))
        elif mn == "ret":
            ins.append(Ins("ret", ("x1",), ln, text))
        else:
            raise Broken("RISC-V: unknown mnemonic '%s' (line %d)" % (mn, ln))
    return ins, labels


def _xreg(r):
    r = r.strip().lower()
    if r == "sp":
        r = "a1"
    if not re.match(r"^a([0-9]|1[0-5])$", r):
        raise Broken("Xtensa: unknown register '%s'" % r)
    return r


def parse_xtensa(lines):
    ins, labels = [], {}
    for ln, lab, mn, ops in split_lines(lines):
        if lab:
            labels[lab] = len(ins)
            continue
        if mn.startswith("."):
            continue
        o = _ops(ops)
        text = mn + " " + ops
        if mn == "entry":
            ins.append(Ins("entry", (_xreg(o[0]), _imm(o[1])), ln, text))
        elif mn in ("l32i.n", "l32i", "s32i.n", "s32i"):
            ins.append(Ins("load" if mn[0] == "l" else "store", (_xreg(o[0]), _xreg(o[1]), _imm(o[2]), 4), ln, text))
        elif mn in ("xor", "and", "or"):
            ins.append(Ins(mn, (_xreg(o[0]), _xreg(o[1]), _xreg(o[2]), None), ln, text))
        elif mn == "ssai":
            ins.append(Ins("ssai", (_imm(o[0]),), ln, text))
        elif mn == "src":
            ins.append(Ins("src", (_xreg(o[0]), _xreg(o[1]), _xreg(o[2])), ln, text))
        elif mn in ("addi", "addi.n"):
            ins.append(Ins("addi", (_xreg(o[0]), _xreg(o[1]), _imm(o[2])), ln, text))
        elif mn in ("mov.n", "mov"):
            ins.append(Ins("mov", (_xreg(o[0]), _xreg(o[1])), ln, text))
        elif mn in ("bnei", "beqi"):
            ins.append(Ins("brimm", (mn[1:3], _xreg(o[0]), _imm(o[1]), o[2]), ln, text))
        elif mn in ("bnez", "beqz", "bnez.n", "beqz.n"):
            ins.append(Ins("brimm", (mn[1:3], _xreg(o[0]), 0, o[1]), ln, text))
        elif mn in ("j",):
            ins.append(Ins("jmp", (o[0],), ln, text))
        elif mn in ("ret.n", "ret"):
            ins.append(Ins("ret", ("a0",), ln, text))
        elif mn in ("retw.n", "retw"):
            ins.append(Ins("retw", (), ln, text))
        else:
            raise Broken("Xtensa: unknown mnemonic '%s' (line %d)" % (mn, ln))
    return ins, labels


def _vreg(r):
    r = r.strip().lower()
    if not re.match(r"^r([0-9]|[12][0-9]|3[01])$", r):
        raise Broken("AVR: unknown register '%s'" % r)
    return r


def parse_avr(lines):
    ins, labels = [], {}
    numeric = {}  # numeric local labels: name -> list of indices
    for ln, lab, mn, ops in split_lines(lines):
        if lab:
            if lab.isdigit():
                numeric.setdefault(lab, []).append(len(ins))
            else:
                labels[lab] = len(ins)
            continue
        if mn.startswith("."):
            continue
        o = _ops(ops)
        text = mn + " " + ops
        if mn in ("push", "pop"):
            ins.append(Ins(mn, [_vreg(o[0])], ln, text))
        elif mn == "movw":
            d, s = int(_vreg(o[0])[1:]), int(_vreg(o[1])[1:])
            ins.append(Ins("movw", ("r%d" % d, "r%d" % (d + 1), "r%d" % s, "r%d" % (s + 1)), ln, text))
        elif mn == "mov":
            ins.append(Ins("mov", (_vreg(o[0]), _vreg(o[1])), ln, text))
        elif mn in ("ld", "ldd"):
            m = re.match(r"^z(?:\+(\d+))?$", o[1].replace(" ", "").lower())
            if not m:
                raise Broken("AVR: unsupported addressing '%s' (line %d)" % (text, ln))
            ins.append(Ins("load", (_vreg(o[0]), "Z", int(m.group(1) or 0), 1), ln, text))
        elif mn in ("st", "std"):
            m = re.match(r"^z(?:\+(\d+))?$", o[0].replace(" ", "").lower())
            if not m:
                raise Broken("AVR: unsupported addressing '%s' (line %d)" % (text, ln))
            ins.append(Ins("store", (_vreg(o[1]), "Z", int(m.group(1) or 0), 1), ln, text))
        elif mn in ("eor", "and", "or"):
            ins.append(Ins({"eor": "xor"}.get(mn, mn), (_vreg(o[0]), _vreg(o[0]), _vreg(o[1]), None), ln, text, True))
        elif mn in ("lsl", "lsr", "rol", "ror"):
            ins.append(Ins("avr_" + mn, (_vreg(o[0]),), ln, text, True))
        elif mn == "dec":
            ins.append(Ins("addi", (_vreg(o[0]), _vreg(o[0]), -1), ln, text, True))
        elif mn in ("brne", "breq"):
            ins.append(Ins("brflag", ("ne" if mn == "brne" else "eq", o[0]), ln, text))
        elif mn == "rjmp":
            ins.append(Ins("jmp", (o[0],), ln, text))
        elif mn == "ret":
            ins.append(Ins("ret_stack", (), ln, text))
        else:
            raise Broken("AVR: unknown mnemonic '%s' (line %d)" % (mn, ln))
    # resolve numeric labels Nf / Nb per use site
    for idx, I in enumerate(ins):
        if I.op in ("brflag", "jmp"):
            t = I.a[-1]
            m = re.match(r"^(\d+)([fb])$", t)
            if m:
                cands = numeric.get(m.group(1), [])
                if m.group(2) == "f":
                    c = [x for x in cands if x > idx]
                    tgt = min(c) if c else None
                else:
                    c = [x for x in cands if x <= idx]
                    tgt = max(c) if c else None
                if tgt is None:
                    raise Broken("AVR: unresolved local label %s (line %d)" % (t, I.line))
                name = "%s@%d" % (m.group(1), tgt)
                labels[name] = tgt
                I.a = tuple(list(I.a[:-1]) + [name])
    return ins, labels


PARSERS = {"arm": parse_arm, "thumb1": parse_arm, "riscv": parse_riscv, "xtensa": parse_xtensa, "avr": parse_avr}

# ---------------------------------------------------------------------------
# ABI tables (abi.json of the design, kept here): callee-saved registers, args, sp, return

ABI = {
    "arm": {"args": ("r0", "r1"), "sp": "r13", "callee": ["r4", "r5", "r6", "r7", "r8", "r9", "r10", "r11"], "ra": "r14", "width": 32},
    "thumb1": {"args": ("r0", "r1"), "sp": "r13", "callee": ["r4", "r5", "r6", "r7", "r8", "r9", "r10", "r11"], "ra": "r14", "width": 32},
    "riscv": {"args": ("x10", "x11"), "sp": "x2", "callee": ["x8", "x9"] + ["x%d" % i for i in range(18, 28)], "ra": "x1", "width": 32,
              "fixed": ["x3", "x4"]},
    "xtensa": {"args": ("a2", "a3"), "sp": "a1", "callee": ["a12", "a13", "a14", "a15"], "ra": "a0", "width": 32},
    "avr": {"args": None, "sp": "SP", "callee": ["r%d" % i for i in range(2, 18)] + ["r28", "r29"], "ra": None, "width": 8, "fixed": ["r1"]},
}


# ---------------------------------------------------------------------------
# symbolic machine

class Lin:
    """symbol + constant (pointers, counters, untouched entry values)"""
    __slots__ = ("sym", "off")

    def __init__(self, sym, off=0):
        self.sym, self.off = sym, off

    def __eq__(self, o):
        return isinstance(o, Lin) and self.sym == o.sym and self.off == o.off

    def __hash__(self):
        return hash((self.sym, self.off))

    def __repr__(self):
        return "%s%+d" % (self.sym, self.off) if self.off else "%s" % (self.sym,)


def topword(w):
    return [gf2.TOP] * w


class Path:
    def __init__(self):
        self.regs = {}
        self.mem = {}
        self.flags = None
        self.carry = gf2.TOP
        self.sar = None
        self.events = []      # stores / loads / branches taken with conditions
        self.end = None
        self.trace = []       # instruction indices of taken branches
        self.reads_head = set()
        self.written = set()
        self.sp_min = 0
        self.n_ins = 0
        self.problems = []
        self.hi = {}          # RV64 only: register -> explicit bits 32..63 when they are NOT the sign extension of bit 31 (absent = canonical)

    def clone(self):
        p = Path()
        p.regs = dict(self.regs)
        p.hi = dict(self.hi)
        p.mem = dict(self.mem)
        p.flags, p.carry, p.sar = self.flags, self.carry, self.sar
        p.events = list(self.events)
        p.trace = list(self.trace)
        p.reads_head = set(self.reads_head)
        p.written = set(self.written)
        p.sp_min = self.sp_min
        p.n_ins = self.n_ins
        p.problems = list(self.problems)
        return p


class Machine:
    def __init__(self, family, ins, labels, entry, klen, windowed=False, xlen=32):
        self.xlen = xlen
        self.fam = family
        self.ins = ins
        self.labels = labels
        self.entry = entry
        self.klen = klen
        self.abi = ABI[family]
        self.W = self.abi["width"]
        self.windowed = windowed
        self.paths = []
        self.loop_head = self._find_loop_head()
        self.head_state = None

    def _find_loop_head(self):
        heads = set()
        for idx, I in enumerate(self.ins):
            if I.op in ("brflag", "brcmp", "brimm", "jmp"):
                t = self.labels.get(I.a[-1])
                if t is None:
                    raise Broken("branch to unknown label %s (line %d)" % (I.a[-1], I.line))
                if t <= idx:
                    heads.add(t)
        if len(heads) != 1:
            raise Broken("expected exactly one loop head (backward branch target), found %d" % len(heads))
        return heads.pop()

    # -- initial state -----------------------------------------------------
    def initial(self):
        p = Path()
        abi = self.abi
        if self.fam == "avr":
            for i in range(32):
                p.regs["r%d" % i] = Lin(("entry", "r%d" % i))
            p.regs["r24"] = Lin(("lo", "STATE"))
            p.regs["r25"] = Lin(("hi", "STATE"))
            p.regs["r22"] = Lin("ROUNDS")
            p.regs["r23"] = Lin(("hi", "ROUNDS"))
            p.regs["SP"] = Lin("SP")
        else:
            names = {"arm": ["r%d" % i for i in range(16)], "thumb1": ["r%d" % i for i in range(16)],
                     "riscv": ["x%d" % i for i in range(32)], "xtensa": ["a%d" % i for i in range(16)]}[self.fam]
            for r in names:
                p.regs[r] = Lin(("entry", r))
            p.regs[abi["args"][0]] = Lin("STATE")
            p.regs[abi["args"][1]] = Lin("ROUNDS")
            p.regs[abi["sp"]] = Lin("SP")
            if self.fam == "riscv":
                p.regs["x0"] = Lin("ZERO")
        return p

    # -- memory --------------------------------------------------------------
    def state_word(self, off, width):
        """symbolic initial content of *state at byte offset off"""
        nk = self.klen // 32
        if off < 0 or off + width > 16 + 4 * nk or (width == 4 and off % 4):
            return None
        if width == 4:
            i = off // 4
            return gf2.sym_word("s%d" % i, 32) if i < 4 else gf2.sym_word("k%d" % (i - 4), 32)
        if width == 1:
            i, b = off // 4, off % 4
            w = gf2.sym_word("s%d" % i, 32) if i < 4 else gf2.sym_word("k%d" % (i - 4), 32)
            return w[8 * b: 8 * b + 8]
        return None

    def addr(self, p, base, off):
        if base == "Z":
            lo, hi = p.regs["r30"], p.regs["r31"]
            if isinstance(lo, Lin) and isinstance(hi, Lin) and isinstance(lo.sym, tuple) and isinstance(hi.sym, tuple) \
                    and lo.sym[0] == "lo" and hi.sym[0] == "hi" and lo.sym[1] == hi.sym[1] and lo.off == 0 and hi.off == 0:
                return Lin(lo.sym[1], off)
            return None
        b = p.regs[base]
        if isinstance(b, Lin) and b.sym in ("STATE", "SP"):
            return Lin(b.sym, b.off + off)
        return None

    # -- execution -------------------------------------------------------------
    def rd(self, p, r):
        if r not in p.written:
            p.reads_head.add(r)
        return p.regs[r]

    def rdw(self, p, r):
        v = self.rd(p, r)
        if isinstance(v, Lin):
            if self.fam == "riscv" and r == "x0":
                return gf2.const_word(0, self.W)
            return topword(self.W)
        return v

    def wr(self, p, r, v, hi=None):
        if self.fam == "riscv" and r == "x0":
            return
        p.regs[r] = v
        p.written.add(r)
        # upper register half (RV64): kept only when it differs from the sign extension of the low word
        if hi is not None and not isinstance(v, Lin) and any(h is not v[31] and h != v[31] for h in hi):
            p.hi[r] = list(hi)
        else:
            p.hi.pop(r, None)

    def hiw(self, p, r):
        """bits 32..63 of a register holding data (RV64)"""
        h = p.hi.get(r)
        if h is not None:
            return h
        v = self.rdw(p, r)
        return [v[31]] * 32

    def run(self, max_paths=64, max_ins=200000):
        start = self.labels.get(self.entry)
        if start is None:
            raise Broken("entry label %s not found" % self.entry)
        work = [(start, self.initial(), False)]
        done = []
        while work:
            pc, p, in_loop = work.pop()
            while True:
                if pc >= len(self.ins):
                    p.end = ("fell-off", None)
                    done.append(p)
                    break
                if pc == self.loop_head:
                    if not in_loop:
                        in_loop = True
                        if self.head_state is None:
                            self.head_state = p.clone()
                        p.written = set()
                        p.reads_head = set()
                        p.events.append(("loop-head", pc))
                    else:
                        p.end = ("backedge", pc)
                        done.append(p)
                        break
                I = self.ins[pc]
                p.n_ins += 1
                if p.n_ins > max_ins:
                    raise Broken("symbolic machine: instruction bound exceeded")
                nxt = self.step(p, I, pc)
                if nxt is None:
                    done.append(p)
                    break
                if isinstance(nxt, tuple):
                    # fork: (taken target, fallthrough)
                    t, ft, cond = nxt
                    q = p.clone()
                    q.events.append(("branch", pc, cond, True))
                    q.trace.append((pc, True))
                    p.events.append(("branch", pc, cond, False))
                    p.trace.append((pc, False))
                    if len(done) + len(work) > max_paths:
                        raise Broken("symbolic machine: too many paths")
                    work.append((t, q, in_loop))
                    pc = ft
                    continue
                pc = nxt
        self.paths = done
        return done

    def step(self, p, I, pc):
        op, a = I.op, I.a
        W = self.W
        if op in ("xor", "and", "or"):
            rd, rn, rm, sh = a
            x = self.rdw(p, rn)
            y = self.rdw(p, rm)
            if sh:
                y = gf2.wlshr(y, sh[1]) if sh[0] == "lsr" else gf2.wshl(y, sh[1])
            r = {"xor": gf2.wxor, "and": gf2.wand, "or": gf2.wor}[op](x, y)
            rh = None
            if self.xlen == 64 and (rn in p.hi or rm in p.hi):
                rh = {"xor": gf2.wxor, "and": gf2.wand, "or": gf2.wor}[op](self.hiw(p, rn), self.hiw(p, rm))
            self.wr(p, rd, r, rh)
            if I.setflags:
                p.flags = r
            return pc + 1
        if op in ("shl", "shr"):
            rd, rm, n = a[:3]
            x = self.rdw(p, rm)
            rh = None
            if self.xlen == 64 and not (len(a) > 3 and a[3]):
                # a full-width shift on RV64: the upper half (sign extension of a loaded word, unless changed) takes part
                full = list(x) + list(self.hiw(p, rm))
                full = gf2.wshl(full, n) if op == "shl" else gf2.wlshr(full, n)
                r, rh = full[:32], full[32:]
            else:
                r = gf2.wshl(x, n) if op == "shl" else gf2.wlshr(x, n)
            self.wr(p, rd, r, rh)
            if I.setflags:
                p.flags = r
            return pc + 1
        if op == "mov":
            self.wr(p, a[0], self.rd(p, a[1]), p.hi.get(a[1]))
            if I.setflags:
                p.flags = p.regs[a[0]]
            return pc + 1
        if op == "movw":
            v0, v1 = self.rd(p, a[2]), self.rd(p, a[3])
            self.wr(p, a[0], v0)
            self.wr(p, a[1], v1)
            return pc + 1
        if op == "addi":
            rd, rs, k = a
            v = self.rd(p, rs)
            if isinstance(v, Lin):
                r = Lin(v.sym, v.off + k)
            else:
                r = topword(W)
            self.wr(p, rd, r)
            if rd == self.abi["sp"] and isinstance(r, Lin) and r.sym == "SP":
                p.sp_min = min(p.sp_min, r.off)
            if I.setflags:
                p.flags = r
            return pc + 1
        if op == "entry":
            v = self.rd(p, a[0])
            if isinstance(v, Lin) and v.sym == "SP":
                r = Lin("SP", v.off - a[1])
                self.wr(p, a[0], r)
                p.sp_min = min(p.sp_min, r.off)
                p.events.append(("entry", pc))
            else:
                p.problems.append(("entry on non-stack register", I.line))
            return pc + 1
        if op == "load":
            rd, base, off, w = a
            if base != "Z":
                self.rd(p, base)
            else:
                self.rd(p, "r30")
                self.rd(p, "r31")
            ad = self.addr(p, base, off)
            p.events.append(("load", pc, ad, w))
            if ad is None:
                self.wr(p, rd, topword(W))
                return pc + 1
            key = (ad.sym, ad.off, w)
            if key in p.mem:
                v = p.mem[key]
            elif ad.sym == "STATE":
                v = self.state_word(ad.off, w)
                if v is None:
                    p.problems.append(("load outside the state structure (offset %d, width %d)" % (ad.off, w), I.line))
                    v = topword(8 * w)
            else:
                # overlapping different-width stack slot?
                v = None
                for (s2, o2, w2), val in p.mem.items():
                    if s2 == ad.sym and o2 < ad.off + w and ad.off < o2 + w2:
                        v = topword(W)
                if v is None:
                    v = Lin(("stack-junk", ad.off))
            if not isinstance(v, Lin) and len(v) != W:
                v = (v + [gf2.ZERO] * W)[:W] if len(v) < W else v[:W]
            self.wr(p, rd, v)
            return pc + 1
        if op == "store":
            rs, base, off, w = a
            v = self.rd(p, rs)
            if base != "Z":
                self.rd(p, base)
            ad = self.addr(p, base, off)
            p.events.append(("store", pc, ad, w, v))
            if ad is not None:
                p.mem[(ad.sym, ad.off, w)] = v
            return pc + 1
        if op == "push":
            regs = a
            spn = self.abi["sp"]
            sp = p.regs[spn]
            if not (isinstance(sp, Lin) and sp.sym == "SP"):
                p.problems.append(("push with unknown stack pointer", I.line))
                return pc + 1
            if self.fam == "avr":
                r = regs[0]
                p.mem[("SP", sp.off - 1, 1)] = self.rd(p, r)
                p.events.append(("store", pc, Lin("SP", sp.off - 1), 1, p.regs[r]))
                nsp = Lin("SP", sp.off - 1)
            else:
                order = sorted(regs, key=lambda r: int(r[1:]))
                n = len(order)
                for i, r in enumerate(order):
                    p.mem[("SP", sp.off - 4 * n + 4 * i, 4)] = self.rd(p, r)
                    p.events.append(("store", pc, Lin("SP", sp.off - 4 * n + 4 * i), 4, p.regs[r]))
                nsp = Lin("SP", sp.off - 4 * n)
            p.regs[spn] = nsp
            p.sp_min = min(p.sp_min, nsp.off)
            return pc + 1
        if op == "pop":
            regs = a
            spn = self.abi["sp"]
            sp = p.regs[spn]
            if not (isinstance(sp, Lin) and sp.sym == "SP"):
                p.problems.append(("pop with unknown stack pointer", I.line))
                return pc + 1
            if self.fam == "avr":
                v = p.mem.get(("SP", sp.off, 1), Lin(("stack-junk", sp.off)))
                self.wr(p, regs[0], v)
                p.regs[spn] = Lin("SP", sp.off + 1)
                return pc + 1
            order = sorted(regs, key=lambda r: int(r[1:]))
            ret = None
            for i, r in enumerate(order):
                v = p.mem.get(("SP", sp.off + 4 * i, 4), Lin(("stack-junk", sp.off + 4 * i)))
                if r == "r15":
                    ret = v
                else:
                    self.wr(p, r, v)
            p.regs[spn] = Lin("SP", sp.off + 4 * len(order))
            if ret is not None:
                p.end = ("ret", ret)
                return None
            return pc + 1
        if op == "ssai":
            p.sar = a[0]
            return pc + 1
        if op == "src":
            rd, hi, lo = a
            h, l = self.rdw(p, hi), self.rdw(p, lo)
            if p.sar is None:
                r = topword(W)
            else:
                s = p.sar
                r = (l + h)[s: s + 32]
            self.wr(p, rd, r)
            return pc + 1
        if op in ("avr_lsl", "avr_rol", "avr_lsr", "avr_ror"):
            r = a[0]
            x = self.rdw(p, r)
            if op == "avr_lsl":
                c, y = x[7], [gf2.ZERO] + x[:7]
            elif op == "avr_rol":
                c, y = x[7], [p.carry] + x[:7]
            elif op == "avr_lsr":
                c, y = x[0], x[1:] + [gf2.ZERO]
            else:
                c, y = x[0], x[1:] + [p.carry]
            p.carry = c
            self.wr(p, r, y)
            p.flags = y
            return pc + 1
        if op == "jmp":
            return self.labels[a[0]]
        if op in ("brflag", "brcmp", "brimm"):
            if op == "brflag":
                kind, lab = a
                v = p.flags
                cond = ("flagsZ", kind, v)
            elif op == "brcmp":
                kind, r1, r2, lab = a
                v1, v2 = self.rd(p, r1), self.rd(p, r2)
                cond = ("cmp", kind, v1, v2)
            else:
                kind, r1, imm, lab = a
                v1 = self.rd(p, r1)
                cond = ("cmpi", kind, v1, imm)
            return (self.labels[lab], pc + 1, cond)
        if op == "ret":
            v = self.rd(p, a[0])
            p.end = ("ret", v)
            return None
        if op == "retw":
            p.end = ("retw", None)
            return None
        if op == "ret_stack":
            sp = p.regs["SP"]
            p.end = ("ret", Lin(("entry", "retaddr")) if (isinstance(sp, Lin) and sp.sym == "SP" and sp.off == 0) else Lin(("bad-sp", repr(sp))))
            return None
        raise Broken("symbolic machine: unhandled op %s" % op)


# ---------------------------------------------------------------------------
# specification: bit-serial keyed NLFSR with pre-inverted key words

def spec_rounds(state_words, key_words, nrounds, key_offset_words=0):
    """apply 128*nrounds steps of s[i+128] = s[i]^s[i+47]^(s[i+70]&s[i+85])^s[i+91]^k'[i mod klen]
    (k' = pre-inverted key as stored in the state structure) to four 32-bit symbolic words"""
    b = []
    for w in state_words:
        b.extend(w)
    nk = len(key_words)
    t = 0
    out = b
    for r in range(nrounds):
        for t in range(128):
            kw = key_words[(key_offset_words + 4 * r + t // 32) % nk]
            fb = gf2.bxor(gf2.bxor(gf2.bxor(gf2.bxor(out[0], out[47]), gf2.band(out[70], out[85])), out[91]), kw[t % 32])
            out = out[1:] + [fb]
    return [out[0:32], out[32:64], out[64:96], out[96:128]]
