"""D-DEP: whole-module dependency (taint-label) analysis over the facts.

Forward, SSA-flow-sensitive, memory field-sensitive at byte granularity for
constant offsets (objects = one per pointer parameter of every external
function, one per alloca, one per global), flow-insensitive weak updates.
Context-insensitive across calls (parameter values joined over call sites),
which is a sound over-approximation.  A variable index stays inside the extent
of the innermost enclosing array field it was derived from (C object model;
overflowing a field is C06's business).

Labels are small integers; label sets are Python int bit masks.
"""
from .facts import const_val
from .build import Broken

INF = 1 << 40
PURE_INTRINSICS = ("llvm.fshl", "llvm.fshr", "llvm.bswap", "llvm.umin", "llvm.umax", "llvm.smin", "llvm.smax", "llvm.vector.reduce",
                   "llvm.ctpop", "llvm.ctlz", "llvm.cttz", "llvm.abs", "llvm.usub.sat", "llvm.uadd.sat", "llvm.expect", "llvm.bitreverse")


class AV:
    """abstract value: label mask + points-to set {(obj, off|None, lo, hi)}"""
    __slots__ = ("l", "p")

    def __init__(self, l=0, p=frozenset()):
        self.l = l
        self.p = p

    def join(self, o):
        if o.l | self.l == self.l and (o.p <= self.p or _subsumed(o.p, self.p)):
            return self
        return AV(self.l | o.l, _norm(self.p | o.p))

    def __eq__(self, o):
        return self.l == o.l and self.p == o.p


def _norm(p):
    """drop constant-offset targets subsumed by an unknown-offset target of the same object"""
    unk = {}
    for (o, off, lo, hi) in p:
        if off is None:
            a = unk.get(o)
            unk[o] = (lo, hi) if a is None else (min(a[0], lo), max(a[1], hi))
    if not unk:
        return p
    out = set()
    for (o, off, lo, hi) in p:
        if o in unk:
            continue
        out.add((o, off, lo, hi))
    for o, (lo, hi) in unk.items():
        out.add((o, None, lo, hi))
    return frozenset(out)


def _widen(p, limit):
    """collapse the offsets of any object that has more than `limit` distinct constant offsets"""
    cnt = {}
    for (o, off, lo, hi) in p:
        if off is not None:
            cnt[o] = cnt.get(o, 0) + 1
    big = {o for o, c in cnt.items() if c > limit}
    if not big:
        return None
    return _norm(frozenset((o, None if o in big else off, lo, hi) for (o, off, lo, hi) in p))


def _subsumed(p, q):
    unk = {}
    for (o, off, lo, hi) in q:
        if off is None:
            a = unk.get(o)
            unk[o] = (lo, hi) if a is None else (min(a[0], lo), max(a[1], hi))
    for t in p:
        if t in q:
            continue
        o, off, lo, hi = t
        u = unk.get(o)
        if u is None:
            return False
        if off is None:
            if not (u[0] <= lo and hi <= u[1]):
                return False
        else:
            if not (u[0] <= off < u[1]) and not (u[0] <= lo and hi <= u[1]):
                return False
    return True


EMPTY = AV()


def leaf_layout(mod, tname, base=0, depth=0):
    """leaf field extents [(lo,hi)] of a type by DWARF; public opaque X_state_t maps to private X_state_p_t"""
    if depth > 6 or not tname:
        return None
    priv = tname[:-2] + "_p_t" if tname.endswith("_t") and not tname.endswith("_p_t") else None
    c = mod.composites.get(priv) if priv else None
    if c is None:
        c = mod.composites.get(tname)
    if c is None:
        return None
    out = []
    for m in c["members"]:
        if m["kind"] == "struct":
            sub = leaf_layout(mod, m["type"], base + m["offset"], depth + 1)
            if sub is None:
                out.append((base + m["offset"], base + m["offset"] + m["size"]))
            else:
                out.extend(sub)
        else:
            out.append((base + m["offset"], base + m["offset"] + m["size"]))
    return sorted(out)


class Dep:
    def __init__(self, mod, sources, trusted_out=None, benign_ext=(), extent_limit=4096):
        """sources: list of (function, param name, lo, hi|None, label name) -- pointee bytes [lo,hi) of that
        parameter of that (entry) function carry label; hi None = whole object.
        trusted_out: dict external fn -> list of (ptr arg idx, len arg idx or const) buffers it fills with ENTROPY."""
        self.mod = mod
        self.label_names = []
        self.label_id = {}
        self.mem = {}      # (obj, byte) -> mask
        self.anyw = {}     # obj -> mask (written at unknown offset / whole-object init)
        self.init = {}     # obj -> list of (lo, hi, mask)
        self.vals = {}     # (fn, valref) -> AV
        self.params = {}   # (fn, idx) -> AV
        self.rets = {}     # fn -> AV
        self.sinks = {}    # (fn, inst id, kind) -> mask
        self.callers = {}  # fn -> set of caller fn names
        self.origin = {}   # (kind, key, labelbit) -> description of first cause
        self.trusted_out = trusted_out or {}
        self.benign_ext = set(benign_ext)
        self.foreign_calls = []
        self.extent_limit = extent_limit
        self.work = []
        self.inwork = set()
        self.mem_readers = {}  # obj -> set of fn names that read it
        self.n_steps = 0
        self.layouts = {}
        import re as _re
        for f in mod.fns.values():
            for i, p in enumerate(f.params):
                if p["di"]["ptr"]:
                    ll = leaf_layout(mod, p["di"]["pointee"])
                    if ll:
                        self.layouts[("arg", f.name, i)] = ll
            for I in f.insts:
                if I.op == "alloca":
                    mm = _re.search(r"%(?:struct|union)\.([A-Za-z0-9_]+)", I.get("alloc_ty") or "")
                    if mm:
                        ll = leaf_layout(mod, mm.group(1))
                        if ll:
                            self.layouts[("alloca", f.name, I.id)] = ll
        for (fn, pname, lo, hi, lab) in sources:
            f = mod.fns.get(fn)
            if f is None:
                raise Broken("anchor vanished: source function %s" % fn)
            idx = f.param_index(pname)
            if idx is None:
                raise Broken("anchor vanished: parameter %s of %s" % (pname, fn))
            obj = ("arg", fn, idx)
            self.init.setdefault(obj, []).append((lo, INF if hi is None else hi, self.label(lab)))
        # every external function is an entry point: its pointer params get their own objects
        for f in mod.fns.values():
            for i, p in enumerate(f.params):
                if not f.internal and p["ty"].endswith("*"):
                    self.params[(f.name, i)] = AV(0, frozenset([(("arg", f.name, i), 0, 0, INF)]))
                else:
                    self.params[(f.name, i)] = EMPTY
            self.push(f.name)

    # -- labels ------------------------------------------------------------
    def label(self, name):
        if name not in self.label_id:
            self.label_id[name] = len(self.label_names)
            self.label_names.append(name)
        return 1 << self.label_id[name]

    def names(self, mask):
        return [n for i, n in enumerate(self.label_names) if mask >> i & 1]

    def push(self, fn):
        if fn not in self.inwork:
            self.inwork.add(fn)
            self.work.append(fn)

    # -- memory --------------------------------------------------------------
    def read(self, fn, pts, size):
        m = 0
        for (obj, off, lo, hi) in pts:
            self.mem_readers.setdefault(obj, set()).add(fn)
            m |= self.anyw.get(obj, 0)
            if off is None:
                a, b = lo, hi
            else:
                a, b = off, off + size
            for (ilo, ihi, im) in self.init.get(obj, ()):
                if ilo < b and a < ihi:
                    m |= im
            if b - a > self.extent_limit:
                # whole (unbounded) object
                for (o2, by), mm in self.mem.items():
                    if o2 == obj:
                        m |= mm
            else:
                mem = self.mem
                for by in range(a, b):
                    mm = mem.get((obj, by))
                    if mm:
                        m |= mm
        return m

    def write(self, pts, size, mask, cause=None):
        if not mask:
            return
        for (obj, off, lo, hi) in pts:
            if off is None:
                a, b = lo, hi
            else:
                a, b = off, off + size
            if b - a > self.extent_limit:
                old = self.anyw.get(obj, 0)
                if old | mask != old:
                    self.anyw[obj] = old | mask
                    self._mem_changed(obj, mask & ~old, cause, "*")
            else:
                ch = 0
                for by in range(a, b):
                    old = self.mem.get((obj, by), 0)
                    if old | mask != old:
                        self.mem[(obj, by)] = old | mask
                        ch |= mask & ~old
                        self._orig("mem", (obj, by), mask & ~old, cause)
                if ch:
                    self._mem_changed(obj, 0, None, None)

    def _mem_changed(self, obj, newbits, cause, by):
        if newbits:
            self._orig("mem", (obj, by), newbits, cause)
        for fn in self.mem_readers.get(obj, ()):
            self.push(fn)

    def _orig(self, kind, key, bits, cause):
        if cause is None:
            return
        i = 0
        while bits:
            if bits & 1:
                self.origin.setdefault((kind, key, i), cause)
            bits >>= 1
            i += 1

    def tail(self, pts):
        """targets [off, end of the leaf field / extent) for variable-length accesses starting at a pointer"""
        out = set()
        for (o, off, lo, hi) in pts:
            if off is None:
                out.add((o, None, lo, hi))
                continue
            nlo, nhi = off, hi
            for (flo, fhi) in self.layouts.get(o, ()):
                if flo <= off < fhi:
                    nhi = min(nhi, fhi)
                    break
            out.add((o, None, nlo, nhi))
        return frozenset(out)

    def all_of(self, fn, pts):
        """labels of everything reachable through the pointer (whole objects' extents)"""
        return self.read(fn, frozenset((o, None, lo, hi) for (o, off, lo, hi) in pts), 0)

    # -- evaluation ------------------------------------------------------------
    def val(self, f, v):
        k = v[0]
        if k == "i":
            return self.vals.get((f.name, v), EMPTY)
        if k == "a":
            return self.params.get((f.name, v[1]), EMPTY)
        if k == "g":
            return AV(0, frozenset([(("global", v[1]), 0, 0, INF)]))
        if k == "ce":
            # constant expression over a global
            r = EMPTY
            for o in v[2]:
                a = self.val(f, o)
                r = r.join(AV(a.l, frozenset((ob, None, lo, hi) for (ob, off, lo, hi) in a.p) if v[1] == "getelementptr" else a.p))
            return r
        return EMPTY

    def sink(self, f, I, kind, mask):
        if not mask:
            self.sinks.setdefault((f.name, I.id, kind), 0)
            return
        k = (f.name, I.id, kind)
        self.sinks[k] = self.sinks.get(k, 0) | mask

    def run(self, max_steps=4000000):
        while self.work:
            fn = self.work.pop()
            self.inwork.discard(fn)
            self.analyse(self.mod.fns[fn])
            if self.n_steps > max_steps:
                raise Broken("D-DEP did not converge within the step bound")

    def set(self, f, I, av):
        k = (f.name, ("i", I.id))
        old = self.vals.get(k)
        if old is None:
            self.vals[k] = av
            return True
        j = old.join(av)
        if j is old:
            return False
        if len(j.p) > 4:
            # widening: a pointer advancing in a loop -> unknown offset within its extent
            w = _widen(j.p, 4)
            if w is not None:
                j = AV(j.l, w)
                if j == old:
                    return False
        self.vals[k] = j
        return True

    def analyse(self, f):
        mod = self.mod
        changed = True
        rounds = 0
        name = f.name
        while changed:
            changed = False
            rounds += 1
            if rounds > 200:
                raise Broken("D-DEP: no local fixpoint in %s" % name)
            for I in f.insts:
                self.n_steps += 1
                op = I.op
                if op == "call":
                    if I.is_dbg() or I.is_lifetime():
                        continue
                    if self.call(f, I):
                        changed = True
                    continue
                if op == "alloca":
                    sz = I.get("alloc_size") or INF
                    if self.set(f, I, AV(0, frozenset([(("alloca", name, I.id), 0, 0, sz)]))):
                        changed = True
                    continue
                ops = I.ops
                if op == "getelementptr":
                    base = self.val(f, ops[0])
                    l = base.l
                    off = I.get("off")
                    var = I.get("var")
                    if var:
                        for (vv, sc) in var:
                            l |= self.val(f, tuple(vv)).l
                    newp = set()
                    ext = I.get("extent")
                    agg = I.get("agg_size")
                    for (obj, o, lo, hi) in base.p:
                        if off is None:
                            newp.add((obj, None, lo, hi))
                            continue
                        if ext is not None and o is not None:
                            nlo, nhi = o + ext[0], o + ext[1]
                        elif agg is not None and o is not None and not var:
                            nlo, nhi = o + off, o + off + agg
                        else:
                            nlo, nhi = lo, hi
                        # never widen beyond the enclosing extent
                        nlo, nhi = max(nlo, lo), min(nhi, hi)
                        if nlo >= nhi:
                            nlo, nhi = lo, hi
                        if var or o is None:
                            if o is not None:
                                # a variable index stays inside the leaf field (DWARF layout) the pointer is in
                                for (flo, fhi) in self.layouts.get(obj, ()):
                                    if flo <= o + off < fhi or (o + off == fhi and False):
                                        nlo, nhi = max(nlo, flo), min(nhi, fhi)
                                        break
                            newp.add((obj, None, nlo, nhi))
                        else:
                            newp.add((obj, o + off, nlo, nhi))
                    if self.set(f, I, AV(l, frozenset(newp))):
                        changed = True
                    continue
                if op == "load":
                    a = self.val(f, ops[0])
                    self.sink(f, I, "load-address", a.l)
                    m = self.read(name, a.p, I.get("size") or 1)
                    if self.set(f, I, AV(m)):
                        changed = True
                    continue
                if op == "store":
                    a = self.val(f, ops[1])
                    v = self.val(f, ops[0])
                    self.sink(f, I, "store-address", a.l)
                    self.write(a.p, I.get("size") or 1, v.l, (name, I.id))
                    continue
                if op == "br":
                    if I.get("cond"):
                        self.sink(f, I, "branch", self.val(f, ops[0]).l)
                    continue
                if op == "switch":
                    self.sink(f, I, "switch", self.val(f, ops[0]).l)
                    continue
                if op == "ret":
                    if ops:
                        v = self.val(f, ops[0])
                        old = self.rets.get(name, EMPTY)
                        j = old.join(v)
                        if j is not old:
                            self.rets[name] = j
                            for c in self.callers.get(name, ()):
                                self.push(c)
                    continue
                if op == "select":
                    c = self.val(f, ops[0])
                    self.sink(f, I, "select-condition", c.l)
                    r = self.val(f, ops[1]).join(self.val(f, ops[2]))
                    r = AV(r.l | c.l, r.p)
                    if self.set(f, I, r):
                        changed = True
                    continue
                if op in ("udiv", "sdiv", "urem", "srem"):
                    a, b = self.val(f, ops[0]), self.val(f, ops[1])
                    self.sink(f, I, "division-operand", a.l | b.l)
                    if self.set(f, I, AV(a.l | b.l)):
                        changed = True
                    continue
                if op in ("shl", "lshr", "ashr"):
                    a, b = self.val(f, ops[0]), self.val(f, ops[1])
                    if ops[1][0] != "c":
                        self.sink(f, I, "shift-amount", b.l)
                    if self.set(f, I, AV(a.l | b.l)):
                        changed = True
                    continue
                if op == "phi":
                    r = EMPTY
                    for o in ops:
                        if o[0] == "b":
                            continue
                        r = r.join(self.val(f, o))
                    if self.set(f, I, r):
                        changed = True
                    continue
                if op in ("unreachable", "fence"):
                    continue
                # generic: union of operands (casts keep points-to)
                r = EMPTY
                for o in ops:
                    if o[0] in ("i", "a", "g", "ce"):
                        r = r.join(self.val(f, o))
                if op not in ("bitcast", "inttoptr", "ptrtoint", "addrspacecast", "freeze", "add", "sub"):
                    r = AV(r.l)
                elif op in ("add", "sub"):
                    # pointer arithmetic through integers: keep targets, lose offsets
                    r = AV(r.l, frozenset((o, None, lo, hi) for (o, off, lo, hi) in r.p))
                if self.set(f, I, r):
                    changed = True

    def call(self, f, I):
        name = f.name
        args = I.call_args()
        intr = I.get("intrinsic") or ""
        callee = I.callee
        changed = False
        if intr.startswith("llvm.memcpy") or intr.startswith("llvm.memmove"):
            d, s, n = self.val(f, args[0]), self.val(f, args[1]), self.val(f, args[2])
            self.sink(f, I, "mem-address", d.l | s.l)
            self.sink(f, I, "mem-length", n.l)
            if args[2][0] == "c":
                ln = const_val(args[2])
                if ln and ln <= 512 and len(d.p) == 1 and len(s.p) == 1 and all(x[1] is not None for x in d.p | s.p):
                    (do, doff, dlo, dhi), = d.p
                    (so, soff, slo, shi), = s.p
                    for k in range(ln):
                        m = self.read(name, frozenset([(so, soff + k, slo, shi)]), 1)
                        self.write(frozenset([(do, doff + k, dlo, dhi)]), 1, m, (name, I.id))
                    return False
                m = self.read(name, frozenset((o, off, lo, hi) if off is not None else (o, None, lo, hi) for (o, off, lo, hi) in s.p), max(ln, 1))
                self.write(d.p, max(ln, 1), m, (name, I.id))
                return False
            # variable length: from offset to the end of the extent
            m = self.read(name, self.tail(s.p), 0)
            self.write(self.tail(d.p), 0, m, (name, I.id))
            return False
        if intr.startswith("llvm.memset"):
            d, v, n = self.val(f, args[0]), self.val(f, args[1]), self.val(f, args[2])
            self.sink(f, I, "mem-address", d.l)
            self.sink(f, I, "mem-length", n.l)
            if args[2][0] == "c":
                self.write(d.p, max(const_val(args[2]), 1), v.l, (name, I.id))
            else:
                self.write(self.tail(d.p), 0, v.l, (name, I.id))
            return False
        if intr:
            if intr.startswith(PURE_INTRINSICS):
                r = 0
                for a in args:
                    r |= self.val(f, a).l
                if intr.startswith(("llvm.fshl", "llvm.fshr")) and args[2][0] != "c":
                    self.sink(f, I, "shift-amount", self.val(f, args[2]).l)
                return self.set(f, I, AV(r))
            if intr.startswith(("llvm.assume", "llvm.experimental.noalias", "llvm.objectsize", "llvm.stacksave", "llvm.stackrestore")):
                return False
            raise Broken("D-DEP: unknown intrinsic %s in %s" % (intr, name))
        if callee is not None and callee in self.mod.fns:
            g = self.mod.fns[callee]
            self.callers.setdefault(callee, set()).add(name)
            for i, a in enumerate(args):
                if i >= len(g.params):
                    break
                av = self.val(f, a)
                old = self.params[(callee, i)]
                j = old.join(av)
                if len(j.p) > 8:
                    w = _widen(j.p, 8)
                    if w is not None:
                        j = AV(j.l, w)
                        if j == old:
                            j = old
                if j is not old:
                    self.params[(callee, i)] = j
                    self.push(callee)
            return self.set(f, I, self.rets.get(callee, EMPTY))
        if callee is None:
            # indirect call = the entropy callback (trusted party): it fills its buffer
            t = self.val(f, tuple(_t(I.d["callee_op"])))
            self.sink(f, I, "indirect-call-target", t.l)
            ent = self.label("ENTROPY:callback")
            for a in args:
                av = self.val(f, a)
                if av.p:
                    self.write(self.tail(av.p), 0, ent, (name, I.id))
            return self.set(f, I, EMPTY)
        # external function
        if callee == "__errno_location":
            return self.set(f, I, AV(0, frozenset([(("errno",), 0, 0, 4)])))
        if callee in self.trusted_out:
            ent = self.label("ENTROPY:" + callee)
            for (pi, li) in self.trusted_out[callee]:
                av = self.val(f, args[pi])
                self.write(self.tail(av.p), 0, ent, (name, I.id))
            return self.set(f, I, EMPTY)
        if callee in self.benign_ext:
            return self.set(f, I, EMPTY)
        # unknown foreign function: every argument value and pointee is a sink
        m = 0
        for a in args:
            av = self.val(f, a)
            m |= av.l
            if av.p:
                m |= self.all_of(name, av.p)
        if callee not in getattr(self, "internal_ext", ()):
            # (a function of the library that this partial build does not contain is analysed in the full configuration; here it only
            # propagates: it may write what it can reach, its result may depend on its inputs)
            self.sink(f, I, "foreign-call-argument:" + str(callee), m)
            self.foreign_calls.append((name, I.id, callee))
        # it may also write anything it can reach; its result may depend on its inputs
        for a in args:
            av = self.val(f, a)
            if av.p:
                self.write(frozenset((o, None, lo, hi) for (o, off, lo, hi) in av.p), 0, m, (name, I.id))
        return self.set(f, I, AV(m))

    # -- reporting -----------------------------------------------------------
    def trace(self, f, I, kind, labelbit, limit=12):
        """def-use chain from a sink back towards the source, best effort"""
        chain = []
        mod = self.mod
        bit = 1 << labelbit
        cur = None
        # start from the sink's operand that carries the label
        cands = []
        if I.op == "call":
            cands = I.call_args()
        else:
            cands = I.ops
        fname = f.name
        for o in cands:
            if o[0] in ("i", "a") and self.val(f, o).l & bit:
                cur = (fname, o)
                break
        seen = set()
        while cur and len(chain) < limit and cur not in seen:
            seen.add(cur)
            fn, v = cur
            g = mod.fns[fn]
            if v[0] == "a":
                chain.append("%s: parameter '%s'" % (fn, g.params[v[1]]["name"]))
                # find a caller passing a labelled value
                nxt = None
                for c in self.callers.get(fn, ()):
                    h = mod.fns[c]
                    for J in h.calls(fn):
                        a = J.call_args()[v[1]]
                        if a[0] in ("i", "a") and self.val(h, a).l & bit:
                            chain.append("%s: passed at %s" % (c, J.where))
                            nxt = (c, a)
                            break
                    if nxt:
                        break
                cur = nxt
                continue
            J = g.inst(v)
            chain.append("%s: %s at %s" % (fn, J.op + ((" " + J.callee) if J.op == "call" and J.callee else ""), J.where))
            nxt = None
            if J.op == "load":
                a = self.val(g, J.ops[0])
                for (obj, off, lo, hi) in a.p:
                    chain.append("   reads %s" % _objname(mod, obj, off))
                    for (ilo, ihi, im) in self.init.get(obj, ()):
                        if im & bit:
                            chain.append("   = source label %s" % self.label_names[labelbit])
                            return chain
                    keys = [(obj, off + k) for k in range(J.get("size") or 1)] if off is not None else []
                    keys += [(obj, "*")]
                    for key in keys:
                        c = self.origin.get(("mem", key, labelbit))
                        if c:
                            h = mod.fns[c[0]]
                            W = h.insts[c[1]]
                            chain.append("   written by %s: %s at %s" % (c[0], W.op + ((" " + (W.callee or "")) if W.op == "call" else ""), W.where))
                            if W.op == "store" and W.ops[0][0] in ("i", "a"):
                                nxt = (c[0], W.ops[0])
                            break
                    if nxt:
                        break
                    if off is None:
                        for (o2, by), mm in self.mem.items():
                            if o2 == obj and mm & bit:
                                c = self.origin.get(("mem", (o2, by), labelbit))
                                if c:
                                    h = mod.fns[c[0]]
                                    W = h.insts[c[1]]
                                    chain.append("   written by %s at %s" % (c[0], W.where))
                                    if W.op == "store" and W.ops[0][0] in ("i", "a"):
                                        nxt = (c[0], W.ops[0])
                                    break
                        if nxt:
                            break
            elif J.op == "call" and J.callee in mod.fns:
                chain.append("   = return value of %s" % J.callee)
            else:
                for o in (J.call_args() if J.op == "call" else J.ops):
                    if o[0] in ("i", "a") and self.val(g, o).l & bit:
                        nxt = (fn, o)
                        break
            cur = nxt
        return chain


def _t(o):
    return tuple(_t(x) if isinstance(x, (list, tuple)) else x for x in o)


def _objname(mod, obj, off):
    if obj[0] == "arg":
        f = mod.fns[obj[1]]
        return "*%s(%s)+%s" % (f.params[obj[2]]["name"], obj[1], off)
    if obj[0] == "alloca":
        f = mod.fns[obj[1]]
        return "local %s in %s +%s" % (f.locals.get(obj[2], f.insts[obj[2]].get("name", "#%d" % obj[2])), obj[1], off)
    return "%s+%s" % (obj, off)
