"""Reference model of the TinyJAMBU mode of operation in the D-GF2 term domain and the
comparison of the per-path summaries produced by irx.Exec with it (DESIGN 4 'tinyjambu.json',
B.3).  The permutation is an uninterpreted function here (its own conformance is C05);
setup / absorb / generate_tag are uninterpreted when analysing their callers and are verified
as functions of their own by the same machinery.

Spec (TinyJAMBU v2, NIST LWC final; SIV: tools/sivref/README.md in the repository):
  frame bits: nonce 0x10, AD 0x30, message 0x50, tag 0x70; SIV: nonce 0x90 / 0xB0, message 0xD0
  P640 = 5 rounds; keyed P = 8/9/10 rounds (1024/1152/1280 steps) for 128/192/256
  setup:  s = 0; P(KR); 3x { s1 ^= domain; P(5); s3 ^= LE32(nonce+4i) }
  absorb(data, n, domain, R): per 4 bytes { s1 ^= domain; P(R); s3 ^= LE32 }; tail r in 1..3:
          { s1 ^= domain; P(R); s3 ^= LE_r(bytes); s1 ^= r }
  encrypt block: s1 ^= 0x50; P(KR); s3 ^= x; c = x ^ s2      (tail: r bytes, then s1 ^= r)
  decrypt block: s1 ^= 0x50; P(KR); x = (c ^ s2) restricted to r bytes; s3 ^= x; m = x
  tag: s1 ^= 0x70; P(KR); t[0..3] = LE(s2); s1 ^= 0x70; P(5); t[4..7] = LE(s2)
"""
from .build import Broken
from . import gf2, irx
from .irx import Lf, is_word

KR = {128: 8, 192: 9, 256: 10}
P640 = 5


def state_obj_words(ex, p, obj, nwords, base=0):
    out = []
    for i in range(nwords):
        bits = []
        for b in range(4):
            cell = p.mem.get((obj, base + 4 * i + b))
            if cell is None:
                if obj[0] == "alloca":
                    cell = [gf2.TOP] * 8
                else:
                    cell = gf2.sym_word(ex._memsym(p, obj, base + 4 * i + b) if ex is not None else ("mem", obj, base + 4 * i + b), 8)
            bits.extend(cell)
        out.append(bits)
    return out


def set_state_words(p, obj, words, base=0):
    for i, w in enumerate(words):
        for b in range(4):
            p.mem[(obj, base + 4 * i + b)] = w[8 * b: 8 * b + 8]


def ptr_of(ex, p, v):
    if is_word(v):
        return None, None
    obj, off = ex.subst(p, v).base()
    return obj, off


def _lenrepr(ex, p, a, unknown):
    """a length argument as text: a linear form, or - when it went through memory as a constant (a concrete length stored to *mlen and
    loaded back) - that constant"""
    if not is_word(a):
        return repr(ex.subst(p, a))
    k = gf2.is_const(a)
    return repr(Lf.c(k)) if k is not None else unknown


class Handler:
    """uninterpreted-call semantics for the mode level"""

    def __init__(self, klen):
        self.klen = klen
        self.nk = klen // 32

    def __call__(self, ex, p, I, callee, args):
        name = callee or "<indirect>"
        n = p.ncall
        p.ncall += 1
        if name.startswith("tinyjambu_permutation_"):
            obj, off = ptr_of(ex, p, args[0])
            if obj is None or off.const() != 0:
                raise Broken("permutation called on an unknown state pointer in %s" % ex.f.name)
            sin = state_obj_words(ex, p, obj, 4)
            kin = state_obj_words(ex, p, obj, self.nk, 16)
            r = args[1]
            rc = r.const() if not is_word(r) else gf2.is_const(r)
            if rc is None:
                rc = repr(ex.subst(p, r)) if not is_word(r) else "data"
            p.events.append(("P", n, rc, tuple(tuple(w) for w in sin), tuple(tuple(w) for w in kin), I.id, name))
            set_state_words(p, obj, [gf2.sym_word(("P", n, i), 32) for i in range(4)])
            return None
        if name.startswith("tinyjambu_setup_"):
            obj, off = ptr_of(ex, p, args[0])
            nonce = ex.load(p, args[1], 12, None)
            p.events = [e for e in p.events if not (e[0] == "in" and e[-1] is None)]
            kin = state_obj_words(ex, p, obj, self.nk, 16)
            d = args[2]
            dc = d.const() if not is_word(d) else gf2.is_const(d)
            p.events.append(("SETUP", n, dc & 0xFF if dc is not None else None, tuple(nonce), tuple(tuple(w) for w in kin), I.id, name, repr(ex.subst(p, args[1]))))
            set_state_words(p, obj, [gf2.sym_word(("SETUP", n, i), 32) for i in range(4)])
            return None
        if name.startswith("tinyjambu_absorb_"):
            obj, off = ptr_of(ex, p, args[0])
            sin = state_obj_words(ex, p, obj, 4)
            d, r = args[3], args[4]
            dc = d.const() if not is_word(d) else gf2.is_const(d)
            rc = r.const() if not is_word(r) else gf2.is_const(r)
            p.events.append(("ABSORB", n, dc & 0xFF if dc is not None else None, rc, tuple(tuple(w) for w in sin), repr(ex.subst(p, args[1])) if not is_word(args[1]) else "?",
                             _lenrepr(ex, p, args[2], "?"), I.id, name))
            set_state_words(p, obj, [gf2.sym_word(("ABSORB", n, i), 32) for i in range(4)])
            return None
        if name.startswith("tinyjambu_generate_tag_"):
            obj, off = ptr_of(ex, p, args[0])
            sin = state_obj_words(ex, p, obj, 4)
            p.events.append(("GENTAG", n, tuple(tuple(w) for w in sin), repr(ex.subst(p, args[1])) if not is_word(args[1]) else "?", I.id, name))
            set_state_words(p, obj, [gf2.sym_word(("GENTAG", n, i), 32) for i in range(4)])
            tag = []
            for k in range(8):
                tag.extend(gf2.sym_word(("TAG", n, k), 8))
            ex.store(p, args[1], tag, 8, I)
            return None
        if name == "tinyjambu_aead_check_tag":
            t1 = ex.load(p, args[2], 8, None)
            p.events = [e for e in p.events if not (e[0] == "in" and e[-1] is None)]
            sz = args[4].const() if not is_word(args[4]) else None
            p.events.append(("CHECK", n, repr(ex.subst(p, args[0])), _lenrepr(ex, p, args[1], "data"), tuple(t1),
                             repr(ex.subst(p, args[3])), sz, I.id))
            return Lf.s(("verdict", n))
        if name in ("memcpy-var", "memset-var"):
            p.events.append((name, n, [repr(a) if not is_word(a) else "data" for a in args], I.id))
            return None
        if name == "tinyjambu_clean" and not is_word(args[0]) and not is_word(args[1]):
            # wipe of a local temporary (a keystream staging buffer ...): zero bytes from here on; wipes of anything else are not a mode matter
            ob_, _of = ex.subst(p, args[0]).base()
            lc = ex.subst(p, args[1]).const()
            if ob_ is not None and ob_[0] == "alloca" and lc is not None and 0 < lc <= 256:
                ex.store(p, args[0], [gf2.ZERO] * (8 * lc), lc, None)
                return None
        raise Broken("mode-level analysis: unexpected call to %s in %s" % (name, ex.f.name))


def havoc_state(nk):
    def hv(ex, p, header):
        # the four state words of every state object become fresh symbols at the loop head
        objs = {o for (o, off) in p.mem if o[0] in ("alloca", "arg")}
        f = ex.f
        for o in objs:
            if _is_state_obj(f, o):
                set_state_words(p, o, [gf2.sym_word(("S", i), 32) for i in range(4)])
        for i, prm in enumerate(f.params):
            if prm["di"]["pointee"].startswith("tinyjambu_") and prm["di"]["pointee"].endswith("_state_t"):
                set_state_words(p, ("arg", i), [gf2.sym_word(("S", i2), 32) for i2 in range(4)])
    return hv


def _is_state_obj(f, o):
    if o[0] == "alloca":
        I = f.insts[o[1]]
        return "tinyjambu_" in (I.get("alloc_ty") or "") and "_state_t" in (I.get("alloc_ty") or "")
    if o[0] == "arg":
        return f.params[o[1]]["di"]["pointee"].endswith("_state_t")
    return False


def find_state_obj(f):
    for I in f.insts:
        if I.op == "alloca" and "_state_t" in (I.get("alloc_ty") or "") and "tinyjambu_" in (I.get("alloc_ty") or ""):
            return ("alloca", I.id)
    for i, prm in enumerate(f.params):
        if prm["di"]["pointee"].endswith("_state_t"):
            return ("arg", i)
    raise Broken("anchor vanished: no TinyJAMBU state object in %s" % f.name)


# ---------------------------------------------------------------------------
# reference pieces

def fb(S, c):
    return [S[0], gf2.wxor(S[1], gf2.const_word(c, 32)), S[2], S[3]]


def le_bytes(byts, r):
    """zero-extended little-endian word of the first r symbolic bytes"""
    bits = []
    for k in range(r):
        bits.extend(byts[k])
    return gf2.wzext(bits, 32)


def inbyte(obj, off):
    """symbolic content of byte `off` at a cursor: a pointer cursor / object, or an index cursor ("idx", object, symbolic offset)"""
    if isinstance(obj, tuple) and obj and obj[0] == "idx":
        return gf2.sym_word(("mem", obj[1], (obj[2], off)), 8)
    return gf2.sym_word(("mem", obj, off), 8)


def Pw(n):
    return [gf2.sym_word(("P", n, i), 32) for i in range(4)]


def mask_r(w, r):
    return w[: 8 * r] + [gf2.ZERO] * (32 - 8 * r)


def words_eq(a, b):
    """a = what the code computes, b = the reference.  A TOP bit in `a` means the domain cannot
    represent the code's value: that is 'unknown', never 'refuted' -> ANALYSIS-BROKEN."""
    eq = all(tuple(x) == tuple(y) for x, y in zip(a, b)) and len(a) == len(b)
    if not eq:
        for i, x in enumerate(a):
            for j, bit in enumerate(x):
                if bit is gf2.TOP:
                    raise Broken("mode analysis: bit %d of word %d computed by the code is not representable in the GF(2) term domain "
                                 "(data-dependent shift, arithmetic on data, unknown load, ...): cannot compare with the reference" % (j, i))
    return eq


def first_diff(a, b):
    for i, (x, y) in enumerate(zip(a, b)):
        for j, (p, q) in enumerate(zip(x, y)):
            if p != q:
                return "word %d bit %d: code has %s, specification has %s" % (i, j, gf2.describe(p, 4), gf2.describe(q, 4))
    return "length mismatch"


def outs_of(p, obj=None):
    """final byte written at each (obj, off) of external objects + order of in/out events"""
    out = {}
    for e in p.events:
        if e[0] == "out":
            out[(e[1], e[2])] = list(e[3])
        elif e[0] == "out-sym":
            out[(("idx", e[1], e[2]), e[3])] = list(e[4])       # store at object + symbolic offset + constant: an index cursor
    return out


def ins_of(p):
    return [(e[1], e[2]) for e in p.events if e[0] == "in"] + [(("idx", e[1], e[2]), e[3]) for e in p.events if e[0] == "in-sym"]


def alias_order_ok(p, in_obj, out_obj):
    """with exact aliasing in == out: no input byte at offset j is loaded after output byte j was stored"""
    stored = set()
    for e in p.events:
        if e[0] == "out" and e[1] == out_obj:
            stored.add(e[2])
        elif e[0] == "out-sym" and ("idx", e[1], e[2]) == out_obj:
            stored.add(e[3])
        elif e[0] == "in" and e[1] == in_obj and e[2] in stored:
            return False, e[2]
        elif e[0] == "in-sym" and ("idx", e[1], e[2]) == in_obj and e[3] in stored:
            return False, e[3]
    return True, None
