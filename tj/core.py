"""Outcome / evidence plumbing shared by all property checks.

Three-valued outcome (DESIGN 3.2):
  exit 0  every obligation discharged, floors met, positive controls fired
  exit 1  an obligation refuted by a named construct  -> VIOLATION line
  exit 2  analysis broken (anchor vanished, floor not met, build failure)
"""
import json, os, sys, time, hashlib
from .build import Broken, VERIF

EVID = os.environ.get("TJ_EVIDENCE_DIR") or os.path.join(VERIF, "evidence")
REPORTS = os.path.join(EVID, "reports")
KNOWN = os.path.join(VERIF, "known_findings.txt")


def load_known():
    """known_findings.txt: lines
         finding: property=<id> key=<rule>|<function>|<construct> :: <what fails>
         fixed: property=<id> <commit> <what failed>
       Only 'finding:' lines suppress (by exact key)."""
    known = {}
    if not os.path.exists(KNOWN):
        return known
    with open(KNOWN) as f:
        for line in f:
            line = line.strip()
            if not line.startswith("finding:"):
                continue
            body = line[len("finding:"):].strip()
            try:
                prop = body.split("property=", 1)[1].split()[0]
                key = body.split("key=", 1)[1].split(" :: ", 1)[0].strip()
                what = body.split(" :: ", 1)[1] if " :: " in body else ""
            except IndexError:
                continue
            known[(prop, key)] = what
    return known


class Check:
    def __init__(self, pid, tier="quick", seed=0, level="other"):
        self.pid = pid
        self.tier = tier
        self.seed = seed
        self.level = level
        self.t0 = time.time()
        self.obligations = []  # dicts
        self.violations = []
        self.notes = []
        self.floors = []
        self.controls = []
        self.assumptions = []
        self.trusted = ["clang/LLVM 14 front end, SROA/mem2reg/instsimplify/loop-simplify, ScalarEvolution, DataLayout",
                        "tools/tjfacts.cc (fact extractor)", "tj/*.py (abstract domains and rules)"]
        self.rules = {}  # rule -> description
        self.coverage_extra = {}
        self.configs = set()
        self.broken = None
        self.not_decided = []

    # -- recording ---------------------------------------------------------
    def rule(self, rid, text):
        self.rules[rid] = text

    def ok(self, rule, function, construct, fact, where=None):
        self.obligations.append({"rule": rule, "function": function, "construct": construct,
                                 "where": where, "fact": fact, "ok": True})

    def bad(self, rule, function, construct, message, where=None, path=None, extra=None):
        o = {"rule": rule, "function": function, "construct": construct, "where": where,
             "fact": message, "ok": False}
        if path:
            o["path"] = path
        if extra:
            o["extra"] = extra
        self.obligations.append(o)
        self.violations.append(o)

    def ob(self, cond, rule, function, construct, fact_ok, fact_bad=None, where=None, **kw):
        if cond:
            self.ok(rule, function, construct, fact_ok, where)
        else:
            self.bad(rule, function, construct, fact_bad or ("REFUTED: expected " + fact_ok), where, **kw)
        return cond

    def floor(self, rule, what, count, minimum):
        self.floors.append({"rule": rule, "what": what, "count": count, "min": minimum})
        if count < minimum and self.violations:
            # refuted obligations cut the analysis short: the refutation stands, the floor is moot
            self.notes.append("floor %s/%s not evaluated: analysis stopped at a refuted obligation" % (rule, what))
            return
        if count < minimum:
            raise Broken("floor not met for %s: %s = %d < %d (rule matches fewer instances than confirmed by hand)"
                         % (rule, what, count, minimum))

    def control(self, name, fired, detail=""):
        self.controls.append({"control": name, "fired": bool(fired), "detail": detail})
        if not fired:
            raise Broken("positive control %s did not fire (%s): the rule is blind" % (name, detail))

    def note(self, text):
        self.notes.append(text)

    def snapshot(self):
        return (len(self.obligations), len(self.violations))

    def rollback(self, snap):
        """drop what was recorded after the snapshot: verdicts of a summary that then turned out not to follow the code's shape
        were computed under a wrong reading of it and count for nothing"""
        del self.obligations[snap[0]:]
        del self.violations[snap[1]:]

    def assume(self, text):
        if text not in self.assumptions:
            self.assumptions.append(text)

    def config(self, variant, form):
        self.configs.add("%s/%s" % (variant, form))

    # -- finishing -----------------------------------------------------------
    @staticmethod
    def key(o):
        return "%s|%s|%s" % (o["rule"], o["function"], o["construct"])

    def finish(self):
        os.makedirs(REPORTS, exist_ok=True)
        known = load_known()
        new, listed = [], []
        for v in self.violations:
            k = self.key(v)
            if (self.pid, k) in known:
                listed.append((v, known[(self.pid, k)]))
            else:
                new.append(v)
        # de-duplicate by key
        seen = set()
        uniq = []
        for v in new:
            k = self.key(v)
            if k in seen:
                continue
            seen.add(k)
            uniq.append(v)
        lines = []
        for v, what in listed:
            lines.append("KNOWN-FINDING: property=%s %s [%s]" % (self.pid, what or v["fact"], self.key(v)))
        replay_paths = []
        for n, v in enumerate(uniq):
            rp = os.path.join(REPORTS, "%s-%d.json" % (self.pid, n))
            with open(rp, "w") as f:
                json.dump({"property": self.pid, "key": self.key(v), "violation": v, "tier": self.tier}, f, indent=1)
            replay_paths.append(rp)
            print("  refuted: rule=%s function=%s construct=%s at %s\n           %s"
                  % (v["rule"], v["function"], v["construct"], v.get("where"), v["fact"]))
            if v.get("path"):
                print("           path: %s" % v["path"])
            lines.append("VIOLATION property=%s replay=%s" % (self.pid, rp))
        # remove stale reports of earlier runs
        for fn in os.listdir(REPORTS):
            if fn.startswith(self.pid + "-") and os.path.join(REPORTS, fn) not in replay_paths:
                try:
                    os.remove(os.path.join(REPORTS, fn))
                except OSError:
                    pass
        self.write_evidence(len(uniq), len(listed))
        for l in lines:
            print(l)
        ndis = sum(1 for o in self.obligations if o["ok"])
        print("%s: %d obligations, %d discharged, %d refuted (%d listed as known), %d rules, configs=%s, %.1fs"
              % (self.pid, len(self.obligations), ndis, len(self.violations), len(listed), len(self.rules),
                 ",".join(sorted(self.configs)), time.time() - self.t0))
        return 1 if uniq else 0

    def write_evidence(self, nviol, nknown, broken=None):
        os.makedirs(EVID, exist_ok=True)
        obs = self.obligations
        ndis = sum(1 for o in obs if o["ok"])
        distinct = len({self.key(o) for o in obs})
        per_rule = {}
        for o in obs:
            per_rule.setdefault(o["rule"], [0, 0])
            per_rule[o["rule"]][0] += 1
            per_rule[o["rule"]][1] += 1 if o["ok"] else 0
        # samples: up to 2 per rule, real obligation records
        samples, cnt = [], {}
        for o in obs:
            c = cnt.get(o["rule"], 0)
            if c < 2:
                cnt[o["rule"]] = c + 1
                samples.append({k: o[k] for k in ("rule", "function", "construct", "where", "fact", "ok")})
        expl = "Static analysis over clang-14 LLVM IR / preprocessed assembly of /repo's working tree; nothing is executed. Rules: " + \
               "; ".join("%s = %s" % kv for kv in sorted(self.rules.items()))
        if self.not_decided:
            expl += " || NOT decided by this check: " + "; ".join(self.not_decided)
        cov = {
            "explanation": expl,
            "obligations": len(obs),
            "discharged": ndis,
            "evaluations": max(len(obs), 1),
            "distinct_nontrivial": distinct,
            "rule": "one obligation per (rule, function, construct) instance found in the analysed IR; distinct = distinct keys; "
                    "non-trivial = the obligation consumed at least one analysed fact (instruction, call site, field, path)",
            "samples": samples[:60],
            "per_rule": {k: {"obligations": v[0], "discharged": v[1]} for k, v in sorted(per_rule.items())},
            "floors": self.floors,
            "positive_controls": self.controls,
            "configurations": sorted(self.configs),
            "checker_cmd": "./check %s --tier %s" % (self.pid, self.tier),
            "trusted_base": self.trusted,
            "notes": self.notes,
            "known_findings_listed": nknown,
            "exhaustive": False,
        }
        cov.update(self.coverage_extra)
        ev = {
            "property_id": self.pid,
            "tier": self.tier,
            "seed": self.seed,
            "level": self.level,
            "coverage": cov,
            "assumptions": self.assumptions,
            "wall_s": round(time.time() - self.t0, 3),
            "violations": nviol,
        }
        if broken:
            ev["coverage"]["analysis_broken"] = broken
        tmp = os.path.join(EVID, "%s.json.tmp%d" % (self.pid, os.getpid()))
        with open(tmp, "w") as f:
            json.dump(ev, f, indent=1)
        os.replace(tmp, os.path.join(EVID, "%s.json" % self.pid))
