"""Python view of the facts JSON written by tjfacts."""
import os
from .build import Broken


def is_inst(v):
    return v[0] == "i"


def is_arg(v):
    return v[0] == "a"


def is_const(v):
    return v[0] == "c"


def const_val(v, signed=False):
    if v[0] == "n":
        return 0
    x = int(v[1])
    if signed and x >= 1 << (v[2] - 1):
        x -= 1 << v[2]
    return x


class Inst:
    __slots__ = ("d", "fn", "id", "op", "b", "ops")

    def __init__(self, d, fn):
        self.d = d
        self.fn = fn
        self.id = d["id"]
        self.op = d["op"]
        self.b = d["b"]
        self.ops = [tuple(o) if not isinstance(o, tuple) else o for o in map(_tup, d["ops"])]

    def get(self, k, default=None):
        return self.d.get(k, default)

    @property
    def loc(self):
        l = self.d.get("loc")
        if not l:
            return "?"
        return "%s:%d" % (l[0], l[1])

    @property
    def where(self):
        """file:line, with the chain of inlined-at call sites if any"""
        l = self.loc
        ia = self.d.get("inlined_at")
        if ia:
            l += " (inlined at " + ", ".join("%s:%d" % (a[0], a[1]) for a in ia) + ")"
        return l

    @property
    def bits(self):
        return self.d.get("bits")

    @property
    def callee(self):
        return self.d.get("callee")

    def is_dbg(self):
        return self.op == "call" and (self.d.get("intrinsic") or "").startswith("llvm.dbg")

    def is_lifetime(self):
        return self.op == "call" and (self.d.get("intrinsic") or "").startswith("llvm.lifetime")

    def call_args(self):
        return self.ops[: self.d.get("nargs", 0)]

    def __repr__(self):
        return "<%s #%d %s @%s>" % (self.fn.name, self.id, self.op, self.loc)


def _tup(o):
    if isinstance(o, list):
        return tuple(_tup(x) for x in o)
    return o


class Block:
    __slots__ = ("d", "id", "insts", "succs", "preds", "idom", "ipdom", "loop", "depth", "name", "reachable")

    def __init__(self, d):
        self.d = d
        self.id = d["id"]
        self.insts = d["insts"]
        self.succs = d["succs"]
        self.preds = d["preds"]
        self.idom = d["idom"]
        self.ipdom = d["ipdom"]
        self.loop = d["loop"]
        self.depth = d["depth"]
        self.name = d["name"]
        self.reachable = d["reachable"]


class Fn:
    def __init__(self, d, mod):
        self.d = d
        self.mod = mod
        self.name = d["name"]
        self.file = d["file"]
        self.line = d["line"]
        self.internal = d["internal"]
        self.params = d["params"]
        self.blocks = [Block(b) for b in d["blocks"]]
        self.insts = [Inst(i, self) for i in d["insts"]]
        self.loops = d["loops"]
        self.locals = {int(k): v for k, v in d.get("locals", {}).items()}
        self._users = None
        self._dom_cache = {}
        self._pos = {}
        for b in self.blocks:
            for k, i in enumerate(b.insts):
                self._pos[i] = k

    # -- lookup ----------------------------------------------------------
    def param_index(self, name):
        for i, p in enumerate(self.params):
            if p["name"] == name:
                return i
        return None

    def inst(self, v):
        return self.insts[v[1]] if v[0] == "i" else None

    def users(self, iid):
        if self._users is None:
            u = {}
            for i in self.insts:
                for o in i.ops:
                    if o[0] == "i":
                        u.setdefault(o[1], []).append(i.id)
            self._users = u
        return self._users.get(iid, [])

    def arg_users(self, idx):
        return [i for i in self.insts if ("a", idx) in i.ops]

    def calls(self, callee=None):
        r = []
        for i in self.insts:
            if i.op == "call" and not i.is_dbg() and not i.is_lifetime():
                if callee is None or i.callee == callee:
                    r.append(i)
        return r

    def rets(self):
        return [i for i in self.insts if i.op == "ret"]

    def real_insts(self):
        return [i for i in self.insts if not i.is_dbg() and not i.is_lifetime()]

    # -- dominance --------------------------------------------------------
    def dominates_block(self, a, b):
        """block a dominates block b (reflexive)"""
        while b != -1:
            if a == b:
                return True
            b = self.blocks[b].idom
        return False

    def postdominates_block(self, a, b):
        while b != -1:
            if a == b:
                return True
            b = self.blocks[b].ipdom
        return False

    def dominates(self, i, j):
        """instruction i strictly precedes j on every path from entry to j"""
        I, J = self.insts[i], self.insts[j]
        if I.b == J.b:
            return self._pos[i] < self._pos[j]
        return self.dominates_block(I.b, J.b)

    def reachable_blocks(self, start, avoid=()):
        seen = set()
        st = [start]
        while st:
            b = st.pop()
            if b in seen or b in avoid:
                continue
            seen.add(b)
            st.extend(self.blocks[b].succs)
        return seen

    def can_reach(self, i, j, avoid_insts=()):
        """is there a CFG path from just after instruction i to instruction j
        that does not execute any instruction in avoid_insts?"""
        I, J = self.insts[i], self.insts[j]
        avoid = set(avoid_insts)
        ab = {}
        for a in avoid:
            ab.setdefault(self.insts[a].b, []).append(self._pos[a])

        def blocked_between(b, lo, hi):  # positions lo<p<hi
            return any(lo < p < hi for p in ab.get(b, []))

        if I.b == J.b and self._pos[i] < self._pos[j]:
            if not blocked_between(I.b, self._pos[i], self._pos[j]):
                return True
        # leave I's block
        n = len(self.blocks[I.b].insts)
        if blocked_between(I.b, self._pos[i], n):
            return False
        seen = set()
        st = list(self.blocks[I.b].succs)
        while st:
            b = st.pop()
            if b in seen:
                continue
            seen.add(b)
            if b == J.b:
                if not blocked_between(b, -1, self._pos[j]):
                    return True
            if b in ab:
                continue  # any avoid inst in the block blocks passing through
            st.extend(self.blocks[b].succs)
        return False

    def term(self, b):
        return self.insts[self.blocks[b].insts[-1]]

    def loop_of(self, header):
        for l in self.loops:
            if l["header"] == header:
                return l
        return None


class Module:
    def __init__(self, d):
        self.d = d
        self.variant = d.get("_variant")
        self.form = d.get("_form")
        self.tus = d.get("_tus", [])
        self.globals = d["globals"]
        self.declarations = d["declarations"]
        self.composites = {c["name"]: c for c in d["composites"]}
        self.typedefs = d["typedefs"]
        self.fns = {}
        for f in d["functions"]:
            self.fns[f["name"]] = Fn(f, self)

    def fn(self, name, required=True):
        f = self.fns.get(name)
        if f is None and required:
            raise Broken("anchor vanished: function %s not found in module (%s/%s)" % (name, self.variant, self.form))
        return f

    def field(self, comp, name):
        c = self.composites.get(comp)
        if not c:
            raise Broken("anchor vanished: composite type %s not in DWARF" % comp)
        for m in c["members"]:
            if m["name"] == name:
                return m
        raise Broken("anchor vanished: field %s.%s not in DWARF" % (comp, name))

    def typedef_size(self, name):
        t = self.typedefs.get(name)
        if not t:
            raise Broken("anchor vanished: typedef %s not in DWARF" % name)
        return t["size"]


def relpath(p):
    from .build import REPO
    for pre in (REPO.rstrip("/") + "/", "/repo/"):
        p = p.replace(pre, "")
    return p
