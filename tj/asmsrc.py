"""Preprocessing of the assembly backends under the macro sets that
tinyjambu-backend-select.h requires for each backend (DESIGN 2.2)."""
import os, re, glob
from .build import Broken, run, CLANG

# target id -> (backend macro, file suffix, macro set that makes select.h choose it, isa family)
TARGETS = {
    "avr5": ("TINYJAMBU_BACKEND_AVR5", "avr5", ["-D__AVR__", "-D__AVR_ARCH__=5"], "avr"),
    "armv7m": ("TINYJAMBU_BACKEND_ARMV7M", "armv7m", ["-D__ARM_ARCH_ISA_THUMB=2", "-D__ARM_ARCH=7", "-D__thumb__", "-D__thumb2__"], "arm"),
    "armv8m": ("TINYJAMBU_BACKEND_ARMV7M", "armv7m", ["-D__ARM_ARCH_ISA_THUMB=2", "-D__ARM_ARCH=8", "-D__ARM_ARCH_8M__", "-D__thumb__", "-D__thumb2__"], "arm"),
    "armv6m": ("TINYJAMBU_BACKEND_ARMV6M", "armv6m", ["-D__ARM_ARCH_ISA_THUMB=1", "-D__ARM_ARCH=6", "-D__ARM_ARCH_6M__", "-D__thumb__"], "thumb1"),
    "armv6": ("TINYJAMBU_BACKEND_ARMV6", "armv6", ["-D__ARM_ARCH=6"], "arm"),
    "riscv64i": ("TINYJAMBU_BACKEND_RISCV64I", "riscv64i", ["-D__riscv", "-D__riscv_xlen=64"], "riscv"),
    "riscv32e": ("TINYJAMBU_BACKEND_RISCV32E", "riscv32e", ["-D__riscv", "-D__riscv_xlen=32", "-D__riscv_32e"], "riscv"),
    "riscv32i": ("TINYJAMBU_BACKEND_RISCV32I", "riscv32i", ["-D__riscv", "-D__riscv_xlen=32"], "riscv"),
    "xtensa-call0": ("TINYJAMBU_BACKEND_XTENSA", "xtensa", ["-D__XTENSA__"], "xtensa"),
    "xtensa-windowed": ("TINYJAMBU_BACKEND_XTENSA", "xtensa", ["-D__XTENSA__", "-D__XTENSA_WINDOWED_ABI__"], "xtensa"),
    "host-c32": ("TINYJAMBU_BACKEND_C32", "c32", [], "c"),
    "force-c32": ("TINYJAMBU_BACKEND_C32", "c32", ["-DTINYJAMBU_FORCE_C32", "-D__AVR__", "-D__AVR_ARCH__=5"], "c"),
}

KEYSIZES = ("128", "192", "256")


def stub_include_dir(build):
    d = os.path.join(build.dir, "asm-stub")
    if not os.path.isdir(d):
        os.makedirs(os.path.join(d, "avr"), exist_ok=True)
        with open(os.path.join(d, "avr", "io.h"), "w") as f:
            # only the I/O addresses the generated AVR code may mention
            f.write("/* stub */\n#define __SP_L__ 0x3d\n#define __SP_H__ 0x3e\n#define __SREG__ 0x3f\n"
                    "#define _SFR_IO_ADDR(x) (x)\n#define SPL 0x3d\n#define SPH 0x3e\n#define SREG 0x3f\n#define RAMPZ 0x3b\n")
    return d


def preprocess(build, relfile, macros):
    """clang -E of one .S file; returns list of (lineno, text) for non-empty
    lines of the main file and included files (lineno of the physical source)."""
    src = os.path.join(build.repo, relfile)
    cmd = [CLANG, "-E", "-x", "assembler-with-cpp", "-undef", "-I" + os.path.join(build.repo, "src", "backend"),
           "-I" + os.path.join(build.repo, "src"), "-I" + stub_include_dir(build)] + list(macros) + [src]
    p = run(cmd)
    if p.returncode != 0:
        raise Broken("cannot preprocess %s: %s" % (relfile, p.stderr[-800:]))
    out = []
    cur_file, cur_line = src, 0
    for raw in p.stdout.splitlines():
        m = re.match(r'^#\s+(\d+)\s+"([^"]*)"', raw)
        if m:
            cur_line = int(m.group(1)) - 1
            cur_file = m.group(2)
            continue
        cur_line += 1
        t = raw.strip()
        if not t:
            continue
        out.append((cur_file, cur_line, t))
    return out


def asm_files(build):
    r = []
    for u in build.asm_units():
        r.append(u["file"])
    return sorted(r)


def programs(build):
    """All (target, keysize, relfile) assembly programs: 8 ISAs x 3 key sizes,
    Xtensa under both ABIs = 27."""
    progs = []
    files = set(asm_files(build))
    for tid, (macro, suffix, macros, fam) in TARGETS.items():
        if fam == "c" or tid == "armv8m":
            continue
        for ks in KEYSIZES:
            rel = "src/backend/tinyjambu-%s-asm-%s.S" % (ks, suffix)
            if rel not in files:
                raise Broken("anchor vanished: %s not among the static library's units" % rel)
            progs.append((tid, ks, rel))
    return progs
