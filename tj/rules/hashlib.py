"""TinyJAMBU-Hash against its documented MDPH construction and its streaming semantics (C10, C11).

Reference (tools/hashref/README.md, src/tinyjambu-hash.c comments):
  state = (L = s[0..3], R with k[0..3] = NOT R), 16-byte block buffer k[4..7] (raw bytes), posn
  compress(d):  K = R || M (key words k[0..3], NOT LE32(block));  L ^= d;
                L' = P20(K, L) ^ L;  R' = P20(K, L ^ 1) ^ (L ^ 1);  stored k[0..3] = NOT R'
  init: L = 0, k[0..3] = 0xFFFFFFFF, posn = 0
  update: append bytes to the block buffer; whenever it holds 16 bytes compress(0) and empty it
  finalize: buffer || 0x01 || 0*, compress(2), out = LE32(L) || LE32(R)
Analysed per class of the buffer position (0..15, the inter-call invariant C06 re-establishes), per
residue class of the input length, with one generic iteration of the whole-block loop - all offsets are
then constants and the block contents are tracked byte for byte in the GF(2) term domain.
"""
from ..build import Broken
from ..facts import relpath
from .. import gf2, irx, mode
from ..irx import Lf, is_word

ROUNDS = 20
AUXPHIS = {}
ST = ("arg", 0)
POSN = (48, 4)
PSZ = [4]        # size of the buffer-position field as the analysed tree declares it (set_posn_size)


def set_posn_size(mod):
    """the buffer-position field is followed at its declared width (a narrower field is still an integer, not data)"""
    comp = mod.composites.get("tinyjambu_hash_state_p_t")
    mem = [m for m in (comp or {}).get("members", []) if m["name"] == "posn"]
    if not mem or mem[0]["offset"] != 48 or mem[0]["size"] not in (1, 2, 4, 8):
        raise Broken("anchor vanished: the hash state's buffer-position field is not a 1/2/4/8-byte integer at offset 48")
    PSZ[0] = mem[0]["size"]


def W(c):
    return gf2.const_word(c, 32)


def word_of(cells):
    bits = []
    for c in cells:
        bits.extend(c)
    return bits


def mem_byte(p, obj, off, start=False):
    m = p.start_mem if start else p.mem
    c = m.get((obj, off))
    if c is None:
        g = p.objgen.get(obj, 0) if not start else p.objgen.get(obj, 0)
        c = gf2.sym_word(("mem", obj, off) if not g else ("mem", obj, off, g), 8)
    return c


def words_at(p, obj, base, n, start=False):
    return [word_of([mem_byte(p, obj, base + 4 * i + b, start) for b in range(4)]) for i in range(n)]


class Handler(mode.Handler):
    def __init__(self, inline=None):
        mode.Handler.__init__(self, 256)
        self.inline = inline or {}      # callee name -> Fn: straight-line state initialisers applied at the call (init <-> reinit)
        self.depth = 0

    def _apply_inline(self, ex, p, g, args):
        """the callee is a straight path that only stores constants into its state argument: apply those stores"""
        if self.depth > 2:
            raise Broken("hash init/reinit call each other recursively")
        obj, off = mode.ptr_of(ex, p, args[0])
        if obj is None or off.const() != 0:
            raise Broken("%s called on something that is not the start of a hash state" % g.name)
        self.depth += 1
        try:
            sub = make_exec(g, inline=self.inline, handler=self)
            ps = sub.run()
        finally:
            self.depth -= 1
        if len(ps) != 1 or ps[0].end[0] != "ret":
            raise Broken("%s is not a straight path" % g.name)
        q = ps[0]
        for (o, k), cell in q.mem.items():
            if o == ST:
                if gf2.is_const(list(cell)) is None:
                    raise Broken("%s stores a non-constant into the hash state" % g.name)
                p.mem[(obj, k)] = cell
        for (o, k, nb), lf in q.lfmem.items():
            if o == ST:
                if lf.const() is None:
                    raise Broken("%s stores a non-constant into the hash state" % g.name)
                p.lfmem[(obj, k, nb)] = lf
        for e in q.events:
            if e[0] in ("CALL", "P", "memcpy-var", "memset-var"):
                p.events.append(e)

    def __call__(self, ex, p, I, callee, args):
        name = callee or "<indirect>"
        if name in self.inline and ex.f.name != name:
            self._apply_inline(ex, p, self.inline[name], args)
            return None
        if name.startswith("tinyjambu_permutation_"):
            return mode.Handler.__call__(self, ex, p, I, callee, args)
        n = p.ncall
        p.ncall += 1
        if name in ("memcpy-var", "memset-var"):
            p.events.append((name, n, [repr(ex.subst(p, a)) if not is_word(a) else "data" for a in args], I.id))
            return None
        p.events.append(("CALL", n, name, tuple(repr(ex.subst(p, a)) if not is_word(a) else "data" for a in args), I.id))
        if name == "tinyjambu_clean" and len(args) >= 2 and not is_word(args[0]) and not is_word(args[1]):
            # a wipe is a store of zeros: a temporary wiped before its last use then shows in the values compared
            ob_, _of = ex.subst(p, args[0]).base()
            lc = ex.subst(p, args[1]).const()
            if ob_ is not None and ob_[0] == "alloca" and lc is not None and 0 < lc <= 256:
                ex.store(p, args[0], [gf2.ZERO] * (8 * lc), lc, None)
        return None


def make_exec(f, starts=None, arg_consts=None, pre=(), inline=None, handler=None, peel=(), head_consts=None):
    return irx.Exec(f, handler or Handler(inline), havoc="auto", auto=True, split_max=16, starts=starts, arg_consts=arg_consts,
                    int_cells=lambda ob, off, n: ob == ST and (off, n) == (48, PSZ[0]),
                    callee_writes={"tinyjambu_permutation_256": {0: (0, 16)}}, pre_conds=pre, peel=peel, head_consts=head_consts, endptr=True, unrotate=True)


def posn_starts():
    out = []
    for pz in range(16):
        def setup(ex, path, pz=pz):
            path.lfmem[(ST, 48, PSZ[0])] = Lf.c(pz)
            path.start_lfmem = dict(path.lfmem)
        out.append(("posn=%d" % pz, setup))
    return out


def no_data_branches(f, paths):
    """a branch on data bits makes the per-path values conditional: the summaries cannot be compared bit for bit
    (that is C07's violation, not a construction verdict)"""
    for p in paths:
        if any(e[0] == "cond-data" for e in p.events):
            raise Broken("%s branches on data bits: path summaries are not comparable with the reference (constant-time rule C07 decides such code)" % f.name)


def check_compress_events(c, f, p, pevents, S, K03, blockbytes, domain, tag):
    """two permutation events implementing compress(domain) on block `blockbytes` (16 symbolic bytes);
    returns (S', K03') or None"""
    if len(pevents) != 2:
        c("CONSTR", False, "%s-two-permutations" % tag, "", "%d permutation calls where one compression (2 calls) is expected" % len(pevents))
        return None
    B = [mode.le_bytes(blockbytes[4 * i: 4 * i + 4], 4) for i in range(4)]
    key = list(K03) + [gf2.wnot(b) for b in B]
    Ld = [gf2.wxor(S[0], W(domain)), S[1], S[2], S[3]]
    Ld1 = [gf2.wxor(Ld[0], W(1)), Ld[1], Ld[2], Ld[3]]
    e1, e2 = pevents
    ok = True
    for e, want_s, nm in ((e1, Ld, "L^d"), (e2, Ld1, "L^d^1")):
        got_s = [list(w) for w in e[3]]
        got_k = [list(w) for w in e[4]]
        where = relpath(f.insts[e[5]].where)
        ok &= c("CONSTR", e[2] == ROUNDS, "%s-rounds(%s)" % (tag, nm), "permutation runs %d rounds (2560 steps)" % ROUNDS,
                "compression permutation runs %s rounds, specification says %d" % (e[2], ROUNDS), where)
        ok &= c("CONSTR", mode.words_eq(got_s, want_s), "%s-state(%s)" % (tag, nm), "permutation input state is %s (domain %d)" % (nm, domain),
                "permutation input differs from %s with domain %d: %s" % (nm, domain, mode.first_diff(got_s, want_s)), where)
        ok &= c("CONSTR", mode.words_eq(got_k, key), "%s-key(%s)" % (tag, nm), "permutation key is R || M (k[0..3], NOT LE32(block))",
                "permutation key differs from R || M: %s" % mode.first_diff(got_k, key), where)
    Q, Q2 = mode.Pw(e1[1]), mode.Pw(e2[1])
    S2 = [gf2.wxor(Q[i], Ld[i]) for i in range(4)]
    K2 = [gf2.wnot(gf2.wxor(Q2[i], Ld1[i])) for i in range(4)]
    return (S2, K2) if ok else None


def run_update(ck_ob, mod, label):
    set_posn_size(mod)
    f = mod.fn("tinyjambu_hash_update")
    IN = ("arg", 1)
    NLEN = ("n", 2)
    where0 = relpath("%s:%d" % (f.file, f.line))

    def c(rule, cond, construct, ok, bad, where=None):
        return ck_ob(cond, rule, f.name, "%s[%s]" % (construct, label), ok, bad, where or where0)
    for k_ in [k_ for k_ in AUXPHIS if k_[0] == f.name]:
        del AUXPHIS[k_]
    ex = make_exec(f, starts=posn_starts())
    paths = ex.run(max_paths=3000)
    no_data_branches(f, paths)
    # a block loop that also tops up the buffer in its first round (helper integers - the position to copy to, the amount to take - that are
    # special in the first iteration and constant afterwards): the first iteration is made part of the entry path (peeled) and the generic
    # iteration is evaluated with the steady values, which must then be what every iteration hands on
    for l in f.loops:
        if l.get("parent", -1) != -1:
            continue
        h_ = l["header"]
        ph_ = [f.insts[i] for i in f.blocks[h_].insts if f.insts[i].op == "phi"]
        ints_ = [I for I in ph_ if not (I.get("ty") or "").endswith("*")]
        if len(ints_) <= 1 or not any(p_.end[0] == "loop-entry" and p_.end[1] == h_ for p_ in paths):
            continue
        ex2 = make_exec(f, starts=posn_starts(), peel={h_})
        p2 = ex2.run(max_paths=3000)
        ent = [p_ for p_ in p2 if p_.end[0] == "loop-entry" and p_.end[1] == h_]
        hc = {}
        for I in ints_:
            vals = {repr(p_.env.get(("init", I.id))) for p_ in ent}
            v0 = ent[0].env.get(("init", I.id)) if ent else None
            if len(vals) == 1 and v0 is not None and not is_word(v0) and v0.const() is not None:
                hc[I.id] = v0.const()
        if len(hc) != len(ints_) - 1:
            continue        # not this shape: the per-class rule below says what it does not recognise
        ex = make_exec(f, starts=posn_starts(), peel={h_}, head_consts=hc)
        paths = ex.run(max_paths=3000)
        no_data_branches(f, paths)
        for p_ in paths:
            if p_.end[0] == "backedge" and p_.end[1] == h_:
                for pid, v_ in hc.items():
                    bv = p_.env.get(("back", pid))
                    if bv is None or is_word(bv) or ex.subst(p_, bv).const() != v_:
                        raise Broken("tinyjambu_hash_update: a helper integer carried by the block loop does not keep its steady value %d (it becomes %s): unrecognised shape" % (v_, bv))
        AUXPHIS[(f.name, h_)] = set(hc)
        break
    # the input length keeps its full width: a value computed from inlen that is cut to fewer bits with no bound on the path decides wrongly
    # for inputs of 2^w bytes and more (complete, and independent of the loop shape: looked at before the shape is)
    seen_n = set()
    for p_ in paths:
        for e_ in p_.events:
            if e_[0] == "narrowing" and e_[1] not in seen_n and not (len(e_) > 4 and e_[4]):
                seen_n.add(e_[1])
                c("STREAM", False, "length-narrowed#%s" % e_[1], "",
                  "the length-derived value %s is truncated to %d bits with no bound on this path: for an update of 2^%d bytes or more the wrong number of bytes is buffered or compressed"
                  % (e_[3], e_[2], e_[2]), relpath(f.insts[e_[1]].where))
    if seen_n:
        return len(seen_n)
    # whole-block loops: the top-level loops carrying one input cursor and one remaining length (inner loops with a
    # decided trip count are followed by the executor; several alternative block loops, e.g. per alignment class, are allowed)
    tops = {}
    for l in f.loops:
        if l.get("parent", -1) != -1:
            continue
        hdr_ = l["header"]
        ptrs_ = [f.insts[i] for i in f.blocks[hdr_].insts if f.insts[i].op == "phi" and (f.insts[i].get("ty") or "").endswith("*")]
        ints_ = [f.insts[i] for i in f.blocks[hdr_].insts if f.insts[i].op == "phi" and not (f.insts[i].get("ty") or "").endswith("*")]
        ints_ = [I for I in ints_ if I.id not in AUXPHIS.get((f.name, hdr_), ())]
        if not ints_ and hdr_ in ex.vrem:
            # a loop driven by a cursor and an end pointer: the distance between them plays the remaining length
            import types
            ints_ = [types.SimpleNamespace(id=ex.vrem[hdr_][0])]
            ptrs_ = [P_ for P_ in ptrs_ if P_.id == ex.vrem[hdr_][1]]
        ended = any(p_.end[0] in ("loop-entry", "backedge") and p_.end[1] == hdr_ for p_ in paths)
        if not ended:
            continue        # a helper loop with a decided trip count (followed by the executor), e.g. inside an inlined compression function
        if len(ptrs_) != 1 or len(ints_) != 1:
            raise Broken("tinyjambu_hash_update: expected one cursor and one remaining-length phi at the head of each block loop")
        tops[hdr_] = (ptrs_, ints_)
    if not tops:
        raise Broken("tinyjambu_hash_update: no whole-block loop found")
    n = 0
    style = {}
    entry_posn, iter_posn, relies = [], [], [False]
    handover = {}
    seen = {"A": set(), "B": set(), "iter": {h: 0 for h in tops}, "exit": {h: set() for h in tops}}
    # entry paths (from the function entry) first: they determine what drives each block loop
    paths = sorted(paths, key=lambda p_: 0 if [e_ for e_ in p_.events if e_[0] == "class" and e_[1] == "start"] else 1)
    for p in paths:
        if p.end[0] in ("loop-entry", "backedge") and p.end[1] not in tops:
            raise Broken("tinyjambu_hash_update: an inner loop without a decided trip count (header block %s)" % p.end[1])
        cls = [e for e in p.events if e[0] == "class" and e[1] == "start"]
        fresh = not cls
        pev = [e for e in p.events if e[0] == "P"]
        calls = [e for e in p.events if e[0] in ("CALL", "memcpy-var", "memset-var")]
        if calls:
            raise Broken("tinyjambu_hash_update: calls / variable-length copies that the per-class analysis cannot resolve (%s): unrecognised shape" % [x[2] if len(x) > 2 else x[0] for x in calls][:3])
        bad_ev = [e for e in p.events if e[0] in ("load-unknown", "store-unknown", "load-sym", "out-sym", "read-uninit")]
        if bad_ev:
            raise Broken("tinyjambu_hash_update: memory accesses the per-class analysis cannot resolve (%s)" % (bad_ev[:2],))
        c("STREAM", True, "no-unknown-calls", "only permutation calls", "")
        posn_end = p.lfmem.get((ST, 48, PSZ[0]))
        if not fresh:
            pz = int(cls[0][2].split("=")[1])
            S0 = words_at(p, ST, 0, 4, True)
            K0 = words_at(p, ST, 16, 4, True)
            pend = [mem_byte(p, ST, 32 + i, True) for i in range(pz)]
            if p.end[0] == "ret":
                # the whole input fits into the buffer without filling it
                nlen = p.eqs.get(NLEN)
                if nlen is None:
                    raise Broken("tinyjambu_hash_update: a path returns before the block loop without its conditions fixing the input length (buffer position %d): unrecognised shape" % pz)
                if pz > 0 and pz + nlen == 16:
                    # the input fills the buffer exactly and the function returns right after compressing it (no block loop needed)
                    seen["A"].add((pz, nlen))
                    blk = pend + [mode.inbyte(IN, i) for i in range(nlen)]
                    r_ = check_compress_events(lambda rule, cond, cons, ok, bad, where=None: c(rule, cond, cons + "(posn=%d)" % pz, ok, bad, where), f, p, pev, S0, K0, blk, 0, "exact-fill")
                    if r_:
                        c("CONSTR", mode.words_eq(words_at(p, ST, 0, 8), r_[0] + r_[1]), "exact-fill-result(posn=%d)" % pz, "chaining value = (L', NOT R')",
                          "stored chaining value differs: %s" % mode.first_diff(words_at(p, ST, 0, 8), r_[0] + r_[1]))
                    c("STREAM", posn_end == Lf.c(0), "exact-fill-posn(posn=%d)" % pz, "buffer empty (position 0) after the block was compressed", "buffer position is %s after an exactly filled block was compressed, expected 0" % posn_end)
                    n += 8
                    continue
                seen["A"].add((pz, nlen))
                okb = all(mem_byte(p, ST, 32 + pz + i) == mode.inbyte(IN, i) for i in range(nlen)) and all(mem_byte(p, ST, 32 + i) == pend[i] for i in range(pz))
                c("STREAM", not pev and pz + nlen < 16, "short-no-compress(posn=%d,len=%d)" % (pz, nlen), "buffer not full: nothing compressed", "compression although only %d bytes are buffered" % (pz + nlen))
                c("STREAM", okb, "short-append(posn=%d,len=%d)" % (pz, nlen), "the %d input bytes are appended after the %d buffered ones" % (nlen, pz),
                  "buffer after the call is not (buffered bytes || input bytes)")
                c("STREAM", posn_end == Lf.c(pz + nlen), "short-posn(posn=%d,len=%d)" % (pz, nlen), "position advances to %d" % (pz + nlen),
                  "buffer position becomes %s, expected %d" % (posn_end, pz + nlen))
                c("STREAM", mode.words_eq(words_at(p, ST, 0, 8), S0 + K0), "short-chaining(posn=%d,len=%d)" % (pz, nlen), "chaining value untouched", "chaining value modified without a compression")
                n += 4
            elif p.end[0] == "loop-entry":
                seen["B"].add(pz)
                ptrs, ints = tops[p.end[1]]
                ini_c, ini_r = p.env.get(("init", ptrs[0].id)), p.env.get(("init", ints[0].id))
                take = (16 - pz) if pz else 0
                if pz == 0 and pev and ini_c is not None and not is_word(ini_c) and ini_c == Lf({IN: 1, 1: 16}):
                    take = 16       # an empty buffer may be filled with the first 16 input bytes and compressed by the same code that tops up a partly filled one
                if take == 0:
                    c("STREAM", not pev, "entry-nothing(posn=0)", "empty buffer: straight to the block loop", "a compression happens although the buffer is empty")
                else:
                    blk = pend + [mode.inbyte(IN, i) for i in range(take)]
                    r = check_compress_events(lambda rule, cond, cons, ok, bad, where=None: c(rule if rule != "CONSTR" else "CONSTR", cond, cons + "(posn=%d)" % pz, ok, bad, where),
                                              f, p, pev, S0, K0, blk, 0, "top-up")
                    if r:
                        S1, K1 = r
                        c("CONSTR", mode.words_eq(words_at(p, ST, 0, 8), S1 + K1), "top-up-result(posn=%d)" % pz, "chaining value = (L', NOT R')",
                          "stored chaining value differs: %s" % mode.first_diff(words_at(p, ST, 0, 8), S1 + K1))
                    okg = any(cc[0] in ("ugt", "ule", "uge", "ult") for cc in p.conds)
                    n += 8
                want_c = Lf({IN: 1, 1: take}) if take else Lf.s(IN)
                want_r = Lf({NLEN: 1, 1: -take}) if take else Lf.s(NLEN)
                # recognised only if the loop carries (input pointer + constant, input length - constant); a block counter or an index is another shape
                def _form(v, sym):
                    return v is not None and not is_word(v) and set(k_ for k_ in v if k_ != 1) == {sym} and v[sym] == 1
                dvq = [d_ for d_ in p.divs.values() if d_[3] == 16 and ini_r is not None and not is_word(ini_r) and ini_r == Lf.s(d_[0])]
                if _form(ini_c, IN) and len(dvq) == 1 and _form(dvq[0][2], NLEN):
                    # the loop counts whole blocks: counter = (remaining length) / 16, the left-over bytes are (remaining length) % 16
                    style[p.end[1]] = ("count", dvq[0][0], dvq[0][1])
                    ini_r = dvq[0][2]
                elif not (_form(ini_c, IN) and _form(ini_r, NLEN)):
                    raise Broken("tinyjambu_hash_update: the block loop is not driven by (input cursor, remaining length or block count) but by %s / %s: unrecognised shape" % (ini_c, ini_r))
                else:
                    style.setdefault(p.end[1], ("rem",))
                c("STREAM", ini_c == want_c and ini_r == want_r, "entry-cursor(posn=%d)" % pz, "block loop starts at in + %d with inlen - %d bytes left" % (take, take),
                  "block loop starts with cursor %s / remaining %s, expected %s / %s: input bytes are skipped or re-read" % (ini_c, ini_r, want_c, want_r))
                entry_posn.append((pz, posn_end))
                # the path must require inlen >= take
                n += 2
            continue
        # generic iteration / exit from the loop head
        h0 = p.blocks[0] if p.blocks else None
        if h0 not in tops:
            raise Broken("tinyjambu_hash_update: a generic path does not start at a block-loop head")
        ptrs, ints = tops[h0]
        cur, rem = ("hdp", ptrs[0].id), ("hd", ints[0].id)
        S0 = words_at(p, ST, 0, 4, True)
        K0 = words_at(p, ST, 16, 4, True)
        if p.end[0] == "loop-entry" and p.end[1] in tops and p.end[1] != h0:
            # from one block loop to the next (a loop taking several blocks per round, then the single-block loop): nothing happens in between
            # and the next loop goes on with the same cursor and remaining length
            p2, i2 = tops[p.end[1]]
            ok_h = not pev and p.env.get(("init", p2[0].id)) == Lf.s(cur) and p.env.get(("init", i2[0].id)) == Lf.s(rem) \
                and mode.words_eq(words_at(p, ST, 0, 8), S0 + K0) and posn_end == p.start_lfmem.get((ST, 48, PSZ[0]), posn_end)
            c("STREAM", ok_h, "loop-handover", "the next block loop continues with the same cursor and remaining length; nothing is compressed in between",
              "between two block loops: cursor %s remaining %s, %d permutation call(s)" % (p.env.get(("init", p2[0].id)), p.env.get(("init", i2[0].id)), len(pev)))
            handover[h0] = p.end[1]
            style.setdefault(p.end[1], style.get(h0, ("rem",)))
            n += 1
            continue
        if p.end[0] == "backedge" and style.get(h0, ("rem",))[0] != "count":
            br_ = p.env.get(("back", ints[0].id))
            adv_ = br_.add(Lf.s(rem), -1).const() if br_ is not None and not is_word(br_) else None
            if adv_ is not None and adv_ < -16 and (-adv_) % 16 == 0 and -adv_ <= 256:
                # several blocks per round: the consecutive 16-byte groups at the cursor, compressed in order on the chained value
                nb_ = -adv_ // 16
                seen["iter"][h0] += 1
                S_, K_ = S0, K0
                okall = len(pev) == 2 * nb_
                c("CONSTR", okall, "bulk-permutations(%d)" % nb_, "%d compressions (2 permutation calls each) per round" % nb_, "%d permutation calls in a round that consumes %d bytes" % (len(pev), -adv_))
                for j_ in range(nb_ if okall else 0):
                    blk_ = [mode.inbyte(cur, 16 * j_ + i) for i in range(16)]
                    r_ = check_compress_events(lambda rule, cond, cons, ok, bad, where=None, j_=j_: c(rule, cond, cons + "(block %d of %d)" % (j_ + 1, nb_), ok, bad, where), f, p, pev[2 * j_: 2 * j_ + 2], S_, K_, blk_, 0, "bulk")
                    if not r_:
                        okall = False
                        break
                    S_, K_ = r_
                if okall:
                    c("CONSTR", mode.words_eq(words_at(p, ST, 0, 8), S_ + K_), "bulk-result", "chaining value = (L', NOT R') after the last block of the round",
                      "stored chaining value differs: %s" % mode.first_diff(words_at(p, ST, 0, 8), S_ + K_))
                bc = p.env.get(("back", ptrs[0].id))
                okg = any(cc[0] == "uge" and cc[2] and cc[1] == Lf({rem: 1, 1: adv_}) for cc in p.conds)
                c("STREAM", okg, "bulk-guard", "%d blocks are taken only when at least %d bytes remain" % (nb_, -adv_), "loop guard is not 'remaining >= %d'" % -adv_)
                c("STREAM", bc == Lf({cur: 1, 1: -adv_}) and br_ == Lf({rem: 1, 1: adv_}), "bulk-advance", "cursor += %d, remaining -= %d" % (-adv_, -adv_),
                  "after a round cursor=%s remaining=%s: input skipped or re-read" % (bc, br_))
                iter_posn.append(posn_end == p.start_lfmem.get((ST, 48, PSZ[0])) or posn_end == Lf.c(0))
                n += 4
                continue
        if p.end[0] == "backedge":
            seen["iter"][h0] += 1
            blk = [mode.inbyte(cur, i) for i in range(16)]
            r = check_compress_events(c, f, p, pev, S0, K0, blk, 0, "block")
            if r:
                S1, K1 = r
                c("CONSTR", mode.words_eq(words_at(p, ST, 0, 8), S1 + K1), "block-result", "chaining value = (L', NOT R') after a whole block",
                  "stored chaining value differs: %s" % mode.first_diff(words_at(p, ST, 0, 8), S1 + K1))
            bc, br = p.env.get(("back", ptrs[0].id)), p.env.get(("back", ints[0].id))
            if style.get(h0, ("rem",))[0] == "count":
                okg = ex._range(p, Lf({rem: 1}))[0] >= 1
                c("STREAM", okg, "block-guard", "a whole block is taken only while the block counter is not 0", "loop guard does not exclude a block counter of 0")
                c("STREAM", bc == Lf({cur: 1, 1: 16}) and br == Lf({rem: 1, 1: -1}), "block-advance", "cursor += 16, block counter -= 1",
                  "after a block cursor=%s counter=%s: input skipped or re-read" % (bc, br))
            else:
                okg = any(cc[0] == "uge" and cc[2] and cc[1] == Lf({rem: 1, 1: -16}) for cc in p.conds)
                c("STREAM", okg, "block-guard", "a whole block is taken only when at least 16 bytes remain", "loop guard is not 'remaining >= 16'")
                c("STREAM", bc == Lf({cur: 1, 1: 16}) and br == Lf({rem: 1, 1: -16}), "block-advance", "cursor += 16, remaining -= 16",
                  "after a block cursor=%s remaining=%s: input skipped or re-read" % (bc, br))
            iter_posn.append(posn_end == p.start_lfmem.get((ST, 48, PSZ[0])) or posn_end == Lf.c(0))
            n += 10
        elif p.end[0] == "ret" and style.get(h0, ("rem",))[0] == "count":
            from .aeadlib import residue_cases
            if p.eqs.get(rem) != 0:
                raise Broken("tinyjambu_hash_update: the block-counting loop is left with the counter not known to be 0: unrecognised shape")
            rcs = residue_cases(ex, p, style[h0][2], f.name, top=15)
            if len(rcs) != 1:
                raise Broken("tinyjambu_hash_update: the left-over length is not fixed by the conditions of a tail path (%s): unrecognised shape" % rcs)
            r = rcs[0]
        elif p.end[0] == "ret":
            r = p.eqs.get(rem)
            if r is None:
                raise Broken("tinyjambu_hash_update: a path leaves the block loop without its conditions fixing the remaining length to one of 0..15: unrecognised shape")
        if p.end[0] == "ret":
            seen["exit"][h0].add(r)
            c("STREAM", not pev, "tail-no-compress(%d)" % r, "fewer than 16 bytes left: nothing compressed", "compression with only %d bytes left" % r)
            okb = all(mem_byte(p, ST, 32 + i) == mode.inbyte(cur, i) for i in range(r))
            c("STREAM", okb, "tail-stash(%d)" % r, "the %d left-over bytes are stashed at the start of the buffer" % r, "left-over bytes are not stashed at buffer[0..%d)" % r)
            # the position is either set to the left-over length here, or - with nothing left over - left as the block loop keeps it,
            # which then must be 0 from the loop's entry on (decided below, once all paths are known)
            if r == 0 and posn_end != Lf.c(0) and posn_end == p.start_lfmem.get((ST, 48, PSZ[0])):
                relies[0] = True
                c("STREAM", True, "tail-posn(0)", "position left as the block loop keeps it (0: see entry-posn / block-posn)", "")
            else:
                c("STREAM", posn_end == Lf.c(r), "tail-posn(%d)" % r, "position = %d" % r, "buffer position becomes %s, expected %s" % (posn_end, Lf.c(r)))
            c("STREAM", mode.words_eq(words_at(p, ST, 0, 8), S0 + K0), "tail-chaining(%d)" % r, "chaining value untouched", "chaining value modified without a compression")
            n += 4
    wantA = {(pz, ln) for pz in range(1, 16) for ln in range(0, 16 - pz)}
    exact = {(pz, 16 - pz) for pz in range(1, 16)}
    # (an empty buffer may also take the short path - stash at position 0 without entering the block loop - which is the same machine)
    empty_short = {(0, ln) for ln in range(16)}
    if seen["B"] != set(range(16)) or not (wantA <= seen["A"] <= wantA | exact | empty_short) or any((seen["exit"][h] != set(range(16)) and h not in handover) or (h in handover and seen["exit"][h]) or seen["iter"][h] < 1 for h in tops):
        raise Broken("tinyjambu_hash_update: the path classes found do not partition (buffer position, length) the way the stream machine is analysed "
                     "(entry %d/16, short %d/%d extra %s, tails %s iterations %s): unrecognised shape" % (len(seen["B"]), len(seen["A"] & wantA), len(wantA), sorted(seen["A"] - wantA)[:3], [sorted(seen["exit"][h]) for h in tops], [seen["iter"][h] for h in tops]))
    for pz, pe in entry_posn:
        if relies[0]:
            c("STREAM", pe == Lf.c(0), "entry-posn(posn=%d)" % pz, "buffer empty (position 0) when the block loop starts", "buffer position is %s when the block loop starts, expected 0 (the loop's exit with nothing left over does not set it)" % pe)
        else:
            c("STREAM", True, "entry-posn(posn=%d)" % pz, "the position is set on every path that leaves the block loop", "")
    c("STREAM", not relies[0] or all(iter_posn), "block-posn", "buffer position untouched by whole blocks (or set on every exit)", "buffer position changed inside the block loop, and the exit with nothing left over does not set it")
    c("STREAM", True, "classes-entry", "all 16 buffer positions reach the block loop when enough input is given", "")
    c("STREAM", True, "classes-short", "all (position, short length) classes handled (%d)" % len(wantA), "")
    c("STREAM", True, "classes-loop", "whole-block iteration and all 16 tail lengths handled", "")
    return n + 3


def run_update_small(ck_ob, mod, label, maxlen=100):
    set_posn_size(mod)
    """tinyjambu_hash_update for every buffer position 0..15 and EVERY input length 0..maxlen, each evaluated as one straight path (position
    and length concrete, data symbolic): whatever the loop structure, the compressions must be those of the byte stream
    (buffered bytes || input) cut into 16-byte blocks, and the state afterwards (chaining value, left-over bytes, position) that of the
    stream machine.  Lengths beyond maxlen are not covered by this rule (the per-class rule with its generic iteration covers all lengths
    when it recognises the code); a refutation here is a concrete (position, length) with a term that differs"""
    f = mod.fn("tinyjambu_hash_update")
    IN = ("arg", 1)
    li = f.param_index("inlen")
    where0 = relpath("%s:%d" % (f.file, f.line))
    n = 0
    for pz in range(16):
        bad = None
        for ln in range(maxlen + 1):
            def setup(ex_, path, pz=pz):
                path.lfmem[(ST, 48, PSZ[0])] = Lf.c(pz)
                path.start_lfmem = dict(path.lfmem)
            ex = make_exec(f, starts=[("posn=%d" % pz, setup)], arg_consts={li: ln})
            paths = ex.run(max_paths=50)
            if len(paths) != 1 or paths[0].end[0] != "ret":
                raise Broken("tinyjambu_hash_update: with buffer position %d and length %d the function is not one straight path (%d paths): not decided by the small-length rule" % (pz, ln, len(paths)))
            p = paths[0]
            if any(e[0] in ("cond-data", "load-unknown", "store-unknown", "load-sym", "out-sym", "read-uninit", "CALL", "memcpy-var", "memset-var") for e in p.events):
                raise Broken("tinyjambu_hash_update: with buffer position %d and length %d the path has accesses / calls / data branches the evaluation does not resolve: not decided by the small-length rule" % (pz, ln))
            S = words_at(p, ST, 0, 4, True)
            K = words_at(p, ST, 16, 4, True)
            stream = [mem_byte(p, ST, 32 + i, True) for i in range(pz)] + [mode.inbyte(IN, i) for i in range(ln)]
            nblk, r = (pz + ln) // 16, (pz + ln) % 16
            pev = [e for e in p.events if e[0] == "P"]
            why = None
            if len(pev) != 2 * nblk:
                why = "%d permutation calls where %d block(s) of the stream are complete (2 calls each)" % (len(pev), nblk)
            else:
                for j in range(nblk):
                    blk = stream[16 * j: 16 * j + 16]
                    B = [mode.le_bytes(blk[4 * i: 4 * i + 4], 4) for i in range(4)]
                    key = list(K) + [gf2.wnot(b) for b in B]
                    Ld = [gf2.wxor(S[0], W(0)), S[1], S[2], S[3]]
                    Ld1 = [gf2.wxor(Ld[0], W(1)), Ld[1], Ld[2], Ld[3]]
                    e1, e2 = pev[2 * j], pev[2 * j + 1]
                    for e, want_s, nm in ((e1, Ld, "L"), (e2, Ld1, "L^1")):
                        got_s, got_k = [list(w) for w in e[3]], [list(w) for w in e[4]]
                        if e[2] != ROUNDS:
                            why = why or "block %d: permutation runs %s rounds" % (j, e[2])
                        elif not mode.words_eq(got_s, want_s):
                            why = why or "block %d: permutation input is not %s of the chaining value: %s" % (j, nm, mode.first_diff(got_s, want_s))
                        elif not mode.words_eq(got_k, key):
                            why = why or "block %d: the block compressed is not bytes %d..%d of the stream (buffered bytes || input): %s" % (j, 16 * j, 16 * j + 15, mode.first_diff(got_k, key))
                    Q, Q2 = mode.Pw(e1[1]), mode.Pw(e2[1])
                    S = [gf2.wxor(Q[i], Ld[i]) for i in range(4)]
                    K = [gf2.wnot(gf2.wxor(Q2[i], Ld1[i])) for i in range(4)]
                if why is None and not mode.words_eq(words_at(p, ST, 0, 8), S + K):
                    why = "chaining value after the call: %s" % mode.first_diff(words_at(p, ST, 0, 8), S + K)
                left = stream[16 * nblk:]
                if any(b_ is gf2.TOP for i in range(r) for b_ in mem_byte(p, ST, 32 + i)):
                    raise Broken("tinyjambu_hash_update: a buffered byte is not representable in the term domain: not decided by the small-length rule")
                if why is None and not all(mem_byte(p, ST, 32 + i) == left[i] for i in range(r)):
                    why = "the %d left-over byte(s) of the stream are not at the start of the block buffer" % r
                if why is None and p.lfmem.get((ST, 48, PSZ[0])) != Lf.c(r):
                    why = "buffer position becomes %s, expected %d" % (p.lfmem.get((ST, 48, PSZ[0])), r)
            if why is not None and bad is None:
                bad = (ln, why)
        ck_ob(bad is None, "SMALL", f.name, "stream-machine(posn=%d,len=0..%d)[%s]" % (pz, maxlen, label),
              "with %d byte(s) buffered, for every input length 0..%d: the compressions are those of (buffered bytes || input) cut into 16-byte blocks, in order, on the chained value; "
              "left-over bytes and position as the stream machine leaves them (each length one straight path, data symbolic)" % (pz, maxlen),
              "with %d byte(s) buffered and an input of %s byte(s): %s" % (pz, bad[0] if bad else "?", bad[1] if bad else ""), where0)
        n += 1
    return n


def run_finalize(ck_ob, mod, label):
    set_posn_size(mod)
    f = mod.fn("tinyjambu_hash_finalize")
    OUT = ("arg", 1)
    where0 = relpath("%s:%d" % (f.file, f.line))

    def c(rule, cond, construct, ok, bad, where=None):
        return ck_ob(cond, rule, f.name, "%s[%s]" % (construct, label), ok, bad, where or where0)
    ex = make_exec(f, starts=posn_starts())
    paths = ex.run()
    no_data_branches(f, paths)
    n = 0
    seen = set()
    for p in paths:
        cls = [e for e in p.events if e[0] == "class" and e[1] == "start"]
        if not cls or p.end[0] != "ret":
            raise Broken("tinyjambu_hash_finalize is not one straight path per buffer position (a path ends with %s): unrecognised shape" % (p.end[0],))
        pz = int(cls[0][2].split("=")[1])
        seen.add(pz)
        S0 = words_at(p, ST, 0, 4, True)
        K0 = words_at(p, ST, 16, 4, True)
        pend = [mem_byte(p, ST, 32 + i, True) for i in range(pz)]
        blk = pend + [gf2.const_word(1, 8)] + [gf2.const_word(0, 8)] * (15 - pz)
        pev = [e for e in p.events if e[0] == "P"]
        calls = [e for e in p.events if e[0] in ("CALL", "memcpy-var", "memset-var")]
        # (a wipe of a local temporary - e.g. a word array the digest is assembled in - hashes nothing)
        calls = [e for e in calls if not (e[0] == "CALL" and e[2] == "tinyjambu_clean" and str(e[3][0]).startswith("alloca"))]
        c("CONSTR", not calls, "finalize-calls(posn=%d)" % pz, "only permutation calls", "unexpected calls / unresolved variable-length fill: %s" % [x[2] for x in calls][:3])
        r = check_compress_events(lambda rule, cond, cons, ok, bad, where=None: c(rule, cond, cons + "(posn=%d)" % pz, ok, bad, where), f, p, pev, S0, K0, blk, 2, "final")
        if r:
            S1, K1 = r
            outs = mode.outs_of(p)
            exp = []
            for i in range(4):
                exp.extend([S1[i][8 * b: 8 * b + 8] for b in range(4)])
            for i in range(4):
                R = gf2.wnot(K1[i])
                exp.extend([R[8 * b: 8 * b + 8] for b in range(4)])
            bad = [i for i in range(32) if outs.get((OUT, i)) != exp[i]]
            c("CONSTR", not bad, "digest-format(posn=%d)" % pz, "digest = LE32(L'[0..3]) || LE32(R'[0..3])", "digest byte %s is not the specified byte of L' || R'" % bad[:3])
            extra = [k for k in outs if k[0] != OUT or not 0 <= k[1] < 32]
            c("CONSTR", not [k for k in extra if k[0] == OUT], "digest-range(posn=%d)" % pz, "exactly 32 output bytes", "writes outside out[0..32): %s" % extra[:3])
            c("STREAM", p.lfmem.get((ST, 48, PSZ[0])) == Lf.c(0), "finalize-posn(posn=%d)" % pz, "position reset to 0", "position after finalize is %s" % p.lfmem.get((ST, 48, PSZ[0])))
        n += 10
    c("CONSTR", seen == set(range(16)), "finalize-classes", "all 16 buffer positions handled", "positions handled: %s" % sorted(seen))
    return n + 1


def run_init(ck_ob, mod, label):
    set_posn_size(mod)
    f = mod.fn("tinyjambu_hash_init")
    where0 = relpath("%s:%d" % (f.file, f.line))

    def c(rule, cond, construct, ok, bad, where=None):
        return ck_ob(cond, rule, f.name, "%s[%s]" % (construct, label), ok, bad, where or where0)
    inl = {n_: mod.fn(n_) for n_ in ("tinyjambu_hash_init", "tinyjambu_hash_reinit")}
    ex = make_exec(f, inline=inl)
    paths = ex.run()
    if len(paths) != 1 or paths[0].end[0] != "ret":
        raise Broken("tinyjambu_hash_init is not a straight path")
    p = paths[0]
    S = words_at(p, ST, 0, 4)
    K = words_at(p, ST, 16, 4)
    c("INIT", mode.words_eq(S, [W(0)] * 4), "init-L", "L = 0", "state words are not all zero after init: %s" % mode.first_diff(S, [W(0)] * 4))
    c("INIT", mode.words_eq(K, [W(0xFFFFFFFF)] * 4), "init-R", "stored k[0..3] = 0xFFFFFFFF (R = 0 pre-inverted)", "k[0..3] not all-ones after init: %s" % mode.first_diff(K, [W(0xFFFFFFFF)] * 4))
    c("INIT", p.lfmem.get((ST, 48, PSZ[0])) == Lf.c(0), "init-posn", "buffer position = 0", "buffer position after init is %s (left from the previous use of the object)" % p.lfmem.get((ST, 48, PSZ[0])))
    # reinit and one-shot
    g = mod.fn("tinyjambu_hash_reinit")
    ex2 = make_exec(g, inline=inl)
    ps = ex2.run()
    ev = [e for pp in ps for e in pp.events if e[0] == "CALL"]
    direct = False
    missing = []
    if len(ps) == 1 and not ev:
        q = ps[0]
        if not mode.words_eq(words_at(q, ST, 0, 4), [W(0)] * 4):
            missing.append("L = 0")
        if not mode.words_eq(words_at(q, ST, 16, 4), [W(0xFFFFFFFF)] * 4):
            missing.append("R = 0 (k[0..3] all-ones)")
        if q.lfmem.get((ST, 48, PSZ[0])) != Lf.c(0):
            missing.append("buffer position = 0")
        direct = not missing
    ck_ob(direct, "INIT", g.name, "reinit[%s]" % label,
          "reinit resets the state completely (same as init), whatever the object held",
          "reinit does not reset the whole state like init does: not established: %s (calls %s)" % (missing, [(e[2], e[3]) for e in ev]),
          relpath("%s:%d" % (g.file, g.line)))
    h = mod.fn("tinyjambu_hash")

    class _Snap(Handler):
        """records what the local state holds when the data is handed to hash_update (the state may be initialised by the public
        init/reinit or directly by the same stores, e.g. through an inlined static helper)"""
        def __call__(self, ex, p, I, callee, args):
            if (callee or "") == "tinyjambu_hash_update":
                obj, off = mode.ptr_of(ex, p, args[0])
                if obj is not None and obj[0] == "alloca" and off.const() == 0:
                    p.events.append(("SNAP", words_at(p, obj, 0, 4), words_at(p, obj, 16, 4), words_at(p, obj, 48, 1)))
            return Handler.__call__(self, ex, p, I, callee, args)
    ex3 = make_exec(h, handler=_Snap())
    ps = ex3.run()
    okseq = False
    desc = ""
    ev = []
    recognised = False
    if len(ps) == 1 and ps[0].end[0] == "ret":
        ev = [e for e in ps[0].events if e[0] == "CALL"]
        snap = [e for e in ps[0].events if e[0] == "SNAP"]
        desc = [(e[2], e[3]) for e in ev]
        names_ = [e[2] for e in ev]
        A_IN, A_N, A_OUT = repr(Lf.s(("arg", 1))), repr(Lf.s(("n", 2))), repr(Lf.s(("arg", 0)))
        size_ = str(mod.typedef_size("tinyjambu_hash_state_t"))
        if names_[:1] in (["tinyjambu_hash_init"], ["tinyjambu_hash_reinit"]) and len(names_) == 4:
            initd = True
            body = ev[1:]
            stp = ev[0][3][0]
        else:
            body = ev
            stp = ev[0][3][0] if ev else ""
            # initialised in place: at the update call L = 0, stored k[0..3] = all-ones (R = 0), position 0
            initd = len(snap) == 1 and mode.words_eq(snap[0][1], [W(0)] * 4) and mode.words_eq(snap[0][2], [W(0xFFFFFFFF)] * 4) and mode.words_eq(snap[0][3], [W(0)])
        if len(body) == 3 and [e[2] for e in body[:2]] == ["tinyjambu_hash_update", "tinyjambu_hash_finalize"] and body[2][2] in ("tinyjambu_hash_free", "tinyjambu_clean"):
            recognised = True
            wiped = body[2][3] == (stp,) if body[2][2] == "tinyjambu_hash_free" else body[2][3] == (stp, size_)
            okseq = initd and stp.startswith("alloca") and body[0][3] == (stp, A_IN, A_N) and body[1][3] == (stp, A_OUT) and wiped
    if not recognised:
        raise Broken("tinyjambu_hash (one-shot) is not written as init; update; finalize; free on a local state (calls %s): this shape is not analysed" % (desc,))
    ck_ob(okseq, "ONESHOT", h.name, "one-shot[%s]" % label, "hash(out,in,inlen) = init; update(in,inlen); finalize(out); free on one local state",
          "one-shot hash is not init; update(in,inlen); finalize(out); free: %s" % (desc,), relpath("%s:%d" % (h.file, h.line)))
    return 5


def writable_globals_of(mod, is_root):
    """writable globals referenced (directly or through constant expressions) by the functions reachable from the
    root functions over direct calls"""
    wr = {g["name"] for g in mod.globals if not g["constant"]}
    if not wr:
        return set()
    todo = [f.name for f in mod.fns.values() if is_root(f.name) and f.blocks]
    seen = set(todo)
    found = set()

    def scan(o):
        if not isinstance(o, (tuple, list)) or not o:
            return
        if o[0] == "g" and o[1] in wr:
            found.add(o[1])
        elif o[0] == "ce":
            for x in (o[2] or []):
                scan(x)
    while todo:
        f = mod.fns[todo.pop()]
        for I in f.real_insts():
            for o in I.ops:
                scan(tuple(o) if isinstance(o, list) else o)
            if I.op == "call":
                for a in I.call_args():
                    scan(a)
                if I.callee in mod.fns and I.callee not in seen and mod.fns[I.callee].blocks:
                    seen.add(I.callee)
                    todo.append(I.callee)
    return found


def written_globals(mod):
    """non-constant globals that some instruction of the module may modify: the target of a store or mem intrinsic, or handed to a call
    (a never-written, never-escaping static table that merely lacks `const` carries no state from one call to the next)"""
    from .. import ir
    wr = {g["name"] for g in mod.globals if not g["constant"]}
    out = set()

    def gname(v):
        v = tuple(v) if isinstance(v, list) else v
        if not isinstance(v, tuple) or not v:
            return None
        if v[0] == "g":
            return v[1]
        if v[0] == "ce":
            for x in (v[2] or []):
                n_ = gname(x)
                if n_:
                    return n_
        return None
    for f in mod.fns.values():
        for I in f.real_insts():
            cands = []
            if I.op == "store":
                cands.append(I.ops[1])
                cands.append(I.ops[0])          # the address itself stored somewhere: escapes
            elif I.op == "call":
                cands.extend(I.call_args())
            elif I.op in ("ptrtoint", "phi", "select", "ret"):
                cands.extend(o for o in I.ops if isinstance(o, (list, tuple)))
            for v in cands:
                v = tuple(v) if isinstance(v, list) else v
                n_ = gname(v)
                if n_ is None and isinstance(v, tuple) and v and v[0] == "i":
                    b_, _o = ir.ptr_base(f, v)
                    n_ = gname(b_)
                if n_ in wr:
                    out.add(n_)
    return out


def premises(ck, mod, rule, label="H/N0", perm=True):
    """the hash layer as a premise of a construction built on it (HMAC, HKDF, PBKDF2, PRNG): all C10/C11 rules
    re-run and reported under the caller's rule id - if the hash is not the documented one, or does not stream, the
    construction above it is not the documented one either"""
    def ob(cond, r_, fn, cons, ok, bad, where=None):
        return ck.ob(cond, rule, fn, cons, ok, bad, where=where)
    n = run_init(ob, mod, label) + run_finalize(ob, mod, label) + run_update(ob, mod, label)
    if perm:
        from . import C05

        class _R:
            def __init__(self, ck_):
                self._ck = ck_

            def ob(self, cond, r_, *a, **k):
                return self._ck.ob(cond, rule, *a, **k)

            def ok(self, r_, *a, **k):
                self._ck.ok(rule, *a, **k)

            def bad(self, r_, *a, **k):
                self._ck.bad(rule, *a, **k)

            def __getattr__(self, n_):
                return getattr(self._ck, n_)
        C05.c_backend_rule(_R(ck), mod, "256", label)
    return n


def run_update_both(ck, ck_ob, mod, label, maxlen=100):
    """the small-length rule (shape-independent, lengths 0..maxlen) and the per-class rule (all lengths, needs a recognised shape).  A shape the
    per-class rule does not recognise is exit 2 unless the small-length rule has already refuted a concrete (position, length)"""
    n = 0
    small_broken = None
    nviol0 = len(ck.violations)
    try:
        n += run_update_small(ck_ob, mod, label, maxlen=(max(maxlen, 200) if getattr(ck, 'tier', 'quick') == 'thorough' else maxlen))
    except Broken as e:
        small_broken = e
    nviol = len(ck.violations)
    snap = ck.snapshot()
    try:
        n += run_update(ck_ob, mod, label)
    except Broken as e:
        ck.rollback(snap)
        if len(ck.violations) == nviol0:
            raise
        ck.note("per-class rule for tinyjambu_hash_update not decided: %s" % str(e)[:200])
        return n
    if small_broken is not None and len(ck.violations) == nviol:
        ck.note("small-length rule for tinyjambu_hash_update not decided: %s" % str(small_broken)[:200])
    return n
