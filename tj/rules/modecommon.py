"""Shared driver for C01 / C02 / C08 / C09 (mode-level conformance by symbolic path summaries)."""
import os
from ..build import Broken
from ..facts import Module, relpath
from .. import gf2, mode
from . import aeadlib, duallib


def duality_selfcheck(ck, rule, kind):
    """the reference model itself: decrypt(block) inverts encrypt(block) and leaves the same state, for r = 1..4"""
    for r in (1, 2, 3, 4):
        Q = [gf2.sym_word(("Q", i), 32) for i in range(4)]
        mb = [gf2.sym_word(("m", k), 8) for k in range(r)]
        x = mode.le_bytes(mb, r)
        cw = gf2.wxor(x, Q[2])
        cb = [cw[8 * k: 8 * k + 8] for k in range(r)]
        y = mode.mask_r(gf2.wxor(mode.le_bytes(cb, r), Q[2]), r)
        ok = y == x
        if kind == "aead":
            s_enc = gf2.wxor(Q[3], x)
            s_dec = gf2.wxor(Q[3], y)
            ok = ok and s_enc == s_dec
        ck.ob(ok, rule, "(reference model)", "duality(r=%d,%s)" % (r, kind),
              "reference decrypt block inverts reference encrypt block and both leave the same state (r = %d bytes)" % r,
              "reference model is inconsistent for r = %d" % r)


def run_mode(ck, build, kinds, rulemap, helper_fns=True, floor_obl=300):
    mod = Module(build.facts("H", "N0"))
    ck.config("H", "N0")
    label = "H/N0"
    n = 0
    if helper_fns:
        for ks in ("128", "192", "256"):
            n += aeadlib.check_setup(ck, mod, ks, label, rulemap)
            n += aeadlib.check_gentag(ck, mod, ks, label, rulemap)
            ab_broken = None
            if "SMALL" in rulemap:
                try:
                    n += aeadlib.check_absorb_small(ck, mod, ks, label, rulemap, maxlen=(200 if getattr(ck, 'tier', 'quick') == 'thorough' else 100))
                except Broken as e:
                    ab_broken = e
            snap = ck.snapshot()
            try:
                n += aeadlib.check_absorb(ck, mod, ks, label, rulemap)
            except Broken as e:
                ck.rollback(snap)
                if not ck.violations:
                    raise
                ck.note("per-class rule not decided for tinyjambu_absorb_%s: %s" % (ks, str(e)[:200]))
    fns = aeadlib.cipher_fns(mod, kinds)
    ck.floor("MODE", "cipher entry points analysed", len(fns), 6 * len(kinds))
    if "LEN" in rulemap:
        for f in fns:
            outparam_rule(ck, f, rulemap["LEN"], label)
    if "KEYINIT" in rulemap:
        for f in fns:
            keyinit_rule(ck, f, rulemap["KEYINIT"], label)
    for f in fns:
        small_broken = None
        if "SMALL" in rulemap or "SMALLIO" in rulemap or "SMALLMEM" in rulemap:
            # shape-independent: every message length up to 40 as straight paths (refutes whatever the loops look like)
            try:
                n += aeadlib.check_cipher_small(ck, mod, f, label, rulemap, maxlen=(200 if getattr(ck, 'tier', 'quick') == 'thorough' else 100))
            except Broken as e:
                small_broken = e
        nviol = len(ck.violations)
        snap = ck.snapshot()
        try:
            n += aeadlib.check_cipher(ck, mod, f, label, rulemap)
        except Broken as e:
            ck.rollback(snap)
            if not ck.violations:
                raise
            # the small-length rule (or a rule on another function) has refuted concrete cases; that the per-class rule does not follow this code's shape does not take them back
            ck.note("per-class rule not decided for %s: %s" % (f.name, str(e)[:200]))
            continue
        if small_broken is not None:
            ck.note("small-length rule not decided for %s: %s" % (f.name, str(small_broken)[:200]))
    ck.floor("MODE", "obligations over path summaries", len(ck.obligations), floor_obl)
    return mod, fns, n


def outparam_rule(ck, f, rule, label):
    """the length out-parameter (*clen / *mlen) is write-only until the function has stored it: every load from it is dominated by a store
    to it.  A load before the first store makes the result depend on what the caller's variable happened to hold (complete: every load
    of the function is looked at)"""
    from .. import ir
    for nm in ("clen", "mlen"):
        try:
            pi = f.param_index(nm)
        except Exception:
            continue
        if pi is None or not (f.params[pi]["ty"] or "").endswith("*"):
            continue
        stores = [I for I in f.insts if I.op == "store" and ir.ptr_base(f, tuple(I.ops[1]))[0] == ("a", pi)]
        loads = [I for I in f.insts if I.op == "load" and ir.ptr_base(f, tuple(I.ops[0]))[0] == ("a", pi)]
        bad = [L for L in loads if not any(f.dominates(S.id, L.id) for S in stores)]
        ck.ob(not bad, rule, f.name, "length-out-write-only[%s]" % label, "*%s is never read before it has been stored (%d load(s), %d store(s))" % (nm, len(loads), len(stores)),
              "*%s is read before the function has stored it: the result depends on what the caller's variable held" % nm,
              where=relpath(bad[0].where) if bad else relpath("%s:%d" % (f.file, f.line)))


def keyinit_rule(ck, f, rule, label):
    """every key word of the local cipher state is stored before the first call that is handed the state: a word left out is whatever the
    stack held (complete where all stores into the state in front of that call have constant offsets; a loop or helper that fills the key
    with a variable index is left to the summaries)"""
    from .. import ir
    import re as _re
    m = _re.match(r"tinyjambu_(128|192|256)_", f.name)
    if not m:
        return
    nk = int(m.group(1)) // 32
    first = None
    for I in f.insts:
        if I.op == "call" and not I.is_dbg() and not I.is_lifetime() and (I.callee or "").startswith("tinyjambu_"):
            args = I.call_args()
            if args:
                b, o = ir.ptr_base(f, tuple(args[0]))
                Ib = f.inst(b) if b and b[0] == "i" else None
                if Ib is not None and Ib.op == "alloca" and o == 0 and Ib.get("alloc_size") == 16 + 4 * nk:
                    first = (I, b)          # (the local cipher state: four state words and nk key words)
                    break
    if first is None:
        return
    call, base = first
    offs, variable = set(), False
    for S in f.insts:
        if S.op != "store":
            continue
        b, o = ir.ptr_base(f, tuple(S.ops[1]))
        if b != base:
            continue
        if o is None:
            variable = True
        elif f.dominates(S.id, call.id):
            for k_ in range(S.get("size") or 4):
                offs.add(o + k_)
    other = [I for I in f.insts if I.op == "call" and I.id != call.id and not I.is_dbg() and not I.is_lifetime() and f.dominates(I.id, call.id)
             and any(ir.ptr_base(f, tuple(a))[0] == base for a in I.call_args() if isinstance(a, (list, tuple)) and a and a[0] in ("i", "a"))]
    if variable or other:
        return
    missing = [i for i in range(nk) if not all((16 + 4 * i + k_) in offs for k_ in range(4))]
    ck.ob(not missing, rule, f.name, "key-words-stored[%s]" % label, "all %d key words of the local state are stored before %s is called" % (nk, call.callee),
          "key word(s) %s of the local state are never stored before %s is called: the cipher runs on whatever the stack held there" % (missing, call.callee), where=relpath(call.where))


def run_pairs(ck, mod, kinds, rulemap, label="H/N0", sizes=("128", "192", "256")):
    """relational encrypt-vs-decrypt obligations (C01 / C08)"""
    n = 0
    if "SETUPFN" in rulemap or "SETUPSENS" in rulemap:
        for ks in sizes:
            n += aeadlib.check_setup_function(ck, mod, ks, label, rulemap)
    for kind in kinds:
        for ks in sizes:
            n += duallib.check_pair(ck, mod, ks, kind, label, rulemap)
    return n


def fixture_control(ck, build, kinds, rulemap, fixture, wants, pair_rulemap=None):
    fx = Module(build.fixture_facts(os.path.join(os.path.dirname(os.path.dirname(os.path.dirname(__file__))), "fixtures", fixture)))
    sub = type(ck)("mode-fixture")
    for f in aeadlib.cipher_fns(fx, kinds):
        try:
            aeadlib.check_cipher(sub, fx, f, "fixture", rulemap)
        except Broken as e:
            sub.bad("BROKEN", f.name, "broken", str(e))
    if pair_rulemap:
        try:
            run_pairs(sub, fx, kinds, {k_: v_ for k_, v_ in pair_rulemap.items() if not k_.startswith("SETUP")}, "fixture", sizes=("128",))
        except Broken as e:
            sub.bad("BROKEN", fixture, "broken", str(e))
    got = {v["rule"] for v in sub.violations}
    for w in wants:
        ck.control("%s:%s" % (fixture, w), w in got, "rules violated on fixture: %s" % sorted(got))


def nostate_rule(ck, build, rule, kinds, what):
    """premise of every per-call rule: the result is a function of the arguments.  -> True if a writable global is referenced by a function
    reachable from the entry points (the per-call summaries then say nothing about the property; the caller stops there)"""
    from . import hashlib
    mod = Module(build.facts("H", "N0"))
    wg = hashlib.writable_globals_of(mod, lambda n_: bool(aeadlib.FN_RE.match(n_)) and aeadlib.FN_RE.match(n_).group(2) in kinds)
    if wg:
        # (a table that merely lacks `const` - never stored to, never handed to a callee, its address never taken - carries nothing from call to call)
        wg &= hashlib.written_globals(mod)
    where = None
    if wg:
        g0 = [g for g in mod.globals if g["name"] in wg]
        from ..facts import relpath
        where = relpath("%s:%s" % (g0[0].get("file"), g0[0].get("line"))) if g0 and g0[0].get("file") else None
    ck.rule(rule, "no function reachable from %s refers to a global or function-static object that anything in the library may modify (whole call graph over direct calls; a table that merely lacks `const` and is never stored to does not count): the result of a call depends on its arguments only, not on "
            "earlier calls - the premise under which one call can be summarised at all (a transparent cache would be reported here too; it is C19's violation in any case)" % what)
    ck.ob(not wg, rule, "(module)", "no-hidden-state[H/N0]", "none of the functions reachable from %s refers to writable global state" % what,
          "functions reachable from %s refer to writable global / static object(s) %s: what a call returns can depend on the keys and data of earlier calls" % (what, sorted(wg)), where=where)
    return bool(wg)
