"""C10 — TinyJAMBU-Hash equals its documented MDPH construction for every message (construction conformance)."""
import os
from ..build import Broken
from ..facts import Module
from . import hashlib, C05

LEVEL = "other"
MAP = {"CONSTR": "R-C10-CONSTR", "STREAM": "R-C10-BLOCKS", "INIT": "R-C10-CONSTR", "ONESHOT": "R-C10-BLOCKS", "SMALL": "R-C10-SMALL"}


def run(ck, build):
    ck.rule("R-C10-CONSTR", "every compression (in update's top-up, whole-block loop and finalize) is, bit for bit in the GF(2) term domain with the permutation uninterpreted: "
            "K = R || M with k[0..3] stored inverted and M = NOT LE32(block); L ^= domain; L' = P(K, L) ^ L; R' = P(K, L^1) ^ (L^1); 20 rounds (2560 steps); domain 0 except 2 for the final block; "
            "init = (L = 0, R = 0); padding 0x01 then zeros at the buffer position; digest = LE32(L') || LE32(R')")
    ck.rule("R-C10-BLOCKS", "the 16-byte blocks compressed are exactly the consecutive 16-byte groups of the message (C11's streaming rules): for each of the 16 buffer positions and every "
            "length class the block contents are tracked byte for byte")
    ck.rule("R-C10-SMALL", "independent of the loop structure: for each of the 16 buffer positions and EVERY input length 0..100 (each one straight path with symbolic data) update performs exactly "
            "the MDPH compressions of the complete 16-byte blocks of (buffered bytes || input), in order, on the chained value (20 rounds, key R || M, inputs L and L^1)")
    ck.rule("R-C10-PERM", "the 256-bit C permutation backend equals the bit-serial NLFSR for every round count (C05's rule)")
    ck.not_decided += ["digest values (nothing is computed); the transcription of the MDPH description in tj/rules/hashlib.py is trusted",
                       "big-endian hosts (the LW_UTIL_LITTLE_ENDIAN branch is the one compiled here)", "alignment independence is C06's R-BYTEWISE"]
    mod = Module(build.facts("H", "N0"))
    ck.config("H", "N0")

    def ob(cond, rule, fn, cons, ok, bad, where=None):
        return ck.ob(cond, MAP[rule], fn, cons, ok, bad, where=where)
    n = hashlib.run_init(ob, mod, "H/N0") + hashlib.run_finalize(ob, mod, "H/N0") + hashlib.run_update_both(ck, ob, mod, "H/N0")
    ck.floor("R-C10", "obligations over hash path classes", len(ck.obligations), 600)

    class _R:
        def __init__(self, ck):
            self._ck = ck

        def ob(self, cond, rule, *a, **k):
            return self._ck.ob(cond, "R-C10-PERM", *a, **k)

        def ok(self, rule, *a, **k):
            self._ck.ok("R-C10-PERM", *a, **k)

        def bad(self, rule, *a, **k):
            self._ck.bad("R-C10-PERM", *a, **k)

        def __getattr__(self, n_):
            return getattr(self._ck, n_)
    C05.c_backend_rule(_R(ck), mod, "256", "H/N0")
    fx = Module(build.fixture_facts(os.path.join(os.path.dirname(os.path.dirname(os.path.dirname(__file__))), "fixtures", "c10_bad.c")))
    sub = type(ck)("C10-fixture")

    def ob2(cond, rule, fn, cons, ok, bad, where=None):
        return sub.ob(cond, MAP[rule], fn, cons, ok, bad, where=where)
    try:
        hashlib.run_finalize(ob2, fx, "fixture")
        hashlib.run_update(ob2, fx, "fixture")
    except Broken as e:
        sub.bad("BROKEN", "fixture", "broken", str(e))
    got = {v["rule"] for v in sub.violations}
    ck.control("c10_bad.c", {"R-C10-CONSTR", "R-C10-BLOCKS"} <= got, "rules violated on fixture: %s" % sorted(got))
    ck.coverage_extra.update({"path_classes": "16 buffer positions x (short lengths, top-up, generic whole block, 16 tail lengths) + 16 finalize classes", "exhaustive": True,
                              "exhaustive_over": "all buffer-position classes and length classes of init/update/finalize"})
