"""C04 — no unauthenticated plaintext: the buffer is zeroed on every rejection.
Shares its rules with C03 (same facts): R-C04-WIPE, R-C04-ARGS, plus R-C03-MUST as ONLYEXIT."""
import os
from ..build import Broken
from ..facts import Module
from . import C03

LEVEL = "other"


class _Filter:
    """keep C04's rules (and the must-pass rule under C04's name); drop the C03-only ones"""

    def __init__(self, ck):
        self._ck = ck

    def _map(self, rule):
        if rule.startswith("R-C04"):
            return rule
        if rule == "R-C03-MUST":
            return "R-C04-ONLYEXIT"
        if rule == "R-C03-CMP":
            return "R-C04-MASKSRC"
        return None

    def ob(self, cond, rule, *a, **k):
        r = self._map(rule)
        if r is None:
            return cond
        return self._ck.ob(cond, r, *a, **k)

    def ok(self, rule, *a, **k):
        r = self._map(rule)
        if r:
            self._ck.ok(r, *a, **k)

    def bad(self, rule, *a, **k):
        r = self._map(rule)
        if r:
            self._ck.bad(r, *a, **k)

    def __getattr__(self, n):
        return getattr(self._ck, n)


def run(ck, build):
    ck.rule("R-C04-WIPE", "check_tag: residue-affine coverage analysis (D-COV) - in every (alignment, length) class the stores to the plaintext buffer tile exactly [0, plaintext_len), "
            "whatever the loop structure (byte loop, or head/words/tail); every such store writes (old bytes & mask) bit for bit; every mask bit used is 1 on accept and 0 on all 255 reject classes")
    ck.rule("R-C04-MASKSRC", "the mask is derived from the same accumulator whose fold gives the verdict (C03's compare-loop rules), so reject <=> mask = 0")
    ck.rule("R-C04-ARGS", "all 6 AEAD + SIV decrypt call sites pass the entry value of m (not the advanced cursor) and clen - 8 (affine equality, through the *mlen reload)")
    ck.rule("R-C04-ONLYEXIT", "for every clen class >= 8 every path returns through the single check_tag call: no exit between the first plaintext store and the verdict")
    ck.not_decided += ["that the accepted plaintext equals the original message (C01/C08)"]
    ck.assume("distinct pointer parameters do not overlap (except c == m)")
    mod = Module(build.facts("H", "N0"))
    ck.config("H", "N0")
    label = "H/N0"
    fl = _Filter(ck)
    fns = C03.dec_fns(mod)
    ck.floor("R-C04", "decrypt entry points (AEAD + SIV)", len(fns), 6)
    for f in fns:
        C03.guard_and_must(fl, f, label)
        C03.args_rule(fl, mod, f, label, parts=("C04",))
    try:
        C03.cmp_rule(fl, mod, label)
    except Broken as e:
        if not ck.violations:
            raise
        # the call-site rules above already refuted obligations; that the wipe loop itself cannot be summarised does not take them back
        ck.note("wipe loop not decided: %s" % str(e)[:200])
    fx = Module(build.fixture_facts(os.path.join(os.path.dirname(os.path.dirname(os.path.dirname(__file__))), "fixtures", "c03_bad.c")))
    sub = type(ck)("C04-fixture")
    C03.cmp_rule(sub, fx, "fixture")
    for g in C03.dec_fns(fx):
        C03.args_rule(sub, fx, g, "fixture", parts=("C04",))
    got = {v["construct"].split("[")[0] for v in sub.violations}
    for want in ("wipe-coverage", "wipe-start"):
        ck.control("c03_bad.c:" + want, want in got, "got %s" % sorted(got))
    # negative control: a CORRECT word-at-a-time wipe must be proven, not flagged
    nx = Module(build.fixture_facts(os.path.join(os.path.dirname(os.path.dirname(os.path.dirname(__file__))), "fixtures", "neutral_wordwise.c")))
    sub2 = type(ck)("C04-neutral")
    try:
        C03.cmp_rule(sub2, nx, "neutral")
        bad2 = [v for v in sub2.violations if v["rule"].startswith("R-C04")]
    except Broken as e:
        bad2 = [{"construct": "BROKEN: %s" % e}]
    if bad2:
        raise Broken("negative control neutral_wordwise.c is not proven (checker bug): %s" % [v["construct"] for v in bad2][:3])
    ck.controls.append({"control": "neutral_wordwise.c (must be proven)", "fired": False, "detail": "correct word-wise wipe: coverage and values proven"})
    ck.coverage_extra.update({"decrypt_functions": [f.name for f in fns], "exhaustive": True,
                              "exhaustive_over": "all 6 decrypt call sites; all 256 accumulator values for the mask"})
