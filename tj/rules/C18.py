"""C18 — system entropy source under OS faults: finite-class abstract execution of
tinyjambu_trng_generate for every Unix build variant (DESIGN 5/C18)."""
import os, re
from ..build import Broken, CLANG
from ..build import run as sh
from ..facts import Module, relpath, const_val
from .. import ir, fin
from . import C17

LEVEL = "other"

OSCALLS = {"getrandom": (0, 1), "getentropy": (0, 1), "syscall": (1, 2), "read": (1, 2)}  # name -> (buf arg, len arg)
VARIANT_CALL = {"H": "getrandom", "T-getentropy": "getentropy", "T-syscall": "syscall", "T-urandom": "read"}
SEED = 32
INT_MAX = (1 << 31) - 1


def host_errnos():
    p = sh([CLANG, "-E", "-dM", "-x", "c", "-include", "errno.h", "/dev/null"])
    vals = {}
    for line in p.stdout.splitlines():
        m = re.match(r"#define\s+(E[A-Z]+)\s+(\d+)\s*$", line)
        if m:
            vals[m.group(1)] = int(m.group(2))
    if "EINTR" not in vals or "EAGAIN" not in vals:
        raise Broken("cannot determine EINTR/EAGAIN from the host <errno.h>")
    return vals


def find_oscall(f, name):
    cs = f.calls(name)
    if len(cs) != 1:
        raise Broken("%s: expected exactly one call of %s, found %d" % (f.name, name, len(cs)))
    return cs[0]


def tracked_ret(f, call):
    """the int-typed value the code inspects: the call result or its trunc"""
    keys = {("i", call.id)}
    for u in f.users(call.id):
        U = f.insts[u]
        if U.op in ("trunc", "sext", "zext"):
            keys.add(("i", U.id))
    return keys


def make_classify(f, outp, errno_val, events_extra=()):
    errno_calls = {("i", c.id) for c in f.calls("__errno_location")}

    def classify(I, e):
        if I.op == "load" and I.ops[0] in errno_calls:
            if ("errno",) in e:
                # the library itself assigned errno since the OS call: that value is what the test sees
                v = e[("errno",)]
                return ("bind", ("i", I.id), v) if isinstance(v, int) else None
            if errno_val is None:
                return None
            return ("bind", ("i", I.id), errno_val)
        if I.op == "store" and I.ops[1] in errno_calls:
            v = I.ops[0]
            val = int(v[1]) if v[0] == "c" else e.get(v, "unknown")
            if isinstance(val, int):
                val &= 0xFFFFFFFF
            return [("bind", ("errno",), val), ("errno-overwritten", val)]
        if I.op == "call":
            nm = I.callee
            intr = I.get("intrinsic") or ""
            if intr.startswith("llvm.memset"):
                a = I.call_args()
                b, o = ir.ptr_base(f, a[0])
                if b == outp:
                    ln = a[2]
                    lnv = const_val(ln) if ln[0] == "c" else None
                    val = const_val(a[1]) if a[1][0] == "c" else None
                    return ("fill-out", o, val, lnv)
                return None
            if intr.startswith("llvm.memcpy") or intr.startswith("llvm.memmove"):
                a = I.call_args()
                b, o = ir.ptr_base(f, a[0])
                if b == outp:
                    return ("write-out", "memcpy")
                return None
            if nm == "__errno_location":
                return None
            if nm == "close":
                a = I.call_args()[0]
                return ("close", e.get(a, a))
            if nm is not None:
                return ("call", nm)
            return ("call", "<indirect>")
        if I.op == "store":
            b, o = ir.ptr_base(f, I.ops[1])
            if b == outp:
                return ("write-out", "store")
        return None

    return classify


def set_ret_env(f, call, keys, r):
    env = {}
    for k in keys:
        I = f.inst(k)
        bits = I.bits or 32
        env[k] = r & ((1 << bits) - 1)
    return env


def variant_rules(ck, mod, variant, errnos):
    label = variant + "/N0"
    f = mod.fn("tinyjambu_trng_generate")
    name = VARIANT_CALL[variant]
    oc = find_oscall(f, name)
    outp = ("a", 0)
    args = oc.call_args()
    bi, li = OSCALLS[name]
    b, o = ir.ptr_base(f, args[bi])
    ck.ob(b == outp and o == 0, "R-C18-OK", f.name, "os-buffer[%s]" % label,
          "%s() fills the caller's seed buffer directly" % name, "%s() is not given the caller's seed buffer" % name, where=relpath(oc.where))
    lv, _ = ir.strip_int(f, args[li])
    ck.ob(lv[0] == "c" and const_val(lv) == SEED, "R-C18-OK", f.name, "os-length[%s]" % label,
          "%s() is asked for exactly %d bytes = the seed size" % (name, SEED),
          "%s() is asked for %s bytes, not the %d-byte seed" % (name, lv, SEED), where=relpath(oc.where))
    keys = tracked_ret(f, oc)
    EINTR, EAGAIN = errnos["EINTR"], errnos["EAGAIN"]
    other = [errnos.get("EIO", 5), errnos.get("ENOSYS", 38), errnos.get("EFAULT", 14), 0, errnos.get("EINVAL", 22)]
    # ... and every value the code itself compares errno with: a third "transient" errno is a class of its own (it must be permanent)
    errno_calls = {("i", c.id) for c in f.calls("__errno_location")}
    for I in f.insts:
        if I.op in ("icmp", "switch"):
            ops = [tuple(o) for o in I.ops if isinstance(o, (list, tuple))]
            ld = [o for o in ops if o[0] == "i" and f.inst(ir.strip_int(f, o)[0]) is not None and f.inst(ir.strip_int(f, o)[0]).op == "load"
                  and tuple(f.inst(ir.strip_int(f, o)[0]).ops[0]) in errno_calls]
            if ld:
                for o in ops:
                    if o[0] == "c" and const_val(o) not in (EINTR, EAGAIN) and const_val(o) not in other:
                        other.append(const_val(o))
                for cs in (I.get("cases") or []):
                    v_ = cs[0] if isinstance(cs, (list, tuple)) else cs
                    try:
                        v_ = int(v_)
                    except (TypeError, ValueError):
                        continue
                    if v_ not in (EINTR, EAGAIN) and v_ not in other:
                        other.append(v_)
    nclasses = 0

    def outcomes(r, en):
        cl = make_classify(f, outp, en)
        return fin.explore(f, oc.id, set_ret_env(f, oc, keys, r), cl, stop_at=[oc.id])

    neg = [-1, -4, -(1 << 31)]
    # RETRY
    for en, enn in ((EINTR, "EINTR"), (EAGAIN, "EAGAIN")):
        for r in neg:
            nclasses += 1
            ps = outcomes(r, en)
            bad = [p for p in ps if p.end[0] != "reach" or p.events]
            ck.ob(bool(ps) and not bad, "R-C18-RETRY", f.name, "retry(ret=%d,errno=%s)[%s]" % (r, enn, label),
                  "%s() failing with %s re-issues the same %s() call with no other effect" % (name, enn, name),
                  "%s() failing with %s does not simply retry: %s" % (name, enn, _desc(bad[:1])), where=relpath(oc.where),
                  path=ir.path_desc(f, bad[0].blocks) if bad else None)
    # PERM
    for en in other:
        for r in neg[:2]:
            nclasses += 1
            ps = outcomes(r, en)
            ok = bool(ps)
            why = ""
            for p in ps:
                if p.end[0] != "ret":
                    ok = False
                    why = "path does not return (%s): hangs or retries on a permanent error" % p.end[0]
                    break
                if p.ret != 0:
                    ok = False
                    why = "returns %s instead of 0" % p.ret
                    break
                fills = [e for e in p.events if e[0] == "fill-out"]
                if not any(e[1] == 0 and e[2] == 0 and e[3] == SEED for e in fills):
                    ok = False
                    why = "the seed buffer is not zero-filled (32 bytes from offset 0) before returning failure; events=%s" % (list(p.events),)
                    break
                if any(e[0] == "write-out" for e in p.events):
                    ok = False
                    why = "writes something other than zeros to the seed buffer"
                    break
            ck.ob(ok, "R-C18-PERM", f.name, "permanent(ret=%d,errno=%d)[%s]" % (r, en, label),
                  "%s() failing with errno %d: buffer zeroed (32 bytes), returns 0, no back edge" % (name, en),
                  "%s() failing with permanent errno %d: %s" % (name, en, why), where=relpath(oc.where))
    # OK
    # success values each primitive can actually return for a 32-byte request
    if name == "read":
        okvals, shortvals = [SEED], [0, 1, SEED - 1]
    elif name == "getentropy":
        okvals, shortvals = [0], []
    else:  # getrandom / raw syscall: number of bytes, never short for <= 256 bytes
        okvals, shortvals = [SEED], []
    for r in okvals:
        for en in (EINTR, other[0]):
            nclasses += 1
            ps = outcomes(r, en)
            ok = bool(ps) and all(p.end[0] == "ret" and p.ret == 1 and not any(e[0] in ("fill-out", "write-out") for e in p.events) for p in ps)
            ck.ob(ok, "R-C18-OK", f.name, "success(ret=%d,stale-errno=%d)[%s]" % (r, en, label),
                  "%s() returning %d: success reported, seed bytes are exactly the OS-provided ones" % (name, r),
                  "%s() returning %d (success) is not reported as success with an untouched buffer: %s" % (name, r, _desc(ps[:2])),
                  where=relpath(oc.where))
    for r in shortvals:
        nclasses += 1
        ps = outcomes(r, EINTR)
        ok = bool(ps) and all(p.end[0] == "reach" or (p.end[0] == "ret" and p.ret == 0 and any(e[0] == "fill-out" for e in p.events)) for p in ps)
        ck.ob(ok, "R-C18-OK", f.name, "short-read(ret=%d)[%s]" % (r, label),
              "short read of %d bytes is never reported as success" % r,
              "short read of %d bytes is reported as success: %s" % (r, _desc(ps[:2])), where=relpath(oc.where))
    # invariance of the retried call's arguments
    for k, a in enumerate(args):
        I = f.inst(a)
        inv = I is None or f.blocks[I.b].loop == -1 or I.op in ("bitcast",)
        ck.ob(inv, "R-C18-RETRY", f.name, "retry-args-invariant#%d[%s]" % (k, label),
              "argument %d of the retried call is loop-invariant" % k, "argument %d of %s() changes between retries" % (k, name), where=relpath(oc.where))
    return nclasses


def _desc(ps):
    out = []
    for p in ps:
        out.append("end=%s ret=%s events=%s" % (p.end[0], p.ret, list(p.events)))
    return "; ".join(out)


def fd_rule(ck, mod):
    label = "T-urandom/N0"
    f = mod.fn("tinyjambu_trng_generate")
    op = f.calls("open")
    if len(op) != 1:
        raise Broken("T-urandom: expected one open() call in tinyjambu_trng_generate (inlined), found %d" % len(op))
    op = op[0]
    key = ("i", op.id)
    outp = ("a", 0)
    n = 0
    for fd in (0, 3, 1023, INT_MAX):
        n += 1
        cl = make_classify(f, outp, None)
        ps = fin.explore(f, op.id, {key: fd}, cl)
        rets = [p for p in ps if p.end[0] == "ret"]
        leaks = [p for p in rets if ("close", fd) not in p.events]
        ck.ob(bool(rets) and not leaks, "R-C18-FD", f.name, "close(fd=%d)[%s]" % (fd, label),
              "every path from a successful open() to a return closes the descriptor (%d returning paths)" % len(rets),
              "a path returns without close(fd) after a successful open(): descriptor leak", where=relpath(op.where),
              path=ir.path_desc(f, leaks[0].blocks) if leaks else None)
    for fd in ((-1) & 0xFFFFFFFF,):
        n += 1
        cl = make_classify(f, outp, None)
        ps = fin.explore(f, op.id, {key: fd}, cl)
        ok = bool(ps)
        why = ""
        for p in ps:
            if p.end[0] != "ret" or p.ret != 0:
                ok, why = False, "does not return 0 (%s, %s)" % (p.end[0], p.ret)
            elif not any(e[0] == "fill-out" and e[1] == 0 and e[2] == 0 and e[3] == SEED for e in p.events):
                ok, why = False, "seed buffer not zeroed"
            elif any(e[0] == "call" and e[1] in ("read", "close") for e in p.events):
                ok, why = False, "uses the invalid descriptor"
        ck.ob(ok, "R-C18-FD", f.name, "open-failed[%s]" % label, "failed open(): buffer zeroed, returns 0, descriptor unused",
              "failed open(): %s" % why, where=relpath(op.where))
    return n


def run(ck, build):
    ck.rule("R-C18-RETRY", "per class (ret<0, errno in {EINTR,EAGAIN}): the CFG leads back to the same OS call with loop-invariant arguments and no other effect")
    ck.rule("R-C18-PERM", "per class (ret<0, other errno): every path returns 0 after memset(out,0,32) and takes no back edge")
    ck.rule("R-C18-OK", "success classes return 1 with no write to the seed buffer after the call; request is for exactly 32 bytes into the caller's buffer; short reads (read variant) never succeed")
    ck.rule("R-C18-FD", "/dev/urandom variant: every path from a successful open() to a return passes close(fd); failed open zeroes the buffer and returns 0")
    ck.rule("R-C18-PRNG", "prng_system maps TRNG status 0 to 0 bytes and init_user reports 'not seeded' for any size != 32 (C17's rules re-run on each variant)")
    ck.not_decided += ["kernel behaviour (getrandom(2) never returns short for 32 bytes: man page assumption)", "Windows / Arduino / ESP / STM32 TRNG files (vendor headers absent)"]
    ck.assume("any finite fault sequence is a word over the per-call classes {transient, permanent, success}; per-class obligations therefore cover all sequences")
    ck.assume("getrandom()/getentropy()/SYS_getrandom deliver all 32 requested bytes when they succeed (documented for requests <= 256 bytes)")
    errnos = host_errnos()
    total = 0
    for v in ("H", "T-getentropy", "T-syscall", "T-urandom"):
        mod = Module(build.facts(v, "N0"))
        ck.config(v, "N0")
        f = mod.fn("tinyjambu_trng_generate")
        # the variant must really use the OS primitive it is named after
        total += variant_rules(ck, mod, v, errnos)
        if v == "T-urandom":
            total += fd_rule(ck, mod)
        lab = v + "/N0"
        C17.system_rule(_Rename(ck, "R-C18-PRNG"), mod, lab)
        C17.status_rule(_Rename(ck, "R-C18-PRNG"), mod, "tinyjambu_prng_init_user", lab)
    ck.floor("R-C18", "fault classes explored over 4 variants", total, 40)
    # positive control
    fx = Module(build.fixture_facts(os.path.join(os.path.dirname(os.path.dirname(os.path.dirname(__file__))), "fixtures", "c18_bad.c")))
    sub = type(ck)("C18-fixture")
    variant_rules(sub, fx, "H", errnos)
    got = {v["rule"] for v in sub.violations}
    ck.control("c18_bad.c", {"R-C18-RETRY", "R-C18-PERM"} <= got, "rules violated on fixture: %s" % sorted(got))
    ck.coverage_extra.update({"fault_classes": total, "variants": ["getrandom", "getentropy", "syscall(SYS_getrandom)", "/dev/urandom"],
                              "errno_values": {"EINTR": errnos["EINTR"], "EAGAIN": errnos["EAGAIN"]},
                              "exhaustive": True, "exhaustive_over": "the abstract fault alphabet (sign/size class of the OS return value x errno class) for 4 build variants"})


class _Rename:
    """route obligations of a borrowed rule to another rule id"""

    def __init__(self, ck, rule):
        self._ck, self._rule = ck, rule

    def ob(self, cond, rule, *a, **k):
        return self._ck.ob(cond, self._rule, *a, **k)

    def ok(self, rule, *a, **k):
        return self._ck.ok(self._rule, *a, **k)

    def bad(self, rule, *a, **k):
        return self._ck.bad(self._rule, *a, **k)

    def __getattr__(self, n):
        return getattr(self._ck, n)
