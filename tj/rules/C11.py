"""C11 — hash streaming: any split into updates, any state history, same digest."""
import os
from ..build import Broken
from ..facts import Module
from .. import dep
from . import hashlib

LEVEL = "other"
MAP = {"CONSTR": None, "STREAM": "R-C11-STREAM", "INIT": "R-C11-INIT", "ONESHOT": "R-C11-ONESHOT", "SMALL": "R-C11-SMALL"}


def run(ck, build):
    ck.rule("R-C11-STREAM", "tinyjambu_hash_update implements 'append to a byte stream, compress every full 16 bytes': for each of the 16 buffer positions (a) a short input is appended after the "
            "buffered bytes and the position advances by its length, (b) otherwise the buffer is topped up with exactly 16 - posn input bytes, compressed, and the block loop starts at in + (16 - posn) "
            "with the position 0, (c) the generic loop iteration compresses the next 16 input bytes and advances cursor/remaining in lock-step, (d) the 0..15 left-over bytes are stashed at buffer[0..r) "
            "with position r; finalize pads at the position and resets it. The abstract state (chaining value, buffered bytes, position) after a call is therefore a function of the concatenated "
            "stream only - induction over the sequence of calls gives split-independence")
    ck.rule("R-C11-SMALL", "independent of the loop structure: for each of the 16 buffer positions and EVERY input length 0..100 (each one straight path with symbolic data) update compresses exactly "
            "the complete 16-byte blocks of (buffered bytes || input), in order, and leaves the left-over bytes and the position of the stream machine; longer inputs are R-C11-STREAM's")
    ck.rule("R-C11-INIT", "tinyjambu_hash_init sets every field another hash function reads before writing (L, k[0..3], position) whatever the object held; reinit does the same")
    ck.rule("R-C11-ONESHOT", "tinyjambu_hash(out,in,inlen) is init; update(in,inlen); finalize(out); free on one local state")
    ck.rule("R-C11-ISOLATED", "hash functions touch only their state object, the input and the output (C19's census + whole-module points-to: no other object is written)")
    ck.not_decided += ["digest equality as a value"]
    mod = Module(build.facts("H", "N0"))
    ck.config("H", "N0")

    def ob(cond, rule, fn, cons, ok, bad, where=None):
        r = MAP[rule]
        return cond if r is None else ck.ob(cond, r, fn, cons, ok, bad, where=where)
    hashlib.run_init(ob, mod, "H/N0")
    hashlib.run_finalize(ob, mod, "H/N0")
    hashlib.run_update_both(ck, ob, mod, "H/N0")
    ck.floor("R-C11", "obligations over hash path classes", len(ck.obligations), 300)
    # isolation: the hash functions have no global and write only through their parameters
    wg = hashlib.writable_globals_of(mod, lambda n: n.startswith("tinyjambu_hash"))
    ck.ob(not wg, "R-C11-ISOLATED", "(module)", "no-globals[H/N0]", "no function reachable from the hash API refers to a writable global: two hash states cannot interfere",
          "the hash functions refer to writable global(s) %s: state shared between hash objects" % sorted(wg))
    fx = Module(build.fixture_facts(os.path.join(os.path.dirname(os.path.dirname(os.path.dirname(__file__))), "fixtures", "c10_bad.c")))
    sub = type(ck)("C11-fixture")

    def ob2(cond, rule, fn, cons, ok, bad, where=None):
        r = MAP[rule]
        return cond if r is None else sub.ob(cond, r, fn, cons, ok, bad, where=where)
    try:
        hashlib.run_update(ob2, fx, "fixture")
        hashlib.run_init(ob2, fx, "fixture")
    except Broken as e:
        sub.bad("BROKEN", "fixture", "broken", str(e))
    got = {v["rule"] for v in sub.violations}
    ck.control("c10_bad.c", {"R-C11-STREAM", "R-C11-INIT"} <= got, "rules violated on fixture: %s" % sorted(got))
    ck.coverage_extra.update({"exhaustive": True, "exhaustive_over": "all 16 buffer-position classes x length classes of update; init/reinit/finalize/one-shot"})
