"""C12 — HMAC is RFC 2104 over TinyJAMBU-Hash for all key lengths, one-shot or streamed (construction conformance)."""
import os
from ..build import Broken
from ..facts import Module
from . import kdflib

LEVEL = "other"
MAP = {"KEYBLOCK": "R-C12-KEYBLOCK", "SEQ": "R-C12-SEQ"}


def run(ck, build):
    ck.rule("R-C12-KEYBLOCK", "finite-class analysis over the key length (each of 0..64, and > 64): in init, reinit and finalize the 64-byte block absorbed is, byte for byte in the GF(2) term domain, "
            "(key ^ pad) for the key bytes and pad for the rest (ipad 0x36 / opad 0x5C); keys longer than 64 bytes are replaced by their 32-byte digest first; the block is wiped afterwards")
    ck.rule("R-C12-SEQ", "init/reinit = inner key block only; update = hash_update of the inner state; finalize = inner digest -> local, outer key block, update(inner digest, 32), finalize(out), "
            "wipe; one-shot = init(key); update(in); finalize(key,out); wipe of the local state")
    ck.rule("R-C12-HASH", "premise: the hash underneath is the documented TinyJAMBU-Hash and streams (all rules of C10/C11 re-run on the same IR): HMAC over a different or split-dependent hash is not the documented HMAC")
    ck.not_decided += ["MAC values; that the caller passes the same key to finalize as to init (API contract)", "the hash itself is C10/C11"]
    mod = Module(build.facts("H", "N0"))
    ck.config("H", "N0")

    def ob(cond, rule, fn, cons, ok, bad, where=None):
        return ck.ob(cond, MAP[rule], fn, cons, ok, bad, where=where)
    kdflib.check_hmac(ob, mod, "H/N0")
    from . import hashlib
    hashlib.premises(ck, mod, "R-C12-HASH")
    ck.floor("R-C12", "obligations over key-length classes", len(ck.obligations), 1000)
    fx = Module(build.fixture_facts(os.path.join(os.path.dirname(os.path.dirname(os.path.dirname(__file__))), "fixtures", "c12_bad.c")))
    sub = type(ck)("C12-fixture")

    def ob2(cond, rule, fn, cons, ok, bad, where=None):
        return sub.ob(cond, MAP[rule], fn, cons, ok, bad, where=where)
    try:
        kdflib.check_hmac(ob2, fx, "fixture")
    except Broken as e:
        sub.bad("BROKEN", "fixture", "broken", str(e))
    got = {(v["rule"], v["construct"].split("(")[0]) for v in sub.violations}
    ck.control("c12_bad.c:boundary-64", any(g[0] == "R-C12-KEYBLOCK" for g in got), "fixture violations: %s" % sorted(got)[:6])
    ck.control("c12_bad.c:sequence", any(g[0] == "R-C12-SEQ" for g in got), "fixture violations: %s" % sorted(got)[:6])
    ck.coverage_extra.update({"key_length_classes": 66, "exhaustive": True, "exhaustive_over": "key-length classes 0..64 and >64 for init, reinit, finalize"})
