"""C14 — PBKDF2 is RFC 8018 PBKDF2 with TinyJAMBU-HMAC for every parameter set (construction conformance)."""
import os
from ..build import Broken
from ..facts import Module
from . import kdflib

LEVEL = "other"
MAP = {"F": "R-C14-F", "BLOCKS": "R-C14-BLOCKS", "SMALL": "R-C14-SMALL"}


def run(ck, build):
    ck.rule("R-C14-F", "per block: U1 = PRF(P, S || INT32BE(i)) - init(P); update(S); update(the 4 big-endian bytes of the block number, bit provenance checked); finalize -> T; count classes {0,1}: no "
            "chain; count > 1: U2 = PRF(P, U1), T = U1 ^ U2 over 32 bytes, then the chain loop starting from the caller's count runs while count > 2 with one generic iteration "
            "U(j+1) = PRF(P, U(j)), T ^= U(j+1), count - 1: count PRF evaluations in total")
    ck.rule("R-C14-BLOCKS", "block number starts at 1 and increases by one per block; full blocks are produced in place at the output cursor (out += 32, outlen -= 32, only when >= 32 remain); the last "
            "partial block goes through a local T, exactly the remaining 1..31 bytes are copied, T and U are wiped; exactly outlen bytes are written in total")
    ck.rule("R-C14-SMALL", "independent of the loop structure: tinyjambu_pbkdf2 as straight paths for count in {0,1,2,3,5} x EVERY outlen 0..100 (count and length concrete; data symbolic; HMAC "
            "uninterpreted): per block the PRF transcript start(P); update(S); update(INT32BE(i)); finalize, then max(count,1) - 1 chained PRFs over the previous 32-byte output; the bytes "
            "written are the XOR of the chain, exactly out[0, outlen)")
    ck.rule("R-C14-PRF", "premise: the PRF underneath is the documented TinyJAMBU-HMAC over the documented hash (all rules of C12, C10 and C11 re-run on the same IR)")
    ck.not_decided += ["derived key values; block numbers beyond 2^32 (INT32BE truncation is inherent to RFC 8018)", "HMAC itself is C12"]
    mod = Module(build.facts("H", "N0"))
    ck.config("H", "N0")

    def ob(cond, rule, fn, cons, ok, bad, where=None):
        return ck.ob(cond, MAP[rule], fn, cons, ok, bad, where=where)
    small_broken = None
    try:
        kdflib.check_pbkdf2_small(ob, mod, "H/N0", thorough=(ck.tier == "thorough"))
    except Broken as e:
        small_broken = e
    snap = ck.snapshot()
    try:
        kdflib.check_pbkdf2(ob, mod, "H/N0")
    except Broken as e:
        keep = [v for v in ck.violations if v["construct"].startswith("count-narrowed")]
        ck.rollback(snap)
        for v in keep:      # (complete in itself: a truncation of the count with no bound anywhere in the function, whatever the loops look like)
            ck.bad(v["rule"], v["function"], v["construct"], v.get("fact"), where=v.get("where"))
        if not ck.violations:
            raise
        # the small-length rule has refuted concrete cases; that the per-class rule does not follow this code's shape does not take them back
        ck.note("per-class rule for tinyjambu_pbkdf2 not decided: %s" % str(e)[:200])
    else:
        if small_broken is not None:
            ck.note("small-length rule for tinyjambu_pbkdf2 not decided: %s" % str(small_broken)[:200])
    from . import hashlib
    kdflib.hmac_premises(ck, mod, "R-C14-PRF")
    hashlib.premises(ck, mod, "R-C14-PRF")
    ck.floor("R-C14", "obligations over count / length classes", len(ck.obligations), 800)
    fx = Module(build.fixture_facts(os.path.join(os.path.dirname(os.path.dirname(os.path.dirname(__file__))), "fixtures", "c14_bad.c")))
    sub = type(ck)("C14-fixture")

    def ob2(cond, rule, fn, cons, ok, bad, where=None):
        return sub.ob(cond, MAP[rule], fn, cons, ok, bad, where=where)
    try:
        kdflib.check_pbkdf2(ob2, fx, "fixture")
    except Broken as e:
        sub.bad("BROKEN", "fixture", "broken", str(e))
    got = {v["rule"] for v in sub.violations}
    ck.control("c14_bad.c", {"R-C14-F", "R-C14-BLOCKS"} <= got, "fixture violations: %s" % sorted(got))
    ck.coverage_extra.update({"exhaustive": True, "exhaustive_over": "count classes {0,1}, >1 with generic chain iteration; full blocks and each last-block length 1..31"})
