"""Event-level conformance of HMAC / HKDF / PBKDF2 / PRNG with their documented constructions (C12-C15).

The functions are evaluated with irx (path summaries, GF(2) term domain for buffer contents) where the
hash / HMAC primitives one level below are uninterpreted events:
   ("CALL", n, callee, (argument forms...), data bytes | None)
Outputs of primitives are fresh symbols (DIGEST / MAC bytes), so the provenance of every byte that is
hashed, XORed or copied out is visible.  Lengths that the code compares with constants are split into
their classes (D-FIN); loops with constant trip counts in a class are followed, others get one generic
iteration (fresh symbols for everything the loop may write).
"""
from ..build import Broken
from ..facts import relpath, const_val
from .. import gf2, irx, mode
from ..irx import Lf, is_word

# callee models: data = (ptr arg, len arg) recorded when the length is a constant <= 96; out = (ptr arg, nbytes, tag)
MODELS = {
    "tinyjambu_hash_init": {},
    "tinyjambu_hash_reinit": {},
    "tinyjambu_hash_update": {"data": (1, 2)},
    "tinyjambu_hash_finalize": {"out": (1, 32, "DIGEST")},
    "tinyjambu_hash_free": {},
    "tinyjambu_hash": {"data": (1, 2), "out": (0, 32, "DIGEST")},
    "tinyjambu_hmac_init": {"data": (1, 2)},
    "tinyjambu_hmac_reinit": {"data": (1, 2)},
    "tinyjambu_hmac_update": {"data": (1, 2)},
    "tinyjambu_hmac_finalize": {"data": (1, 2), "out": (3, 32, "MAC")},
    "tinyjambu_hmac_free": {},
    "tinyjambu_hmac": {"out": (0, 32, "MAC")},
    "tinyjambu_clean": {"zero": (0, 1)},
    "tinyjambu_hkdf_extract": {},
    "tinyjambu_hkdf_expand": {},
    "tinyjambu_prng_reseed": {},
    "tinyjambu_prng_init_user": {},
    "tinyjambu_trng_generate": {"out": (0, 32, "TRNG")},
}


class Handler:
    def __call__(self, ex, p, I, callee, args):
        name = callee or "<indirect>"
        n = p.ncall
        p.ncall += 1
        if name in ("memcpy-var", "memset-var"):
            p.events.append(("VARMEM", n, name, tuple(repr(ex.subst(p, a)) if not is_word(a) else "data" for a in args), None, I.id))
            return None
        m = MODELS.get(name)
        if name == "<indirect>":
            # entropy callback(user, buf, size): fills buf with size fresh bytes, returns an opaque count
            sz = ex.subst(p, args[2]).const() if not is_word(args[2]) else None
            p.events.append(("CALL", n, "<callback>", tuple(repr(ex.subst(p, a)) if not is_word(a) else "data" for a in args), None, I.id))
            if sz:
                ex.store(p, args[1], [b for k in range(sz) for b in gf2.sym_word(("ENTROPY", n, k), 8)], sz, None)
            return Lf.s(("cbret", n))
        if m is None:
            raise Broken("construction-level analysis: unexpected call to %s in %s" % (name, ex.f.name))
        data = None
        if "data" in m:
            pi, li = m["data"]
            ln = args[li]
            lc = ex.subst(p, ln).const() if not is_word(ln) else gf2.is_const(ln)
            if lc is not None and 0 <= lc <= 96 and not is_word(args[pi]) and ex.subst(p, args[pi]).base()[0] is not None:
                before = len(p.events)
                bits = ex.load(p, args[pi], lc, None) if lc else []
                p.events = [e for e in p.events[:before]] + [e for e in p.events[before:] if e[0] not in ("in",)]
                data = tuple(tuple(bits[8 * k: 8 * k + 8]) for k in range(lc))
        p.events.append(("CALL", n, name, tuple(repr(ex.subst(p, a)) if not is_word(a) else "data" for a in args), data, I.id))
        if "out" in m:
            pi, nb, tag = m["out"]
            ex.store(p, args[pi], [b for k in range(nb) for b in gf2.sym_word((tag, n, k), 8)], nb, None)
        if "zero" in m:
            pi, li = m["zero"]
            lc = ex.subst(p, args[li]).const() if not is_word(args[li]) else None
            if lc:
                ex.store(p, args[pi], gf2.const_word(0, 8) * lc if False else [gf2.ZERO] * (8 * lc), lc, None)
        if name in ("tinyjambu_hkdf_expand", "tinyjambu_prng_reseed", "tinyjambu_prng_init_user"):
            return Lf.s(("ret", n))
        return None


def calls(p, names=None):
    return [e for e in p.events if e[0] == "CALL" and (names is None or e[2] in names)]


def bytes_sym(tag, n, count):
    return tuple(tuple(gf2.sym_word((tag, n, k), 8)) for k in range(count))


def inbytes(obj, count, base=0):
    return tuple(tuple(gf2.sym_word(("mem", obj, base + k), 8)) for k in range(count))


def xor_const(bs, c):
    cw = gf2.const_word(c, 8)
    return tuple(tuple(gf2.wxor(list(b), cw)) for b in bs)


def const_bytes(c, count):
    return tuple(tuple(gf2.const_word(c, 8)) for _ in range(count))


def first_byte_diff(a, b):
    if a is None:
        return "data not tracked (length not constant in this class)"
    if len(a) != len(b):
        return "%d bytes instead of %d" % (len(a), len(b))
    for i, (x, y) in enumerate(zip(a, b)):
        if tuple(x) != tuple(y):
            for j in range(8):
                if x[j] != y[j]:
                    return "byte %d bit %d is %s, specification says %s" % (i, j, gf2.describe(x[j], 3), gf2.describe(y[j], 3))
    return "?"


def no_data_branches(f, paths):
    for p in paths:
        if any(e[0] == "cond-data" for e in p.events):
            raise Broken("%s branches on data bits: path summaries are not comparable with the reference (C07 decides such code)" % f.name)


# ---------------------------------------------------------------------------
# HMAC (RFC 2104 over TinyJAMBU-Hash, 64-byte block)

BLOCK = 64


def hmac_keyblock_events(ck_ob, f, label, mask, keyarg, lenarg, tagname, statearg=0, extra_consts=None, expect_prefix=None):
    """run f once per key-length class and check the events that set the key block up:
       class n <= 64 : hash_init(S); hash_update(S, (key ^ mask)[0..n) || mask^(64-n), 64); clean(block, 64)
       class  > 64   : hash_init(S); hash_update(S, key, keylen); hash_finalize(S, tmp); then as above with key := the 32-byte digest
    `expect_prefix(p, events)` consumes and checks events before the key block (returns remaining events); returns per-class leftover events"""
    KEY = ("arg", keyarg)
    S = repr(Lf.s(("arg", statearg)))
    out = {}
    where0 = relpath("%s:%d" % (f.file, f.line))

    def c(cond, construct, ok, bad, where=None):
        return ck_ob(cond, "KEYBLOCK", f.name, "%s[%s]" % (construct, label), ok, bad, where or where0)
    classes = [("len=%d" % n, {lenarg: n}, ()) for n in range(0, BLOCK + 1)] + [("len>64", {}, [("ugt", Lf({("n", lenarg): 1, 1: -BLOCK}), True)])]
    for (cname, consts, pre) in classes:
        ac = dict(extra_consts or {})
        ac.update(consts)
        ex = irx.Exec(f, Handler(), havoc="auto", auto=True, arg_consts=ac, pre_conds=pre, split_max=4)
        paths = ex.run()
        no_data_branches(f, paths)
        rets = [p for p in paths if p.end[0] == "ret"]
        if len(paths) != 1 or len(rets) != 1:
            c(False, "%s-single-path(%s)" % (tagname, cname), "", "key length class %s does not give one straight path (%d paths; ends %s): loop not resolved or data-dependent control"
              % (cname, len(paths), [p.end[0] for p in paths][:4]))
            continue
        p = rets[0]
        ev = calls(p)
        if expect_prefix:
            ev = expect_prefix(p, ev, cname)
            if ev is None:
                continue
        var = [e for e in p.events if e[0] == "VARMEM"]
        c(not var, "%s-resolved(%s)" % (tagname, cname), "all copies have constant lengths in this class", "variable-length copy not resolved in class %s: %s" % (cname, [e[3] for e in var][:2]))
        if cname == "len>64":
            pre_ev, rest = ev[:3], ev[3:]
            okp = len(pre_ev) == 3 and [e[2] for e in pre_ev] == ["tinyjambu_hash_init", "tinyjambu_hash_update", "tinyjambu_hash_finalize"] \
                and pre_ev[0][3][0] == S and pre_ev[1][3] == (S, repr(Lf.s(KEY)), repr(Lf.s(("n", lenarg)))) and pre_ev[2][3][0] == S
            c(okp, "%s-long-key-hashed" % tagname, "keys longer than 64 bytes are first hashed: init; update(key, keylen); finalize(tmp)",
              "long-key preprocessing is not init; update(key,keylen); finalize: %s" % [(e[2], e[3]) for e in pre_ev])
            if not okp:
                continue
            keybytes = bytes_sym("DIGEST", pre_ev[2][1], 32)
            n = 32
        else:
            rest = ev
            n = consts[lenarg]
            keybytes = inbytes(KEY, n)
        want = xor_const(keybytes, mask) + const_bytes(mask, BLOCK - n)
        ok3 = len(rest) >= 3 and [e[2] for e in rest[:3]] == ["tinyjambu_hash_init", "tinyjambu_hash_update", "tinyjambu_clean"]
        c(ok3, "%s-sequence(%s)" % (tagname, cname), "key block: hash_init; hash_update(block, 64); clean(block)",
          "key block set-up is %s, expected hash_init; hash_update(block,64); clean(block,64)" % [e[2] for e in rest[:4]])
        if not ok3:
            continue
        i_, u_, cl_ = rest[:3]
        c(i_[3][0] == S and u_[3][0] == S, "%s-state(%s)" % (tagname, cname), "the inner hash state of this HMAC object is used", "hash calls use %s / %s instead of the object's hash state" % (i_[3][0], u_[3][0]))
        okd = u_[4] is not None and len(u_[4]) == BLOCK and all(tuple(x) == tuple(y) for x, y in zip(u_[4], want))
        c(okd and u_[3][2] == "64", "%s-block(%s)" % (tagname, cname),
          "64-byte block absorbed = (key ^ 0x%02X) for %d key byte(s), 0x%02X for the other %d" % (mask, n, mask, BLOCK - n),
          "block absorbed for key-length class %s differs from (key ^ 0x%02X) || 0x%02X-padding: %s" % (cname, mask, mask, first_byte_diff(u_[4], want)), relpath(f.insts[u_[5]].where))
        c(cl_[3][0] == u_[3][1] and cl_[3][1] == "64", "%s-wiped(%s)" % (tagname, cname), "the key block is wiped (64 bytes)", "key block not wiped: clean(%s, %s)" % cl_[3][:2])
        out[cname] = (p, rest[3:])
    return out


def check_hmac(ck_ob, mod, label):
    n = 0
    for fname in ("tinyjambu_hmac_init", "tinyjambu_hmac_reinit"):
        f = mod.fn(fname)
        res = hmac_keyblock_events(ck_ob, f, label, 0x36, 1, 2, "ipad")
        for cname, (p, rest) in res.items():
            ck_ob(not rest, "SEQ", f.name, "init-nothing-more(%s)[%s]" % (cname, label), "nothing after the inner key block", "unexpected calls after the key block: %s" % [e[2] for e in rest],
                  relpath("%s:%d" % (f.file, f.line)))
        n += len(res)
    # update: wrapper
    f = mod.fn("tinyjambu_hmac_update")
    ex = irx.Exec(f, Handler(), havoc="auto", auto=True)
    ps = ex.run()
    ev = calls(ps[0]) if len(ps) == 1 else []
    ok = len(ps) == 1 and len(ev) == 1 and ev[0][2] == "tinyjambu_hash_update" and ev[0][3] == (repr(Lf.s(("arg", 0))), repr(Lf.s(("arg", 1))), repr(Lf.s(("n", 2))))
    ck_ob(ok, "SEQ", f.name, "update-wrapper[%s]" % label, "hmac_update = hash_update(inner state, in, inlen)", "hmac_update is not a plain hash_update of the inner state: %s" % [(e[2], e[3]) for e in ev],
          relpath("%s:%d" % (f.file, f.line)))
    # finalize
    f = mod.fn("tinyjambu_hmac_finalize")
    OUT = repr(Lf.s(("arg", 3)))
    inner = {}

    def prefix(p, ev, cname):
        ok = bool(ev) and ev[0][2] == "tinyjambu_hash_finalize" and ev[0][3][0] == repr(Lf.s(("arg", 0))) and ev[0][3][1].startswith("alloca")
        ck_ob(ok, "SEQ", f.name, "finalize-inner(%s)[%s]" % (cname, label), "inner digest finalized into a local buffer first", "finalize does not start with hash_finalize(state, local): %s" % [(e[2], e[3]) for e in ev[:1]],
              relpath("%s:%d" % (f.file, f.line)))
        if not ok:
            return None
        inner[cname] = ev[0]
        return ev[1:]
    res = hmac_keyblock_events(ck_ob, f, label, 0x5C, 1, 2, "opad", expect_prefix=prefix)
    for cname, (p, rest) in res.items():
        e0 = inner[cname]
        want = bytes_sym("DIGEST", e0[1], 32)
        ok = len(rest) == 3 and [e[2] for e in rest] == ["tinyjambu_hash_update", "tinyjambu_hash_finalize", "tinyjambu_clean"]
        ok = ok and rest[0][3][1] == e0[3][1] and rest[0][3][2] == "32" and rest[0][4] is not None and tuple(map(tuple, rest[0][4])) == want \
            and rest[1][3] == (repr(Lf.s(("arg", 0))), OUT) and rest[2][3][0] == e0[3][1] and rest[2][3][1] == "32"
        ck_ob(ok, "SEQ", f.name, "finalize-outer(%s)[%s]" % (cname, label), "outer hash: key block (0x5C), update(inner digest, 32), finalize(out); local digest wiped",
              "after the outer key block: %s (expected update(inner digest,32); finalize(out); clean(local,32))" % [(e[2], e[3]) for e in rest], relpath("%s:%d" % (f.file, f.line)))
        n += 1
    # one-shot
    f = mod.fn("tinyjambu_hmac")
    ex = irx.Exec(f, Handler(), havoc="auto", auto=True)
    ps = ex.run()
    ev = calls(ps[0]) if len(ps) == 1 else []
    ok = [e[2] for e in ev] == ["tinyjambu_hmac_init", "tinyjambu_hmac_update", "tinyjambu_hmac_finalize", "tinyjambu_clean"]
    if ok:
        st = ev[0][3][0]
        K, KL = repr(Lf.s(("arg", 1))), repr(Lf.s(("n", 2)))
        ok = st.startswith("alloca") and ev[0][3] == (st, K, KL) and ev[1][3] == (st, repr(Lf.s(("arg", 3))), repr(Lf.s(("n", 4)))) and ev[2][3] == (st, K, KL, repr(Lf.s(("arg", 0)))) \
            and ev[3][3][0] == st and ev[3][3][1] == str(mod.typedef_size("tinyjambu_hmac_state_t"))
    ck_ob(ok, "SEQ", f.name, "one-shot[%s]" % label, "hmac(out,key,keylen,in,inlen) = init(key); update(in); finalize(key,out); wipe of the local state",
          "one-shot HMAC is %s" % [(e[2], e[3]) for e in ev], relpath("%s:%d" % (f.file, f.line)))
    return n + 3
