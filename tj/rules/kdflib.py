"""Event-level conformance of HMAC / HKDF / PBKDF2 / PRNG with their documented constructions (C12-C15).

The functions are evaluated with irx (path summaries, GF(2) term domain for buffer contents) where the
hash / HMAC primitives one level below are uninterpreted events:
   ("CALL", n, callee, (argument forms...), data bytes | None)
Outputs of primitives are fresh symbols (DIGEST / MAC bytes), so the provenance of every byte that is
hashed, XORed or copied out is visible.  Lengths that the code compares with constants are split into
their classes (D-FIN); loops with constant trip counts in a class are followed, others get one generic
iteration (fresh symbols for everything the loop may write).
"""
from ..build import Broken
from ..facts import relpath, const_val
from .. import gf2, irx, mode
from ..irx import Lf, is_word

# callee models: data = (ptr arg, len arg) recorded when the length is a constant <= 96; out = (ptr arg, nbytes, tag)
MODELS = {
    "tinyjambu_hash_init": {},
    "tinyjambu_hash_reinit": {},
    "tinyjambu_hash_update": {"data": (1, 2)},
    "tinyjambu_hash_finalize": {"out": (1, 32, "DIGEST")},
    "tinyjambu_hash_free": {},
    "tinyjambu_hash": {"data": (1, 2), "out": (0, 32, "DIGEST")},
    "tinyjambu_hmac_init": {"data": (1, 2)},
    "tinyjambu_hmac_reinit": {"data": (1, 2)},
    "tinyjambu_hmac_update": {"data": (1, 2)},
    "tinyjambu_hmac_finalize": {"data": (1, 2), "out": (3, 32, "MAC")},
    "tinyjambu_hmac_free": {},
    "tinyjambu_hmac": {"out": (0, 32, "MAC")},
    "tinyjambu_clean": {"zero": (0, 1)},
    "tinyjambu_hkdf_extract": {},
    "tinyjambu_hkdf_expand": {},
    "tinyjambu_hkdf_free": {},
    "tinyjambu_prng_reseed": {"havoc": 0},
    "tinyjambu_prng_init_user": {},
    "tinyjambu_trng_generate": {"out": (0, 32, "TRNG")},
}


class Handler:
    def __call__(self, ex, p, I, callee, args):
        name = callee or "<indirect>"
        n = p.ncall
        p.ncall += 1
        if name in ("memcpy-var", "memset-var"):
            p.events.append(("VARMEM", n, name, tuple(repr(ex.subst(p, a)) if not is_word(a) else "data" for a in args), None, I.id))
            return None
        m = MODELS.get(name)
        if name == "<indirect>":
            # entropy callback(user, buf, size): fills buf with size fresh bytes, returns an opaque count
            sz = ex.subst(p, args[2]).const() if not is_word(args[2]) else None
            pre = None
            if sz and not is_word(args[1]) and ex.subst(p, args[1]).base()[0] is not None:
                before = len(p.events)
                bits = ex.load(p, args[1], sz, None)          # what the buffer holds when the source is asked (it may deliver fewer bytes)
                p.events = p.events[:before] + [e_ for e_ in p.events[before:] if e_[0] not in ("in", "in-sym")]
                pre = tuple(tuple(bits[8 * k_: 8 * k_ + 8]) for k_ in range(sz))
            p.events.append(("CALL", n, "<callback>", tuple(repr(ex.subst(p, a)) if not is_word(a) else "data" for a in args), pre, I.id))
            if sz:
                ex.store(p, args[1], [b for k in range(sz) for b in gf2.sym_word(("ENTROPY", n, k), 8)], sz, None)
            return Lf.s(("cbret", n))
        if m is None:
            raise Broken("construction-level analysis: unexpected call to %s in %s" % (name, ex.f.name))
        data = None
        if "data" in m:
            pi, li = m["data"]
            ln = args[li]
            lc = ex.subst(p, ln).const() if not is_word(ln) else gf2.is_const(ln)
            if lc is not None and 0 <= lc <= 96 and not is_word(args[pi]) and ex.subst(p, args[pi]).base()[0] is not None:
                before = len(p.events)
                bits = ex.load(p, args[pi], lc, None) if lc else []
                p.events = [e for e in p.events[:before]] + [e for e in p.events[before:] if e[0] not in ("in",)]
                data = tuple(tuple(bits[8 * k: 8 * k + 8]) for k in range(lc))
        p.events.append(("CALL", n, name, tuple(repr(ex.subst(p, a)) if not is_word(a) else "data" for a in args), data, I.id))
        if "out" in m:
            pi, nb, tag = m["out"]
            ex.store(p, args[pi], [b for k in range(nb) for b in gf2.sym_word((tag, n, k), 8)], nb, None)
        if "zero" in m:
            pi, li = m["zero"]
            lc = ex.subst(p, args[li]).const() if not is_word(args[li]) else None
            if lc:
                ex.store(p, args[pi], gf2.const_word(0, 8) * lc if False else [gf2.ZERO] * (8 * lc), lc, None)
        if "havoc" in m:
            ob_, of_ = ex.subst(p, args[m["havoc"]]).base()
            if ob_ is not None:
                p.objgen[ob_] = p.objgen.get(ob_, 0) + 1
                for key in [kk for kk in p.mem if kk[0] == ob_]:
                    del p.mem[key]
                for key in [kk for kk in p.lfmem if kk[0] == ob_]:
                    del p.lfmem[key]
        if name in ("tinyjambu_hkdf_expand", "tinyjambu_prng_reseed", "tinyjambu_prng_init_user"):
            return Lf.s(("ret", n))
        return None


def calls(p, names=None):
    return [e for e in p.events if e[0] == "CALL" and (names is None or e[2] in names)]


def bytes_sym(tag, n, count):
    return tuple(tuple(gf2.sym_word((tag, n, k), 8)) for k in range(count))


def inbytes(obj, count, base=0):
    return tuple(tuple(gf2.sym_word(("mem", obj, base + k), 8)) for k in range(count))


def xor_const(bs, c):
    cw = gf2.const_word(c, 8)
    return tuple(tuple(gf2.wxor(list(b), cw)) for b in bs)


def const_bytes(c, count):
    return tuple(tuple(gf2.const_word(c, 8)) for _ in range(count))


def first_byte_diff(a, b):
    if a is None:
        return "data not tracked (length not constant in this class)"
    if len(a) != len(b):
        return "%d bytes instead of %d" % (len(a), len(b))
    for i, (x, y) in enumerate(zip(a, b)):
        if tuple(x) != tuple(y):
            for j in range(8):
                if x[j] != y[j]:
                    return "byte %d bit %d is %s, specification says %s" % (i, j, gf2.describe(x[j], 3), gf2.describe(y[j], 3))
    return "?"


def no_data_branches(f, paths):
    for p in paths:
        if any(e[0] == "cond-data" for e in p.events):
            raise Broken("%s branches on data bits: path summaries are not comparable with the reference (C07 decides such code)" % f.name)


# ---------------------------------------------------------------------------
# HMAC (RFC 2104 over TinyJAMBU-Hash, 64-byte block)

BLOCK = 64


def hmac_keyblock_events(ck_ob, f, label, mask, keyarg, lenarg, tagname, statearg=0, extra_consts=None, expect_prefix=None, local_state=False):
    """run f once per key-length class and check the events that set the key block up:
       class n <= 64 : hash_init(S); hash_update(S, (key ^ mask)[0..n) || mask^(64-n), 64); clean(block, 64)
       class  > 64   : hash_init(S); hash_update(S, key, keylen); hash_finalize(S, tmp); then as above with key := the 32-byte digest
    `expect_prefix(p, events)` consumes and checks events before the key block (returns remaining events); returns per-class leftover events"""
    KEY = ("arg", keyarg)
    S = repr(Lf.s(("arg", statearg)))
    out = {}
    where0 = relpath("%s:%d" % (f.file, f.line))

    def c(cond, construct, ok, bad, where=None):
        return ck_ob(cond, "KEYBLOCK", f.name, "%s[%s]" % (construct, label), ok, bad, where or where0)
    classes = [("len=%d" % n, {lenarg: n}, ()) for n in range(0, BLOCK + 1)] + [("len>64", {}, [("ugt", Lf({("n", lenarg): 1, 1: -BLOCK}), True)])]
    for (cname, consts, pre) in classes:
        ac = dict(extra_consts or {})
        ac.update(consts)
        ex = irx.Exec(f, Handler(), havoc="auto", auto=True, arg_consts=ac, pre_conds=pre, split_max=4)
        paths = ex.run()
        no_data_branches(f, paths)
        if consts.get(lenarg) != 0:
            # a null key pointer with a non-zero length is outside the contract (the key points to keylen bytes): such a path is no class
            knull = "arg:%d" % keyarg
            paths = [p for p in paths if not any(len(c_) == 3 and repr(c_[1]) == knull and ((c_[0] == "ne" and c_[2] is False) or (c_[0] == "eq" and c_[2] is True))
                                                 for c_ in getattr(p, "conds", []))]
        rets = [p for p in paths if p.end[0] == "ret"]
        if not rets or len(rets) != len(paths) or len(paths) > 4:
            raise Broken("HMAC %s: key length class %s does not give one straight path (%d paths; ends %s): loop not resolved or data-dependent control"
                         % (tagname, cname, len(paths), [p.end[0] for p in paths][:4]))
        # (more than one path in a class: classes the code itself distinguishes beyond the key length - a null key pointer, an alignment -
        # every one of them must set the documented key block up)
        cname0 = cname
        for pi_, p in enumerate(rets):
            cname = cname0 if pi_ == 0 else "%s;path-class-%d" % (cname0, pi_ + 1)
            ev_all = calls(p)
            # wipes of local temporaries are not part of the hashing sequence: they are collected (with their position) and required as a
            # set - the key block must be wiped after it was absorbed, wherever the statement stands; a wipe before the use shows in the data
            # (a temporary is whatever is not reached through a parameter: a local, or - C19's matter, not this rule's - a static buffer)
            wipes = [(i_, e) for i_, e in enumerate(ev_all) if e[2] == "tinyjambu_clean" and not e[3][0].startswith("arg")]
            ev = [e for e in ev_all if not (e[2] == "tinyjambu_clean" and not e[3][0].startswith("arg"))]
            pos_of = {id(e): i_ for i_, e in enumerate(ev_all)}
            # a long key reduced by the one-shot hash into a local buffer: it touches no hash state of the object, so where it stands
            # relative to the other calls does not matter; it is taken out here and accepted below as the long-key preprocessing
            pre_hash = None
            for i_, e in enumerate(ev):
                if e[2] == "tinyjambu_hash" and str(e[3][0]).startswith("alloca") and tuple(e[3][1:3]) == (repr(Lf.s(KEY)), repr(Lf.s(("n", lenarg)))):
                    pre_hash = e
                    ev = ev[:i_] + ev[i_ + 1:]
                    break
            if expect_prefix:
                ev = expect_prefix(p, ev, cname)
                if ev is None:
                    continue
            if local_state:
                # the HMAC object is a local of f (the one-shot function): its name is taken from the first hash call
                h0_ = [e for e in ev if e[2].startswith("tinyjambu_hash_")]
                if not h0_ or not h0_[0][3][0].startswith("alloca"):
                    raise Broken("%s: the hashing sequence does not start on a local state: this shape is not analysed" % f.name)
                S = h0_[0][3][0]
            var = [e for e in p.events if e[0] == "VARMEM"]
            c(not var, "%s-resolved(%s)" % (tagname, cname), "all copies have constant lengths in this class", "variable-length copy not resolved in class %s: %s" % (cname, [e[3] for e in var][:2]))
            if cname0 == "len>64" and pre_hash is not None:
                c(True, "%s-long-key-hashed" % tagname, "keys longer than 64 bytes are first hashed: the one-shot tinyjambu_hash(local, key, keylen) (= init; update; finalize by C10's rule on the one-shot)", "")
                rest = ev
                keybytes = bytes_sym("DIGEST", pre_hash[1], 32)
                n = 32
            elif cname0 == "len>64":
                pre_ev, rest = ev[:3], ev[3:]
                okp = len(pre_ev) == 3 and [e[2] for e in pre_ev] == ["tinyjambu_hash_init", "tinyjambu_hash_update", "tinyjambu_hash_finalize"] \
                    and pre_ev[0][3][0] == S and pre_ev[1][3] == (S, repr(Lf.s(KEY)), repr(Lf.s(("n", lenarg)))) and pre_ev[2][3][0] == S
                c(okp, "%s-long-key-hashed" % tagname, "keys longer than 64 bytes are first hashed: init; update(key, keylen); finalize(tmp)",
                  "long-key preprocessing is not init; update(key,keylen); finalize: %s" % [(e[2], e[3]) for e in pre_ev])
                if not okp:
                    continue
                keybytes = bytes_sym("DIGEST", pre_ev[2][1], 32)
                n = 32
            else:
                rest = ev
                n = consts[lenarg]
                keybytes = inbytes(KEY, n)
            want = xor_const(keybytes, mask) + const_bytes(mask, BLOCK - n)
            ok3 = len(rest) >= 2 and [e[2] for e in rest[:2]] == ["tinyjambu_hash_init", "tinyjambu_hash_update"]
            c(ok3, "%s-sequence(%s)" % (tagname, cname), "key block: hash_init; hash_update(block, 64) (and the block wiped afterwards)",
              "key block set-up is %s, expected hash_init; hash_update(block,64)" % [e[2] for e in rest[:4]])
            if not ok3:
                continue
            i_, u_ = rest[:2]
            cl_ = None
            for wi_, w_ in wipes:
                if w_[3][0] == u_[3][1] and wi_ > pos_of[id(u_)]:
                    cl_ = w_
            if cl_ is None:
                cl_ = (None, None, None, ("(no wipe of the block after it was absorbed)", "-"))
            c(i_[3][0] == S and u_[3][0] == S, "%s-state(%s)" % (tagname, cname), "the inner hash state of this HMAC object is used", "hash calls use %s / %s instead of the object's hash state" % (i_[3][0], u_[3][0]))
            okd = u_[4] is not None and len(u_[4]) == BLOCK and all(tuple(x) == tuple(y) for x, y in zip(u_[4], want))
            c(okd and u_[3][2] == "64", "%s-block(%s)" % (tagname, cname),
              "64-byte block absorbed = (key ^ 0x%02X) for %d key byte(s), 0x%02X for the other %d" % (mask, n, mask, BLOCK - n),
              "block absorbed for key-length class %s differs from (key ^ 0x%02X) || 0x%02X-padding: %s" % (cname, mask, mask, first_byte_diff(u_[4], want)), relpath(f.insts[u_[5]].where))
            c(cl_[3][0] == u_[3][1] and cl_[3][1] == "64", "%s-wiped(%s)" % (tagname, cname), "the key block is wiped (64 bytes)", "key block not wiped: clean(%s, %s)" % cl_[3][:2])
            out[cname] = (p, list(rest[2:]), [w_ for _wi, w_ in wipes]) if not local_state else (p, list(rest[2:]), [w_ for _wi, w_ in wipes], S, [e for e in ev_all if e[2] in ("tinyjambu_hmac_free", "tinyjambu_clean")])
    return out


def check_hmac(ck_ob, mod, label):
    n = 0
    forwarded = set()
    for fname in ("tinyjambu_hmac_init", "tinyjambu_hmac_reinit"):
        f = mod.fn(fname)
        # one of the two may simply forward to the other with the same (state, key, keylen): then the other one's analysis covers it
        other = "tinyjambu_hmac_reinit" if fname.endswith("_init") else "tinyjambu_hmac_init"
        try:
            ps_ = irx.Exec(f, Handler(), havoc="auto", auto=True).run()
        except Broken:
            ps_ = []
        ev_ = calls(ps_[0]) if len(ps_) == 1 and ps_[0].end[0] == "ret" else []
        if len(ev_) == 1 and ev_[0][2] == other and ev_[0][3] == (repr(Lf.s(("arg", 0))), repr(Lf.s(("arg", 1))), repr(Lf.s(("n", 2)))) and other not in forwarded \
                and not [k_ for k_ in mode.outs_of(ps_[0])]:
            forwarded.add(fname)
            ck_ob(True, "SEQ", f.name, "forwards[%s]" % label, "%s(state, key, keylen) forwards to %s with the same arguments" % (fname, other), "", relpath("%s:%d" % (f.file, f.line)))
            n += 1
            continue
        res = hmac_keyblock_events(ck_ob, f, label, 0x36, 1, 2, "ipad")
        for cname, (p, rest, _wipes) in res.items():
            ck_ob(not rest, "SEQ", f.name, "init-nothing-more(%s)[%s]" % (cname, label), "nothing after the inner key block", "unexpected calls after the key block: %s" % [e[2] for e in rest],
                  relpath("%s:%d" % (f.file, f.line)))
        n += len(res)
    # update: wrapper
    f = mod.fn("tinyjambu_hmac_update")
    ex = irx.Exec(f, Handler(), havoc="auto", auto=True)
    ps = ex.run()
    ev = calls(ps[0]) if len(ps) == 1 else []
    ok = len(ps) == 1 and len(ev) == 1 and ev[0][2] == "tinyjambu_hash_update" and ev[0][3] == (repr(Lf.s(("arg", 0))), repr(Lf.s(("arg", 1))), repr(Lf.s(("n", 2))))
    if len(ps) > 1:
        # several paths: each is the plain hash_update, or does nothing where the conditions say inlen == 0 (an update of length 0 is a no-op
        # of the hash: C10/C11's stream rule); anything else is a shape this rule does not read
        L_ = repr(Lf.s(("n", 2)))
        kinds = []
        for p_ in ps:
            e_ = calls(p_)
            zero = any(len(c_) == 3 and repr(c_[1]) == L_ and ((c_[0] == "eq" and c_[2] is True) or (c_[0] == "ne" and c_[2] is False)) for c_ in getattr(p_, "conds", []))
            if p_.end[0] == "ret" and len(e_) == 1 and e_[0][2] == "tinyjambu_hash_update" and e_[0][3] == (repr(Lf.s(("arg", 0))), repr(Lf.s(("arg", 1))), L_):
                kinds.append("plain")
            elif p_.end[0] == "ret" and not e_ and zero:
                kinds.append("nothing-for-0")
            else:
                kinds.append(None)
        if None in kinds or "plain" not in kinds:
            raise Broken("tinyjambu_hmac_update has %d paths that are not all 'plain hash_update' / 'nothing for length 0': this shape is not analysed" % len(ps))
        ok, ev = True, []
    ck_ob(ok, "SEQ", f.name, "update-wrapper[%s]" % label, "hmac_update = hash_update(inner state, in, inlen)", "hmac_update is not a plain hash_update of the inner state: %s" % [(e[2], e[3]) for e in ev],
          relpath("%s:%d" % (f.file, f.line)))
    # finalize
    f = mod.fn("tinyjambu_hmac_finalize")
    OUT = repr(Lf.s(("arg", 3)))
    inner = {}

    def prefix(p, ev, cname):
        ok = bool(ev) and ev[0][2] == "tinyjambu_hash_finalize" and ev[0][3][0] == repr(Lf.s(("arg", 0))) and ev[0][3][1].startswith("alloca")
        ck_ob(ok, "SEQ", f.name, "finalize-inner(%s)[%s]" % (cname, label), "inner digest finalized into a local buffer first", "finalize does not start with hash_finalize(state, local): %s" % [(e[2], e[3]) for e in ev[:1]],
              relpath("%s:%d" % (f.file, f.line)))
        if not ok:
            return None
        inner[cname] = ev[0]
        return ev[1:]
    res = hmac_keyblock_events(ck_ob, f, label, 0x5C, 1, 2, "opad", expect_prefix=prefix)
    for cname, (p, rest, wipes_) in res.items():
        e0 = inner[cname]
        want = bytes_sym("DIGEST", e0[1], 32)
        ok = len(rest) == 2 and [e[2] for e in rest] == ["tinyjambu_hash_update", "tinyjambu_hash_finalize"]
        if ok:
            fin_ = rest[1]
            # the local digest is wiped (anywhere after it was absorbed: a wipe before that would show in the data absorbed)
            okw = any(w_[3][0] == e0[3][1] and w_[3][1] == "32" for w_ in wipes_)
            ok = rest[0][3][1] == e0[3][1] and rest[0][3][2] == "32" and rest[0][4] is not None and tuple(map(tuple, rest[0][4])) == want \
                and fin_[3] == (repr(Lf.s(("arg", 0))), OUT) and okw
        ck_ob(ok, "SEQ", f.name, "finalize-outer(%s)[%s]" % (cname, label), "outer hash: key block (0x5C), update(inner digest, 32), finalize(out); local digest wiped",
              "after the outer key block: %s (expected update(inner digest,32); finalize(out); clean(local,32))" % [(e[2], e[3]) for e in rest], relpath("%s:%d" % (f.file, f.line)))
        n += 1
    # one-shot
    f = mod.fn("tinyjambu_hmac")
    ex = irx.Exec(f, Handler(), havoc="auto", auto=True)
    ps = ex.run()
    ev = calls(ps[0]) if len(ps) == 1 else []
    nm_ = [e[2] for e in ev]
    if nm_[:3] != ["tinyjambu_hmac_init", "tinyjambu_hmac_update", "tinyjambu_hmac_finalize"] or len(nm_) != 4 or nm_[3] not in ("tinyjambu_clean", "tinyjambu_hmac_free"):
        # second recognised form: the inner key block set up in place (the static helper behind hmac_init, inlined), the message handed to
        # the inner hash directly, then hmac_finalize and a wipe of the local state
        K, KL = repr(Lf.s(("arg", 1))), repr(Lf.s(("n", 2)))
        res = hmac_keyblock_events(ck_ob, f, label, 0x36, 1, 2, "oneshot-ipad", local_state=True)
        if not res:
            raise Broken("tinyjambu_hmac (one-shot) is not written as init; update; finalize; wipe on a local state (calls %s): this shape is not analysed" % nm_)
        for cname, (p, rest, wipes_, S_, frees_) in res.items():
            names_ = [e[2] for e in rest]
            if len(rest) < 2 or names_[0] not in ("tinyjambu_hmac_update", "tinyjambu_hash_update") or names_[1] != "tinyjambu_hmac_finalize":
                raise Broken("tinyjambu_hmac (one-shot), key length class %s: after the inner key block the calls are %s: this shape is not analysed" % (cname, names_))
            okd = rest[0][3] == (S_, repr(Lf.s(("arg", 3))), repr(Lf.s(("n", 4))))
            KLc = cname.split("=")[1].split(";")[0] if cname.startswith("len=") else KL       # in a key-length class the length argument is that constant
            okf = rest[1][3] == (S_, K, KLc, repr(Lf.s(("arg", 0))))
            size_ = str(mod.typedef_size("tinyjambu_hmac_state_t"))
            okw = any((e[2] == "tinyjambu_hmac_free" and e[3] == (S_,)) or (e[2] == "tinyjambu_clean" and e[3][:2] == (S_, size_)) for e in frees_) and len(rest) <= 3 \
                and all(e[2] in ("tinyjambu_hmac_free",) for e in rest[2:])
            ck_ob(okd and okf and okw, "SEQ", f.name, "one-shot(%s)[%s]" % (cname, label),
                  "hmac(out,key,keylen,in,inlen) = inner key block; update(in, inlen); finalize(key, keylen, out); wipe of the local state",
                  "one-shot HMAC after the inner key block: %s (local state %s)" % ([(e[2], e[3]) for e in rest], S_), relpath("%s:%d" % (f.file, f.line)))
        return n + 2 + len(res)
    ok = True
    if ok:
        st = ev[0][3][0]
        K, KL = repr(Lf.s(("arg", 1))), repr(Lf.s(("n", 2)))
        ok = st.startswith("alloca") and ev[0][3] == (st, K, KL) and ev[1][3] == (st, repr(Lf.s(("arg", 3))), repr(Lf.s(("n", 4)))) and ev[2][3] == (st, K, KL, repr(Lf.s(("arg", 0)))) \
            and ev[3][3][0] == st and (nm_[3] == "tinyjambu_hmac_free" or ev[3][3][1] == str(mod.typedef_size("tinyjambu_hmac_state_t")))
    ck_ob(ok, "SEQ", f.name, "one-shot[%s]" % label, "hmac(out,key,keylen,in,inlen) = init(key); update(in); finalize(key,out); wipe of the local state",
          "one-shot HMAC is %s" % [(e[2], e[3]) for e in ev], relpath("%s:%d" % (f.file, f.line)))
    return n + 3


# ---------------------------------------------------------------------------
def _scalar_local(f, ob, off, n):
    if ob[0] == "alloca" and off == 0 and isinstance(ob[1], int):
        A_ = f.insts[ob[1]]
        return A_.get("alloc_ty") in ("i8", "i16", "i32", "i64") and A_.get("alloc_size") == n
    return False


def compared_constants(f, limit=1 << 16):
    """integer constants the function compares something with (icmp operands, switch cases): candidates for special cases that a fixed
    list of representative values would step over"""
    out = set()
    for I in f.insts:
        if I.op == "icmp":
            for o in I.ops:
                if isinstance(o, (list, tuple)) and o and o[0] == "c":
                    try:
                        v = int(o[1])
                    except (TypeError, ValueError):
                        continue
                    if 0 <= v < limit:
                        out.add(v)
        elif I.op == "switch":
            for cs in (I.get("cases") or []):
                v = cs[0] if isinstance(cs, (list, tuple)) else cs
                try:
                    v = int(v)
                except (TypeError, ValueError):
                    continue
                if 0 <= v < limit:
                    out.add(v)
    return out



def check_hkdf_small(ck_ob, mod, label, thorough=False):
    """tinyjambu_hkdf_expand as straight paths: buffer position x block counter in {0, 1, 2, 254, 255} x EVERY outlen up to a bound - position,
    counter and length concrete, data symbolic, HMAC uninterpreted.  Compared with the sequential reference: left-over bytes first, then
    T(n) = HMAC(PRK, T(n-1) | info | n) block by block (transcript of HMAC calls and the bytes they are given), min(32, remaining) bytes
    of each block handed out, the 8-bit counter incremented per block, refusal with zero fill and -1 when the counter is 0.  Whatever
    the loop structure; a refuter only (nothing beyond the bound is covered)"""
    ST = ("arg", 0)
    fld = {m["name"]: m for m in mod.composites["tinyjambu_hkdf_state_p_t"]["members"]}
    PRK, OUTF, CNT, POSN = fld["prk"]["offset"], fld["out"]["offset"], fld["counter"]["offset"], fld["posn"]["offset"]
    if fld["counter"]["size"] != 1 or fld["posn"]["size"] != 1:
        return 0            # reported by the counter-width obligation of the per-class rule
    f = mod.fn("tinyjambu_hkdf_expand")
    w0 = relpath("%s:%d" % (f.file, f.line))
    INFO, INFOLEN = repr(Lf.s(("arg", f.param_index("info")))), repr(Lf.s(("n", f.param_index("infolen"))))
    OUTP = ("arg", f.param_index("out"))
    oi = f.param_index("outlen")
    icells = lambda ob, off, n: (ob == ST and (off, n) in ((CNT, 1), (POSN, 1))) or _scalar_local(f, ob, off, n)
    posns = list(range(33)) if thorough else [0, 1, 15, 16, 31, 32]
    # counter values: the ends of its range plus every constant the code compares anything with (and its neighbours): a special case at
    # some counter value is a class of its own
    cc_ = compared_constants(f)
    counters = sorted({0, 1, 2, 254, 255} | {v_ % 256 for c_ in cc_ if c_ < 256 for v_ in (c_ - 1, c_, c_ + 1) if 0 <= v_ <= 256})
    if len(counters) > 14:
        counters = sorted({0, 1, 2, 254, 255} | {c_ for c_ in cc_ if c_ < 256})[:14]
    if not thorough:
        posns = sorted(set(posns) | {c_ for c_ in cc_ if c_ <= 32})
    bad = None
    npaths = 0
    for pz in posns:
        top = 100 if (thorough and pz in (0, 16, 31, 32)) or (not thorough) else 40
        for c0 in counters:
            for L in range(top + 1):
                def setup(ex_, path, pz=pz, c0=c0):
                    path.lfmem[(ST, POSN, 1)] = Lf.c(pz)
                    path.lfmem[(ST, CNT, 1)] = Lf.c(c0)
                    path.start_lfmem = dict(path.lfmem)
                ex = irx.Exec(f, Handler(), havoc="auto", auto=True, int_cells=icells, starts=[("s", setup)], split_max=33, arg_consts={oi: L})
                ps = ex.run(max_paths=50)
                if len(ps) != 1 or ps[0].end[0] != "ret":
                    raise Broken("tinyjambu_hkdf_expand: with position %d, counter %d and outlen %d the function is not one straight path (%d paths): not decided by the small-length rule" % (pz, c0, L, len(ps)))
                p = ps[0]
                if any(e[0] in ("cond-data", "load-unknown", "store-unknown", "load-sym", "out-sym", "read-uninit") for e in p.events):
                    raise Broken("tinyjambu_hkdf_expand: with position %d, counter %d and outlen %d the path has accesses or data branches the evaluation does not resolve" % (pz, c0, L))
                npaths += 1

                def sbyte(off_, start=True, p=p):
                    cell = (p.start_mem if start else p.mem).get((ST, off_))
                    return tuple(cell) if cell is not None else tuple(gf2.sym_word(("mem", ST, off_), 8))
                prk = tuple(sbyte(PRK + k) for k in range(32))
                block = [sbyte(OUTF + k) for k in range(32)]
                want_out = {}
                take = min(32 - pz, L)
                for k in range(take):
                    want_out[k] = block[pz + k]
                posn, rem, off, c, rc = pz + take, L - take, take, c0, 0
                script = []
                evs = [e for e in p.events if e[0] in ("CALL", "VARMEM") and not (e[0] == "CALL" and e[2] == "tinyjambu_clean" and str(e[3][0]).startswith("alloca"))]
                macs = [e for e in evs if e[0] == "CALL" and e[2] == "tinyjambu_hmac_finalize"]
                bi = 0
                while rem > 0:
                    if c == 0:
                        for k in range(rem):
                            want_out[off + k] = tuple(gf2.ZERO for _ in range(8))
                        rc = -1
                        break
                    script.append(("tinyjambu_hmac_init", prk, None))
                    if c != 1:
                        script.append(("tinyjambu_hmac_update", tuple(block), None))
                    script.append(("tinyjambu_hmac_update", None, (INFO, INFOLEN)))
                    script.append(("tinyjambu_hmac_update", (tuple(gf2.const_word(c, 8)),), None))
                    script.append(("tinyjambu_hmac_finalize", prk, None))
                    script.append(("tinyjambu_hmac_free", None, None))
                    if bi < len(macs):
                        block = list(bytes_sym("MAC", macs[bi][1], 32))
                    bi += 1
                    c = (c + 1) & 0xFF
                    nb = min(32, rem)
                    for k in range(nb):
                        want_out[off + k] = tuple(block[k])
                    posn, off, rem = nb, off + nb, rem - nb
                why = None
                calls_ = [e for e in evs if e[0] == "CALL"]
                varm = [e for e in evs if e[0] == "VARMEM"]
                if varm:
                    raise Broken("tinyjambu_hkdf_expand: a copy or fill of undetermined length although position, counter and outlen are concrete: not decided by the small-length rule")
                if [e[2] for e in calls_] != [x[0] for x in script]:
                    why = "the HMAC calls are %s, RFC 5869 has %s" % ([e[2].replace("tinyjambu_hmac_", "") for e in calls_][:14], [x[0].replace("tinyjambu_hmac_", "") for x in script][:14])
                else:
                    for e, (nm, data, argsw) in zip(calls_, script):
                        if data is not None and (e[4] is None or tuple(tuple(b) for b in e[4]) != tuple(tuple(b) for b in data)):
                            why = why or "%s is given other bytes than RFC 5869 specifies at this point (PRK / previous block / counter byte)" % nm
                        if argsw is not None and tuple(e[3][1:3]) != argsw:
                            why = why or "the info update is (%s, %s), expected (info, infolen)" % tuple(e[3][1:3])
                outs = mode.outs_of(p)
                if why is None:
                    for k in range(L):
                        got = outs.get((OUTP, k))
                        if got is not None and any(b_ is gf2.TOP for b_ in got):
                            raise Broken("tinyjambu_hkdf_expand: an output byte is not representable in the term domain: not decided by the small-length rule")
                        if got is None or tuple(got) != tuple(want_out[k]):
                            why = "output byte %d is %s, expected %s" % (k, gf2.describe(got[0]) if got else "not written", gf2.describe(want_out[k][0]) if want_out[k][0] is not gf2.TOP else "?")
                            break
                if why is None and [k_ for k_ in outs if k_[0] == OUTP and not 0 <= k_[1] < L]:
                    why = "writes outside out[0, outlen)"
                rv = ex.subst(p, p.end[1]).const() if (p.end[1] is not None and not is_word(p.end[1])) else None
                if why is None and (rv is None or (rv & 0xFFFFFFFF) != (rc & 0xFFFFFFFF)):
                    why = "returns %s, expected %d" % (rv, rc)
                if why is None and rc != 0:
                    # a refused call leaves the object exhausted: counter 0 (so every later call is refused too) and the position the bytes handed out imply
                    if p.lfmem.get((ST, CNT, 1)) not in (Lf.c(0), None if c0 == 0 else Lf.c(0)) and not (c0 == 0 and p.lfmem.get((ST, CNT, 1)) is None):
                        why = "after the refused call the block counter is %s, not 0: a later call generates key material beyond 8160 bytes" % p.lfmem.get((ST, CNT, 1))
                    elif p.lfmem.get((ST, POSN, 1)) not in (Lf.c(posn),) and not (posn == pz and p.lfmem.get((ST, POSN, 1)) is None):
                        why = "after the refused call the buffer position is %s, expected %d: a later call hands out bytes of the last block again" % (p.lfmem.get((ST, POSN, 1)), posn)
                if why is None and rc == 0:
                    if p.lfmem.get((ST, CNT, 1)) != Lf.c(c):
                        why = "block counter becomes %s, expected %d" % (p.lfmem.get((ST, CNT, 1)), c)
                    elif p.lfmem.get((ST, POSN, 1)) != Lf.c(posn):
                        why = "buffer position becomes %s, expected %d" % (p.lfmem.get((ST, POSN, 1)), posn)
                    elif bi and tuple(sbyte(OUTF + k, False) for k in range(32)) != tuple(tuple(b) for b in block):
                        why = "the state's block buffer does not hold the last block generated when the call returns"
                if why is not None and bad is None:
                    bad = ((pz, c0, L), why)
    ck_ob(bad is None, "SMALL", f.name, "expand-small[%s]" % label,
          "buffer position x counter in {0,1,2,254,255} x every outlen up to 100 (%d straight paths): left-over bytes, the HMAC transcript of every block, the bytes handed out, counter, position, "
          "refusal at counter 0 and the block kept in the state are those of RFC 5869 with an 8-bit counter" % npaths,
          "with position %s, counter %s, outlen %s: %s" % (bad[0] + (bad[1],) if bad else ("?", "?", "?", "")), w0)
    return 1


# HKDF (RFC 5869 over TinyJAMBU-HMAC, 32-byte blocks, 8-bit block counter)

def _buf_arg_ok(p, f, got_ptr, got_len, ptrname, lenname):
    """the (pointer, length) pair handed on is the caller's - or, on a path where the caller's pointer is null or its length is 0, any
    pointer with that length: a zero-length buffer is never read (the contract: a pointer may be null only with length 0)"""
    P_, L_ = repr(Lf.s(irx.argsym(f, f.param_index(ptrname)))), repr(Lf.s(irx.argsym(f, f.param_index(lenname))))
    if (got_ptr, got_len) == (P_, L_):
        return True
    empty = False
    for c_ in getattr(p, "conds", []):
        if len(c_) == 3 and repr(c_[1]) in (P_, L_) and ((c_[0] == "ne" and c_[2] is False) or (c_[0] == "eq" and c_[2] is True)):
            empty = True
    if empty and got_len not in (L_, "0"):
        # (a substitute of another length for the empty buffer - e.g. 32 zero bytes for an absent salt: equal to the empty key only by
        # HMAC's zero padding, a value argument this structural rule does not make)
        raise Broken("%s: on a path where %s is null or %s is 0 a buffer of length %s is handed on instead: not decided by this rule" % (f.name, ptrname, lenname, got_len))
    return empty


def check_hkdf(ck_ob, mod, label):
    ST = ("arg", 0)
    fld = {m["name"]: m for m in mod.composites["tinyjambu_hkdf_state_p_t"]["members"]}
    PRK, OUTF, CNT, POSN = fld["prk"]["offset"], fld["out"]["offset"], fld["counter"]["offset"], fld["posn"]["offset"]
    if (fld["prk"]["size"], fld["out"]["size"]) != (32, 32):
        raise Broken("HKDF private state layout changed: %s" % {k: (v["offset"], v["size"]) for k, v in fld.items()})
    fe = mod.fn("tinyjambu_hkdf_expand")
    ck_ob(fld["counter"]["size"] == 1, "REFUSE", fe.name, "counter-width[%s]" % label, "the block counter is one byte: it reaches the terminal value 0 after 255 blocks (255 * 32 = 8160 bytes)",
          "the block counter is %d bytes wide: it does not wrap after 255 blocks, so requests beyond 8160 bytes are no longer refused (and only its low byte is absorbed as n)" % fld["counter"]["size"],
          relpath("%s:%d" % (fe.file, fe.line)))
    if fld["counter"]["size"] != 1 or fld["posn"]["size"] != 1:
        return 1
    icells = lambda ob, off, n: ob == ST and (off, n) in ((CNT, 1), (POSN, 1))
    n = 0
    # ---- one-shot
    f = mod.fn("tinyjambu_hkdf")
    w0 = relpath("%s:%d" % (f.file, f.line))
    ex = irx.Exec(f, Handler(), havoc="auto", auto=True)
    ps = ex.run()
    oli = ("n", f.param_index("outlen"))
    seen = set()
    for J in f.insts:
        if J.op not in ("icmp", "call", "phi", "select") and not J.is_dbg() and any(isinstance(o, (list, tuple)) and tuple(o) == ("a", f.param_index("outlen")) for o in J.ops):
            # (a block count outlen / 32 + ..., compared with 255: the classes of outlen are then not intervals read off the path conditions)
            raise Broken("tinyjambu_hkdf (one-shot): the length cap is not a plain comparison of outlen with a constant (%s of outlen at %s): the classes of outlen are not decided by this rule"
                         % (J.op, relpath(J.where)))
    for p in ps:
        ev = calls(p)
        rng = ex._range(p, Lf.s(oli))
        ret = p.end[1]
        rc = ex.subst(p, ret).const() if (ret is not None and not is_word(ret)) else None
        if all(e[2] in ("tinyjambu_clean", "tinyjambu_hkdf_free") and str(e[3][0]).startswith("alloca") for e in ev):
            # (no call, or only wipes of the local state: a single-exit version wipes on both outcomes)
            seen.add("refuse")
            outs = [e for e in p.events if e[0] in ("out", "out-sym", "VARMEM")]
            ck_ob(rng[0] == 8161 and rc is not None and (rc & 0xFFFFFFFF) == 0xFFFFFFFF and not outs, "CAP", f.name, "refuse-above-8160[%s]" % label,
                  "outlen > 8160 (= 255 * 32): returns -1, writes nothing, calls nothing but a wipe of its local state", "refusal class is outlen >= %s, returns %s, writes %s: the 8160-byte cap is not enforced as documented" % (rng[0], rc, outs[:2]), w0)
        else:
            seen.add("ok")
            st = ev[0][3][0] if ev else ""
            A = lambda nm: repr(Lf.s(irx.argsym(f, f.param_index(nm))))
            nm_ = [e[2] for e in ev]
            if nm_[:2] != ["tinyjambu_hkdf_extract", "tinyjambu_hkdf_expand"] or len(nm_) != 3 or nm_[2] not in ("tinyjambu_clean", "tinyjambu_hkdf_free"):
                raise Broken("tinyjambu_hkdf (one-shot) is not written as extract; expand; wipe on a local state (calls %s): this shape is not analysed" % nm_)
            okseq = st.startswith("alloca") \
                and len(ev[0][3]) == 5 and len(ev[1][3]) == 5 and ev[0][3][0] == st and ev[1][3][0] == st \
                and _buf_arg_ok(p, f, ev[0][3][1], ev[0][3][2], "key", "keylen") and _buf_arg_ok(p, f, ev[0][3][3], ev[0][3][4], "salt", "saltlen") \
                and _buf_arg_ok(p, f, ev[1][3][1], ev[1][3][2], "info", "infolen") and ev[1][3][3:] == (A("out"), A("outlen")) \
                and (ev[2][3] == (st, str(mod.typedef_size("tinyjambu_hkdf_state_t"))) or (nm_[2] == "tinyjambu_hkdf_free" and ev[2][3] == (st,)))
            if okseq and rc is None:
                # (e.g. the result of the expand call handed on: 0 only by what expand does for a fresh state and outlen <= 8160)
                raise Broken("tinyjambu_hkdf (one-shot): the value returned on the accepting path is not a constant of this function: not decided by this rule")
            ck_ob(okseq and rng[1] == 8160 and rc == 0, "CAP", f.name, "accept-up-to-8160[%s]" % label, "outlen <= 8160: extract(key,salt); expand(info,out,outlen); wipe; returns 0",
                  "accepting class is outlen <= %s with events %s returning %s" % (rng[1], [(e[2], e[3]) for e in ev], rc), w0)
    if seen != {"refuse", "ok"}:
        raise Broken("tinyjambu_hkdf (one-shot): path classes %s instead of the two classes outlen <= 8160 / > 8160: this shape is not analysed" % sorted(seen))
    ck_ob(True, "CAP", f.name, "two-classes[%s]" % label, "exactly the two classes <= 8160 / > 8160", "", w0)
    n += 3
    # ---- extract
    f = mod.fn("tinyjambu_hkdf_extract")
    w0 = relpath("%s:%d" % (f.file, f.line))
    ex = irx.Exec(f, Handler(), havoc="auto", auto=True, int_cells=icells)
    ps = ex.run()
    if not ps or len(ps) > 6 or any(p_.end[0] != "ret" for p_ in ps):
        raise Broken("tinyjambu_hkdf_extract is not a straight path (or a few of them): unrecognised shape")
    no_data_branches(f, ps)
    for pi_, p in enumerate(ps):
        # (several paths: classes the code distinguishes - a null salt pointer, a zero length; every one of them must be the documented HMAC)
        lab_ = label if pi_ == 0 else "%s/path-class-%d-of-%d" % (label, pi_ + 1, len(ps))
        ev = calls(p)
        A = lambda nm: repr(Lf.s(irx.argsym(f, f.param_index(nm))))
        h = ev[0][3][0] if ev else ""
        nm_ = [e[2] for e in ev]
        PRKP = repr(Lf({ST: 1, 1: PRK}) if PRK else Lf.s(ST))
        B_ = lambda e, i, pn, ln: len(e[3]) > i + 1 and _buf_arg_ok(p, f, e[3][i], e[3][i + 1], pn, ln)
        if nm_ == ["tinyjambu_hmac"]:
            # PRK = the one-shot HMAC (decided as init; update; finalize; wipe under C12) with key = salt, message = IKM
            ok = len(ev[0][3]) == 5 and ev[0][3][0] == PRKP and B_(ev[0], 1, "salt", "saltlen") and B_(ev[0], 3, "key", "keylen")
        elif nm_ == ["tinyjambu_hmac_init", "tinyjambu_hmac_update", "tinyjambu_hmac_finalize", "tinyjambu_hmac_free"]:
            ok = h.startswith("alloca") \
                and len(ev[0][3]) == 3 and ev[0][3][0] == h and B_(ev[0], 1, "salt", "saltlen") \
                and len(ev[1][3]) == 3 and ev[1][3][0] == h and B_(ev[1], 1, "key", "keylen") \
                and len(ev[2][3]) == 4 and ev[2][3][0] == h and B_(ev[2], 1, "salt", "saltlen") and ev[2][3][3] == PRKP and ev[3][3] == (h,)
        else:
            raise Broken("tinyjambu_hkdf_extract is neither the one-shot HMAC nor init; update; finalize; free on a local state (calls %s): this shape is not analysed" % nm_)
        okc = p.lfmem.get((ST, CNT, 1)) == Lf.c(1) and p.lfmem.get((ST, POSN, 1)) == Lf.c(32)
        ck_ob(ok, "SEQ", f.name, "extract[%s]" % lab_, "PRK = HMAC(salt, IKM): init(salt); update(key); finalize(salt -> prk); free",
              "extract is %s" % [(e[2], e[3]) for e in ev], w0)
        ck_ob(okc, "SEQ", f.name, "extract-counters[%s]" % lab_, "block counter = 1, nothing buffered (position 32)",
              "after extract counter=%s position=%s (expected 1 and 32)" % (p.lfmem.get((ST, CNT, 1)), p.lfmem.get((ST, POSN, 1))), w0)
    n += 2
    # ---- expand
    f = mod.fn("tinyjambu_hkdf_expand")
    w0 = relpath("%s:%d" % (f.file, f.line))
    INFO, INFOLEN = repr(Lf.s(("arg", f.param_index("info")))), repr(Lf.s(("n", f.param_index("infolen"))))
    OUTP = ("arg", f.param_index("out"))
    OLEN = ("n", f.param_index("outlen"))
    starts = []
    for pz in range(0, 33):
        def setup(ex_, path, pz=pz):
            path.lfmem[(ST, POSN, 1)] = Lf.c(pz)
            path.start_lfmem = dict(path.lfmem)
        starts.append(("posn=%d" % pz, setup))
    if len(f.loops) != 1:
        raise Broken("tinyjambu_hkdf_expand: expected one loop")
    hdr = f.loops[0]["header"]
    state_cells = icells

    def icells(ob, off, n, f=f):
        # also: scalar integer locals whose address is taken (a cached copy of the block counter handed to the HMAC by pointer)
        if state_cells(ob, off, n):
            return True
        if ob[0] == "alloca" and off == 0 and isinstance(ob[1], int):
            A_ = f.insts[ob[1]]
            return A_.get("alloc_ty") in ("i8", "i16", "i32", "i64") and A_.get("alloc_size") == n
        return False
    ex = irx.Exec(f, Handler(), havoc="auto", auto=True, int_cells=icells, starts=starts, split_max=33)
    ps = ex.run(max_paths=6000)
    alias = irx.infer_cell_aliases(ps, hdr)
    if alias:
        # a local and a state field that hold the same value at every loop entry and back edge share one unknown at the loop head
        ex = irx.Exec(f, Handler(), havoc="auto", auto=True, int_cells=icells, starts=starts, split_max=33, cell_alias=alias)
        ps = ex.run(max_paths=6000)
    no_data_branches(f, ps)
    ptrs = [f.insts[i] for i in f.blocks[hdr].insts if f.insts[i].op == "phi" and (f.insts[i].get("ty") or "").endswith("*")]
    ints = [f.insts[i] for i in f.blocks[hdr].insts if f.insts[i].op == "phi" and not (f.insts[i].get("ty") or "").endswith("*")]
    # "avoid the double copy": whole blocks finalised straight into the caller's buffer, with a loop-carried pointer to the previous block
    # (first the state's block buffer, then the block just written).  The pointer has two symbolic forms; the generic iteration is
    # evaluated once per form, and what the original gets from "every block goes through the state's buffer" becomes obligations:
    # the block is chained from where that pointer points, the pointer is left pointing at the block just generated, and whenever the
    # function returns the state's buffer holds the last block (the next call chains from it and serves its left-over bytes)
    prevphi = None
    want_prev = Lf({ST: 1, 1: OUTF}) if OUTF else Lf.s(ST)
    if len(ptrs) == 2 and len(ints) == 1:
        ent_ = [p for p in ps if p.end[0] == "loop-entry" and p.end[1] == hdr]
        cands = [P for P in ptrs if ent_ and all(p.env.get(("init", P.id)) == want_prev for p in ent_)]
        if len(cands) == 1:
            prevphi = cands[0]
            ptrs = [P for P in ptrs if P is not prevphi]
    if len(ints) > 1:
        # further integers carried by the loop (a length that is read in a later iteration before it is set again): the remaining length
        # is the one that enters the loop as outlen minus the left-over bytes; the others stay what they are - unknown values, which start
        # as a constant of the buffer-position class and are no function of the remaining length.  An obligation that finds such a value
        # where the remaining length belongs (the zero-fill length of the refusal) is refuted by the entry class itself: for that class the
        # value is a constant while the remaining length is free
        ent_ = [p for p in ps if p.end[0] == "loop-entry" and p.end[1] == hdr]
        remc = [I for I in ints if ent_ and all((lambda v_: v_ is not None and not is_word(v_) and v_.get(OLEN, 0) == 1 and all(k_ in (OLEN, 1) for k_ in v_))(p.env.get(("init", I.id))) for p in ent_)]
        auxc = [I for I in ints if I not in remc]
        if len(remc) == 1 and all(ent_ and all((lambda v_: v_ is not None and not is_word(v_) and v_.const() is not None)(p.env.get(("init", I.id))) for p in ent_) for I in auxc):
            ints = remc
    if len(ptrs) != 1 or len(ints) != 1:
        raise Broken("tinyjambu_hkdf_expand: expected an output cursor and a remaining length at the loop head")
    cur, rem = ("hdp", ptrs[0].id), ("hd", ints[0].id)
    if prevphi is not None:
        forms = {"state": want_prev, "caller": Lf({cur: 1, 1: -32})}
        merged = [p for p in ps if not (p.blocks and p.blocks[0] == hdr and not [e for e in p.events if e[0] == "class" and e[1] == "start"])]
        for fname_, lf_ in forms.items():
            ex_f = irx.Exec(f, Handler(), havoc="auto", auto=True, int_cells=icells, starts=starts[:1], split_max=33, head_consts={prevphi.id: lf_}, cell_alias=alias)
            for q in ex_f.run(max_paths=6000):
                if q.blocks and q.blocks[0] == hdr and not [e for e in q.events if e[0] == "class" and e[1] == "start"]:
                    q.prevform = fname_
                    q.ex = ex_f
                    merged.append(q)
        ps = merged
        no_data_branches(f, ps)

    def c(rule, cond, construct, ok_, bad_, where=None):
        return ck_ob(cond, rule, f.name, "%s[%s]" % (construct, label), ok_, bad_, where or w0)
    seen_entry, seen_iter = set(), set()
    entry_refuse = set()
    entry_excl0, gen_paths = [], []
    for p in ps:
        cls = [e for e in p.events if e[0] == "class" and e[1] == "start"]
        ev = calls(p)
        var = [e for e in p.events if e[0] == "VARMEM"]
        outs = mode.outs_of(p)
        nar = [e for e in p.events if e[0] == "narrowing"]
        if cls:
            pz = int(cls[0][2].split("=")[1])
            avail = 32 - pz
            if p.end[0] == "ret":
                ln = p.eqs.get(OLEN)
                if ln is None:
                    # a refusal taken before the block loop (limit check hoisted): legitimate if it zero-fills the rest and returns -1 with the counter at 0
                    cnt_e = p.start_lfmem.get((ST, CNT, 1))
                    if cnt_e is None:
                        cnt_e = Lf.s(("fld", ST, CNT, p.objgen.get(ST, 0)))
                    rv_e = ex.subst(p, p.end[1]).const() if (p.end[1] is not None and not is_word(p.end[1])) else None
                    okr = not ev and len(var) == 1 and var[0][2] == "memset-var" and var[0][3][1] == "0" and ex.subst(p, cnt_e).const() == 0 and rv_e is not None and (rv_e & 0xFFFFFFFF) == 0xFFFFFFFF \
                        and var[0][3][0] == repr(Lf({OUTP: 1, 1: avail}) if avail else Lf.s(OUTP)) and var[0][3][2] == repr(Lf({OLEN: 1, 1: -avail}) if avail else Lf.s(OLEN))
                    if not okr:
                        raise Broken("tinyjambu_hkdf_expand: a path returns before the block loop without its conditions fixing the requested length (buffer position %d): unrecognised shape" % pz)
                    seen_entry.add((pz, "refuse"))
                    entry_refuse.add(pz)
                    okc = all(outs.get((OUTP, i)) == list(gf2.sym_word(("mem", ST, OUTF + pz + i), 8)) for i in range(avail)) and not [k for k in outs if k[0] == OUTP and k[1] >= avail]
                    c("REFUSE", okc, "refuse-before-loop(posn=%d)" % pz, "counter 0 and more than the %d left-over bytes requested: left-over bytes served, the rest zero-filled, -1 returned" % avail,
                      "refusal before the loop does not serve the left-over bytes first")
                    continue
                seen_entry.add((pz, "short", ln))
                okb = all(outs.get((OUTP, i)) == list(gf2.sym_word(("mem", ST, OUTF + pz + i), 8)) for i in range(ln)) and not [k for k in outs if k[0] == OUTP and k[1] >= ln]
                c("STREAM", okb and not ev and not var and ln <= avail, "leftover-short(posn=%d,len=%d)" % (pz, ln),
                  "request of %d <= %d left-over bytes is served from the last block at offset %d, nothing generated" % (ln, avail, pz),
                  "short request: output is not last_block[%d..%d) / extra calls %s" % (pz, pz + ln, [e[2] for e in ev]))
                c("STREAM", p.lfmem.get((ST, POSN, 1)) == Lf.c(pz + ln), "leftover-posn(posn=%d,len=%d)" % (pz, ln), "position advances to %d" % (pz + ln),
                  "position becomes %s, expected %d: left-over bytes are repeated or skipped" % (p.lfmem.get((ST, POSN, 1)), pz + ln))
                rv = ex.subst(p, p.end[1]).const() if not is_word(p.end[1]) else None
                c("STREAM", rv == 0, "leftover-ret(posn=%d,len=%d)" % (pz, ln), "returns 0", "returns %s" % rv)
                n += 3
            elif p.end[0] == "loop-entry":
                seen_entry.add((pz, "loop"))
                cnt_e = p.start_lfmem.get((ST, CNT, 1))
                if cnt_e is None:
                    cnt_e = Lf.s(("fld", ST, CNT, p.objgen.get(ST, 0)))
                entry_excl0.append(_excludes_zero(ex, p, cnt_e))
                okb = all(outs.get((OUTP, i)) == list(gf2.sym_word(("mem", ST, OUTF + pz + i), 8)) for i in range(avail)) and not [k for k in outs if k[0] == OUTP and k[1] >= avail]
                ic, ir_ = p.env.get(("init", ptrs[0].id)), p.env.get(("init", ints[0].id))
                if avail and not outs and not ev and not var and ic == Lf.s(OUTP) and ir_ == Lf.s(OLEN) and p.lfmem.get((ST, POSN, 1)) in (None, Lf.c(pz)):
                    # nothing at all happens in front of the loop although left-over bytes exist: they are served inside the loop (one loop whose
                    # round copies what the buffer holds and then refills it) - another shape than "left-over bytes first, then whole blocks"
                    raise Broken("tinyjambu_hkdf_expand: the left-over bytes are not handled in front of the block loop (position %d reaches the loop untouched): this shape is not analysed by the per-class rule" % pz)
                c("STREAM", okb and not ev and not var, "leftover-all(posn=%d)" % pz, "the %d left-over bytes are copied out first" % avail, "left-over bytes not copied from last_block[%d..32)" % pz)
                wc = Lf({OUTP: 1, 1: avail}) if avail else Lf.s(OUTP)
                wr = Lf({OLEN: 1, 1: -avail}) if avail else Lf.s(OLEN)
                c("STREAM", ic == wc and ir_ == wr, "leftover-cursor(posn=%d)" % pz, "block loop starts at out + %d with outlen - %d left" % (avail, avail), "block loop starts with cursor %s / remaining %s" % (ic, ir_))
                # (for the write range alone: cursor + remaining must not reach beyond out + outlen - the block loop writes `remaining` bytes from the cursor)
                ext_ = None
                if ic is not None and ir_ is not None and not is_word(ic) and not is_word(ir_):
                    ext_ = ic.add(Lf.s(OUTP), -1).add(ir_).add(Lf.s(OLEN), -1).const()
                c("STREAM", ext_ is not None and ext_ <= 0, "leftover-extent(posn=%d)" % pz, "the block loop starts with cursor + remaining at or before out + outlen",
                  "the block loop starts at out + %s with %s bytes to write: %s byte(s) beyond out + outlen are written" % (ic.add(Lf.s(OUTP), -1) if ic is not None and not is_word(ic) else "?", ir_, ext_))
                c("STREAM", p.lfmem.get((ST, POSN, 1)) == Lf.c(32), "leftover-consumed(posn=%d)" % pz, "position = 32 (last block used up)", "position is %s when the block loop starts" % p.lfmem.get((ST, POSN, 1)))
                n += 3
            continue
        # generic iteration from the loop head
        cnt0 = p.start_lfmem.get((ST, CNT, 1))
        if cnt0 is None:
            cnt0 = Lf.s(("fld", ST, CNT, p.objgen.get(ST, 0)))
        cntc = ex.subst(p, cnt0).const()
        rv = ex.subst(p, p.end[1]).const() if (p.end[0] == "ret" and p.end[1] is not None and not is_word(p.end[1])) else None
        pform = getattr(p, "prevform", None)
        if pform is not None:
            ex = p.ex
        if pform == "caller" and p.end[0] == "ret" and not ev and not var and rv == 0 and not [k_ for k_ in outs if k_[0] != ST]:
            # nothing left to generate, and the last block went straight to the caller: the state's buffer must be brought up to date now
            seen_iter.add("done")
            last = tuple(tuple(hashbyte(p, cur, -32 + i)) for i in range(32))
            now = tuple(tuple(mem_now(p, ST, OUTF + i)) for i in range(32))
            c("SEQ", now == last, "block-kept(return after a whole block)", "the last whole block, written straight to the caller's buffer, is copied into the state's block buffer before the call returns",
              "a call that ends right after a whole block generated into the caller's buffer returns without storing that block in the state: the next call chains T(n+1) from a stale block (first byte that differs: %s)"
              % first_byte_diff(now, last))
            n += 1
            continue
        if p.end[0] == "ret" and not ev and not var and rv == 0 and not outs:
            seen_iter.add("done")
            continue   # remaining == 0: loop not entered
        if not ev:
            # refusal: counter == 0
            seen_iter.add("refuse")
            okz = cntc == 0 and len(var) == 1 and var[0][2] == "memset-var" and var[0][3][0] == repr(Lf.s(cur)) and var[0][3][1] == "0" and var[0][3][2] == repr(Lf.s(rem)) and not outs
            c("REFUSE", okz and rv is not None and (rv & 0xFFFFFFFF) == 0xFFFFFFFF, "refuse-zero-fill", "block counter 0 (255 blocks used): the whole remaining output is zero-filled and -1 returned",
              "terminal state: counter class %s, fills %s, returns %s: key material beyond 8160 bytes is not refused with a zeroed buffer" % (cntc, [v_[3] for v_ in var], rv))
            n += 1
            continue
        # a block is generated
        first = cntc == 1
        gen_paths.append((p, cnt0))
        names = [e[2] for e in ev]
        want = ["tinyjambu_hmac_init"] + ([] if first else ["tinyjambu_hmac_update"]) + ["tinyjambu_hmac_update", "tinyjambu_hmac_update", "tinyjambu_hmac_finalize", "tinyjambu_hmac_free"]
        seen_iter.add("first" if first else "next")
        if names != want:
            c("SEQ", False, "block-sequence(%s)" % ("first" if first else "next"), "", "block generation is %s, expected %s" % (names, want))
            continue
        H = ev[0][3][0]
        prk0 = tuple(tuple(hashbyte(p, ST, PRK + i)) for i in range(32))
        out0 = tuple(tuple(hashbyte(p, ST, OUTF + i)) for i in range(32))
        k = 0
        okA = ev[0][3][1] == repr(Lf.s(ST) if PRK == 0 else Lf({ST: 1, 1: PRK})) and ev[0][3][2] == "32" and ev[0][4] == prk0 and H.startswith("alloca")
        c("SEQ", okA, "block-key(%s)" % ("first" if first else "next"), "T(n) is keyed with PRK (32 bytes)", "hmac_init is not keyed with the 32-byte PRK: %s" % (ev[0][3],))
        k = 1
        if not first:
            if pform == "caller":
                okP = ev[1][3] == (H, repr(Lf({cur: 1, 1: -32})), "32") and ev[1][4] == tuple(tuple(hashbyte(p, cur, -32 + i)) for i in range(32))
            else:
                okP = ev[1][3] == (H, repr(Lf({ST: 1, 1: OUTF})), "32") and ev[1][4] == out0
            c("SEQ", okP, "block-prev" + ("" if pform is None else "{%s}" % pform), "T(n-1) (the previous 32-byte block) is absorbed first for n > 1", "previous block not absorbed as specified: %s" % (ev[1][3],))
            k = 2
        okI = ev[k][3] == (H, INFO, INFOLEN)
        cell = gf2.sym_word(("lfcell", repr(ex.subst(p, cnt0))), 8) if cntc is None else gf2.const_word(cntc, 8)
        # (what is absorbed is the byte's value - from the state field or from a local copy of it - not where it is kept)
        # the same value after a trip through a local byte (copied before a test fixed its value: the word keeps the field's name)
        cell2 = [gf2.sym_word(("lf", repr(x_)), 8) for x_ in (cnt0, ex.subst(p, cnt0)) if x_ is not None and not is_word(x_)]
        okC = ev[k + 1][3][0] == H and ev[k + 1][3][2] == "1" and ev[k + 1][4] in [(tuple(cell),)] + [(tuple(x_),) for x_ in cell2]
        tgt_ = ev[k + 2][3][3] if len(ev[k + 2][3]) > 3 else None
        direct = prevphi is not None and tgt_ == repr(Lf.s(cur))
        okF = ev[k + 2][3][:3] == (H, ev[0][3][1], "32") and (tgt_ == repr(Lf({ST: 1, 1: OUTF})) or direct) and ev[k + 3][3] == (H,)
        c("SEQ", okI and okC and okF, "block-body(%s)" % ("first" if first else "next"), "then info, then the one-byte counter n (before it is incremented); result -> the block buffer; HMAC state freed",
          "block body differs: info %s, counter byte %s (data %s), finalize %s" % (ev[k][3], ev[k + 1][3], ev[k + 1][4], ev[k + 2][3]))
        # counter increment (mod 256)
        newc = p.lfmem.get((ST, CNT, 1))
        okinc = False
        if cntc is not None:
            okinc = newc == Lf.c((cntc + 1) & 0xFF)
        else:
            okinc = newc is not None and list(newc) == [("mod", 8, repr(ex.subst(p, cnt0).add(Lf.c(1))))] or newc == ex.subst(p, cnt0).add(Lf.c(1))
        c("REFUSE", okinc and all(e[2] == 8 for e in nar), "counter-increment(%s)" % ("first" if first else "next"), "8-bit block counter incremented by exactly 1 (wraps to the terminal value 0 after block 255)",
          "block counter after a block is %s (from %s): not an 8-bit increment by one, the 255-block limit is not enforced" % (newc, cnt0))
        # copy out min(32, remaining) bytes of the new block
        mac = bytes_sym("MAC", ev[k + 2][1], 32)
        if prevphi is not None:
            now = tuple(tuple(mem_now(p, ST, OUTF + i)) for i in range(32))
            if p.end[0] == "ret":
                c("SEQ", now == mac, "block-kept(%s)" % ("first" if first else "next"), "when the call returns the state's block buffer holds the block just generated",
                  "the call returns with the state's block buffer not holding the block just generated: the next call chains from / serves a stale block (%s)" % first_byte_diff(now, mac))
            else:
                bp = p.env.get(("back", prevphi.id))
                if bp == want_prev:
                    held = now
                elif bp is not None and not is_word(bp) and bp == Lf.s(cur):
                    held = tuple(tuple(mem_now(p, cur, i)) for i in range(32))
                else:
                    raise Broken("tinyjambu_hkdf_expand: the pointer to the previous block is carried on as %s: neither the state's block buffer nor the block just written" % (bp,))
                c("SEQ", held == mac, "block-chain(%s)" % ("first" if first else "next"), "the pointer to the previous block is left pointing at the block just generated",
                  "the pointer the next iteration chains from does not point at the block just generated (%s)" % first_byte_diff(held, mac))
            n += 1
        if p.end[0] == "backedge":
            ln = 32
            okg = any(nm_ is not None and nm_[0] == Lf.s(rem) and nm_[1] in ("uge",) and nm_[2] == 32 for nm_ in [ex._norm(*cc) for cc in p.conds]) or ex._range(p, Lf.s(rem))[0] >= 32
            bc, br = p.env.get(("back", ptrs[0].id)), p.env.get(("back", ints[0].id))
            c("STREAM", bc == Lf({cur: 1, 1: 32}) and br == Lf({rem: 1, 1: -32}) and okg, "block-advance", "a full block: cursor += 32, remaining -= 32 (only when >= 32 remain)",
              "after a full block cursor=%s remaining=%s guard>=32:%s" % (bc, br, okg))
        else:
            ln = p.eqs.get(rem)
            if ln is None:
                raise Broken("tinyjambu_hkdf_expand: the last partial block is produced on a path whose conditions do not fix the remaining length: unrecognised shape")
        okb = all(outs.get((cur, i)) == list(mac[i]) for i in range(ln)) and not [kk for kk in outs if kk[0] == cur and kk[1] >= ln]
        c("STREAM", okb, "block-copy(%s,%d)" % ("first" if first else "next", ln), "the first %d byte(s) of the new block are copied to the output cursor" % ln, "output bytes are not T(n)[0..%d)" % ln)
        c("STREAM", p.lfmem.get((ST, POSN, 1)) == Lf.c(ln), "block-posn(%s,%d)" % ("first" if first else "next", ln), "position = %d bytes of the block handed out" % ln,
          "position becomes %s, expected %d" % (p.lfmem.get((ST, POSN, 1)), ln))
        n += 6
    if {pz for (pz, *_r) in seen_entry} != set(range(33)):
        raise Broken("tinyjambu_hkdf_expand: only the buffer positions %s were followed to the block loop or a return: unrecognised shape" % sorted({pz for (pz, *_r) in seen_entry}))
    c("STREAM", True, "classes-position", "all 33 buffer positions analysed", "")
    if not {"first", "next"} <= seen_iter:
        raise Broken("tinyjambu_hkdf_expand: iteration classes found %s, expected the first block (counter 1) and later blocks: unrecognised shape" % sorted(seen_iter))
    # the 255-block limit: no block may be generated with the counter at its terminal value 0.  Either every generating iteration
    # excludes counter == 0 by its own conditions (check at the top of each iteration), or 'counter != 0 at the loop head' is an
    # inductive invariant: every entry into the loop excludes 0 and every back edge carries a non-zero new counter.
    top = all(_excludes_zero(ex, p_, c0_) for p_, c0_ in gen_paths)
    ind = bool(entry_excl0) and all(entry_excl0) and all(q.end[0] != "backedge" or _excludes_zero(ex, q, q.lfmem.get((ST, CNT, 1))) for q, _c in gen_paths)
    c("REFUSE", top or ind, "no-block-after-255", "no block is generated once the 8-bit counter has wrapped to 0: %s" % ("checked at the top of every iteration" if top else "counter != 0 is an inductive invariant of the loop"),
      "a block can be generated with the block counter at 0 (255 blocks already handed out): the check is neither made in every iteration nor implied by the loop's entry and back-edge conditions "
      "- key material beyond 8160 bytes is produced instead of the refusal")
    c("SEQ", True, "classes-iteration", "iteration classes: %s" % sorted(seen_iter), "")
    return n + 3


def _excludes_zero_plain(ex, p, lf):
    """do the conditions of path p exclude that the (unbounded, non-wrapping) linear form lf is 0?"""
    if lf is None or is_word(lf):
        return False
    v = ex.subst(p, lf)
    cst = v.const()
    if cst is not None:
        return cst != 0
    syms = [s_ for s_ in v if s_ != 1]
    if len(syms) != 1 or v[syms[0]] != 1:
        return False
    lo, hi, excl = ex._range(p, Lf({syms[0]: 1}))
    tgt = -v.get(1, 0)
    return (lo is not None and tgt < lo) or (hi is not None and tgt > hi) or tgt in excl


def _excludes_zero(ex, p, lf):
    """do the conditions of path p exclude that the linear form lf (a counter cell) is 0?"""
    if lf is None or is_word(lf):
        return False
    v = ex.subst(p, lf)
    cst = v.const()
    if cst is not None:
        return cst != 0
    syms = [s_ for s_ in v if s_ != 1]
    if len(syms) != 1 or v[syms[0]] != 1:
        return False
    k0 = v.get(1, 0)
    lo, hi, excl = ex._range(p, Lf({syms[0]: 1}))
    tgt = (-k0) % 256          # the cell is one byte wide: sym + k0 is 0 (mod 256) exactly when sym = -k0 (mod 256)
    if isinstance(syms[0], tuple) and syms[0][0] == "mod":
        tgt = -k0
    return (lo is not None and tgt < lo) or (hi is not None and tgt > hi) or tgt in excl


def mem_now(p, obj, off):
    """byte at (obj, off) at the end of path p"""
    c_ = p.mem.get((obj, off))
    if c_ is None:
        g = p.objgen.get(obj, 0)
        c_ = gf2.sym_word(("mem", obj, off) if not g else ("mem", obj, off, g), 8)
    return c_


def hashbyte(p, obj, off):
    c_ = p.start_mem.get((obj, off))
    if c_ is None:
        g = p.objgen.get(obj, 0)
        c_ = gf2.sym_word(("mem", obj, off) if not g else ("mem", obj, off, g), 8)
    return c_


# ---------------------------------------------------------------------------
# PBKDF2 (RFC 8018 section 5.2 with TinyJAMBU-HMAC as PRF)

def _pbkdf2_small_path(f, ex, p, cnt, L, A, PW, PL, SALT, SL, OUTP, START):
    evs = [e for e in calls(p) if e[2] not in ("tinyjambu_hmac_free", "tinyjambu_clean")]
    # a password hashed once up front: HMAC hashes a key longer than its 64-byte block before use, so keying with the digest of the password is
    # keying with the password - exactly when the password is longer than 64 bytes on this path and the digest is still in its buffer
    hashes = [e for e in evs if e[2] == "tinyjambu_hash"]
    if hashes:
        fixed = []
        for e in evs:
            if e[2] == "tinyjambu_hash":
                if tuple(e[3][1:3]) != (PW, PL) or not str(e[3][0]).startswith("alloca"):
                    raise Broken("tinyjambu_pbkdf2: a hash call that is not digest-of-the-password into a local: not decided by the small-length rule")
                continue
            if e[2] in ("tinyjambu_hmac_init", "tinyjambu_hmac_reinit", "tinyjambu_hmac_finalize") and tuple(e[3][1:3]) != (PW, PL):
                src = [h for h in hashes if h[1] < e[1] and h[3][0] == e[3][1]]
                if not src or e[3][2] != "32":
                    if str(e[3][1]).startswith("alloca"):
                        raise Broken("tinyjambu_pbkdf2: a PRF keyed with a local buffer that is not the password's digest: not decided by the small-length rule")
                    fixed.append(e)
                    continue
                lo = ex._range(p, Lf.s(A["passwordlen"]))[0]
                if lo < 65:
                    return "the password is replaced by its digest on a path where it may be as short as %d bytes: HMAC uses a key of at most 64 bytes as it is" % lo
                if e[4] is None or tuple(tuple(b_) for b_ in e[4]) != bytes_sym("DIGEST", src[-1][1], 32):
                    return "the buffer that held the password's digest was overwritten before a PRF is keyed with it"
                fixed.append(e[:3] + ((e[3][0], PW, PL) + tuple(e[3][3:]),) + e[4:])
                continue
            fixed.append(e)
        evs = fixed
    if any(e[2] == "tinyjambu_clean" and not str(e[3][0]).startswith("alloca") for e in calls(p)):
        raise Broken("tinyjambu_pbkdf2: a wipe of something other than a local: not decided by the small-length rule")
    why = None
    k = 0           # position in the transcript
    want = {}
    c_eff = max(cnt, 1)
    nblocks = (L + 31) // 32
    for i in range(1, nblocks + 1):
        acc = None
        prev = None
        for j in range(1, c_eff + 1):
            seg = evs[k: k + (4 if j == 1 else 3)]
            names = [e[2] for e in seg]
            if j == 1:
                okn = len(seg) == 4 and names[0] in START and names[1:] == ["tinyjambu_hmac_update", "tinyjambu_hmac_update", "tinyjambu_hmac_finalize"]
            else:
                okn = len(seg) == 3 and names[0] in START and names[1:] == ["tinyjambu_hmac_update", "tinyjambu_hmac_finalize"]
            if not okn:
                why = "block %d, PRF %d of %d: the HMAC calls are %s" % (i, j, c_eff, [n_.replace("tinyjambu_hmac_", "") for n_ in names])
                break
            st = seg[0][3][0]
            fin = seg[-1]
            if tuple(seg[0][3][1:3]) != (PW, PL) or tuple(fin[3][1:3]) != (PW, PL) or any(e[3][0] != st for e in seg):
                why = "block %d, PRF %d: the HMAC is not keyed with (password, passwordlen) on one state at start and finalize" % (i, j)
                break
            if j == 1:
                be = tuple(tuple(gf2.const_word((i >> (8 * (3 - b_))) & 0xFF, 8)) for b_ in range(4))
                if tuple(seg[1][3][1:3]) != (SALT, SL):
                    why = "block %d: the first update is (%s, %s), expected (salt, saltlen)" % ((i,) + tuple(seg[1][3][1:3]))
                elif seg[2][3][2] != "4" or seg[2][4] is None or tuple(tuple(b_) for b_ in seg[2][4]) != be:
                    why = "block %d: the second update is not the 4 big-endian bytes of the block number %d (%s)" % (i, i, first_byte_diff(seg[2][4], be) if seg[2][3][2] == "4" else "length %s" % seg[2][3][2])
            else:
                if seg[1][3][2] != "32" or seg[1][4] is None or tuple(tuple(b_) for b_ in seg[1][4]) != prev:
                    why = "block %d, PRF %d: the update is not the 32 bytes of the previous PRF output" % (i, j)
            if why:
                break
            mac = bytes_sym("MAC", fin[1], 32)
            prev = mac
            acc = mac if acc is None else tuple(tuple(gf2.wxor(list(a_), list(b_))) for a_, b_ in zip(acc, mac))
            k += len(seg)
        if why:
            break
        for b_ in range(min(32, L - 32 * (i - 1))):
            want[32 * (i - 1) + b_] = acc[b_]
    if why is None and k != len(evs):
        why = "after the last block %d more HMAC calls follow (%s)" % (len(evs) - k, [e[2].replace("tinyjambu_hmac_", "") for e in evs[k:k + 4]])
    outs = mode.outs_of(p)
    if why is None:
        for b_ in range(L):
            got = outs.get((OUTP, b_))
            if got is not None and any(x_ is gf2.TOP for x_ in got):
                raise Broken("tinyjambu_pbkdf2: an output byte is not representable in the term domain: not decided by the small-length rule")
            if got is None or tuple(got) != tuple(want[b_]):
                why = "output byte %d is %s, expected %s" % (b_, gf2.describe(got[0]) if got else "not written", gf2.describe(want[b_][0]))
                break
    if why is None and [k_ for k_ in outs if k_[0] == OUTP and not 0 <= k_[1] < L]:
        why = "writes outside out[0, outlen)"
    return why


def check_pbkdf2_small(ck_ob, mod, label, thorough=False):
    """tinyjambu_pbkdf2 as straight paths: iteration count in {0, 1, 2, 3, 5} x EVERY outlen up to a bound - count and length concrete, data
    symbolic, HMAC uninterpreted.  Compared with RFC 8018: per block i = 1.. the PRF transcript start(P); update(S); update(INT32BE(i));
    finalize(P) -> U1, then max(count,1) - 1 times start(P); update(U(j-1), 32); finalize(P) -> U(j); the bytes written are the first
    min(32, remaining) bytes of U1 ^ ... ^ Uc, exactly out[0, outlen).  Whatever the loop structure; a refuter only."""
    f = mod.fn("tinyjambu_pbkdf2")
    w0 = relpath("%s:%d" % (f.file, f.line))
    A = {nm: irx.argsym(f, f.param_index(nm)) for nm in ("out", "outlen", "password", "passwordlen", "salt", "saltlen", "count")}
    PW, PL, SALT, SL = (repr(Lf.s(A[k])) for k in ("password", "passwordlen", "salt", "saltlen"))
    OUTP = ("arg", f.param_index("out"))
    oi, ci = f.param_index("outlen"), f.param_index("count")
    top = 200 if thorough else 100
    counts = (0, 1, 2, 3, 4, 5, 9) if thorough else (0, 1, 2, 3, 5)
    # ... plus every small constant the code compares anything with (a special case at some count is a class of its own)
    counts = tuple(sorted(set(counts) | {v_ for c_ in compared_constants(f) if c_ <= 24 and c_ != 32 for v_ in (c_, c_ + 1)}))[:12]
    bad = None
    npaths = 0
    SPLIT = [33]
    START = ("tinyjambu_hmac_init", "tinyjambu_hmac_reinit")
    for cnt in counts:
        for L in range(top + 1):
            if cnt > 3 and L > 70:
                continue
            ex = irx.Exec(f, Handler(), havoc="auto", auto=True, split_max=SPLIT[0], arg_consts={oi: L, ci: cnt})
            ps = ex.run(max_paths=50)
            if len(ps) != 1 or ps[0].end[0] != "ret":
                # a bottom-tested loop has no test at its head to decide: with count and length concrete every block is simply followed
                ex = irx.Exec(f, Handler(), havoc="auto", auto=True, unroll=True, split_max=SPLIT[0], arg_consts={oi: L, ci: cnt})
                ps = ex.run(max_paths=50)
            if len(ps) > 4 and SPLIT[0] != 2:
                SPLIT[0] = 2        # (and for the remaining evaluations: the enumeration is the same for every count and length)
                # a test of the (symbolic) password length against a small constant makes the executor enumerate the lengths below it:
                # coarse classes are enough here (each class is one straight path; what a class may do is judged from its range)
                ex = irx.Exec(f, Handler(), havoc="auto", auto=True, split_max=2, arg_consts={oi: L, ci: cnt})
                ps = ex.run(max_paths=50)
            if not ps or len(ps) > 4 or any(q_.end[0] != "ret" for q_ in ps):
                raise Broken("tinyjambu_pbkdf2: with count %d and outlen %d the function is not a few straight paths (%d paths): not decided by the small-length rule" % (cnt, L, len(ps)))
            for p in ps:
              # (several paths only where the code tests a length that stays symbolic here - the password length: each class is one straight path)
              if any(e[0] in ("cond-data", "load-unknown", "store-unknown", "load-sym", "out-sym", "read-uninit", "VARMEM") for e in p.events):
                raise Broken("tinyjambu_pbkdf2: with count %d and outlen %d the path has accesses, copies or data branches the evaluation does not resolve" % (cnt, L))
              npaths += 1
              why = _pbkdf2_small_path(f, ex, p, cnt, L, A, PW, PL, SALT, SL, OUTP, START)
              if why is not None and bad is None:
                bad = ((cnt, L), why)
    ck_ob(bad is None, "SMALL", f.name, "pbkdf2-small[%s]" % label,
          "count in %s x every outlen up to %d (%d straight paths): the PRF transcript of every block (password key, salt, INT32BE(block number), chained 32-byte outputs, max(count,1) PRFs) "
          "and the bytes written - the XOR of the chain, exactly out[0, outlen) - are those of RFC 8018" % (list(counts), top, npaths),
          "with count %s, outlen %s: %s" % (bad[0] + (bad[1],) if bad else ("?", "?", "")), w0)
    return 1



def _count_narrowings(c, f, ps, COUNT, ci):
    """the iteration count truncated to fewer than 32 bits on a path that establishes no bound for it: the PRF chain then has count mod 2^w
    links.  A bound can only come from a comparison of the count with a constant above 255: where the function has none, no path has one"""
    seen = set()
    bounded = False
    for J in f.insts:
        if J.op == "icmp" and any(isinstance(o, (list, tuple)) and tuple(o) == ("a", ci) for o in J.ops):
            for o in J.ops:
                if isinstance(o, (list, tuple)) and o and o[0] == "c":
                    try:
                        bounded = bounded or int(o[1]) > 255
                    except (TypeError, ValueError):
                        bounded = True
    for p in ps:
        for e in p.events:
            if e[0] != "narrowing" or e[1] in seen or e[2] >= 32 or e[3] != COUNT:
                continue
            if len(e) > 4 and e[4] and bounded:
                continue        # (inside a loop, and the function does compare the count with a large constant: left to the shape rules)
            seen.add(e[1])
            I = f.insts[e[1]]
            c("F", False, "count-narrowed#%s" % I.id, "",
              "the iteration count is truncated to %d bits with no bound established on this path: for counts >= 2^%d the chain has count mod 2^%d links" % (e[2], e[2], e[2]),
              where=relpath(I.where))


def check_pbkdf2(ck_ob, mod, label):
    f = mod.fn("tinyjambu_pbkdf2")
    w0 = relpath("%s:%d" % (f.file, f.line))
    A = {nm: irx.argsym(f, f.param_index(nm)) for nm in ("out", "outlen", "password", "passwordlen", "salt", "saltlen", "count")}
    PW, PL, SALT, SL, COUNT = (repr(Lf.s(A[k])) for k in ("password", "passwordlen", "salt", "saltlen", "count"))

    nviol = [0]
    unrec = []

    def c(rule, cond, construct, ok_, bad_, where=None):
        if not cond:
            nviol[0] += 1
        return ck_ob(cond, rule, f.name, "%s[%s]" % (construct, label), ok_, bad_, where or w0)

    def wp(phi, ini):
        # the block number is data (its big-endian bytes are absorbed) - unless it is also what a loop test compares: then it stays a
        # linear form, and the executor turns it into the same symbolic word where its bytes are taken
        if not (phi.bits == 64 and ini is not None and not is_word(ini) and ini.const() == 1):
            return False
        for J in f.insts:
            if J.op == "icmp" and any(tuple(o) == ("i", phi.id) for o in J.ops if isinstance(o, (list, tuple))):
                return False
        return True
    ex = irx.Exec(f, Handler(), havoc="auto", auto=True, split_max=32, word_phis=wp, fresh_per_entry=True)
    ps = ex.run(max_paths=4000)
    no_data_branches(f, ps)
    _count_narrowings(c, f, ps, COUNT, f.param_index("count"))
    if any(e[2] == "tinyjambu_hash" for p_ in ps for e in calls(p_)):
        # (keying with the digest of a long password is keying with the password; whether it is done only for passwords longer than the
        # HMAC block, and the digest kept intact, is decided by the small-length rule)
        raise Broken("tinyjambu_pbkdf2: the password is pre-processed by a hash call: this shape is not analysed by the per-class rule")
    outer = [l for l in f.loops if l["parent"] == -1 and any(f.insts[i].op == "phi" and (f.insts[i].get("ty") or "").endswith("*") for i in f.blocks[l["header"]].insts)]
    outer = [l for l in outer if l["btc"].get("k") == "cnc"] or outer
    if not outer:
        raise Broken("tinyjambu_pbkdf2: outer block loop not found")
    oh = outer[0]["header"]
    ophis = [f.insts[i] for i in f.blocks[oh].insts if f.insts[i].op == "phi"]
    pcur = [I for I in ophis if (I.get("ty") or "").endswith("*")]
    pint = [I for I in ophis if not (I.get("ty") or "").endswith("*")]
    if len(pcur) != 1 or len(pint) not in (1, 2):
        raise Broken("tinyjambu_pbkdf2: expected cursor, remaining length and block number at the outer loop head (found %d pointer, %d integer phis)" % (len(pcur), len(pint)))
    arr = {"on": len(pint) == 1, "obj": None, "off": 0, "X": None}    # block number kept as 4 big-endian bytes in a local array instead of an integer
    cur = ("hdp", pcur[0].id)
    n = 0
    seen = set()
    bnphi = remphi = None
    for p in ps:
        if p.end[0] == "loop-entry" and p.end[1] == oh and not calls(p) and not [e for e in p.events if e[0] == "class"]:
            # function entry -> outer loop
            for I in pint:
                ini = p.env.get(("init", I.id))
                if ini == Lf.s(A["outlen"]):
                    remphi = I
                elif ini is not None and not is_word(ini) and ini.const() == 1:
                    bnphi = I
            okc = p.env.get(("init", pcur[0].id)) == Lf.s(A["out"]) and remphi is not None and (bnphi is not None or arr["on"])
            arr["entry"] = p
            c("BLOCKS", okc, "start", "block loop starts at out with outlen remaining and block number 1", "block loop starts with cursor %s, integers %s"
              % (p.env.get(("init", pcur[0].id)), [p.env.get(("init", I.id)) for I in pint]))
            seen.add("entry")
    if remphi is None or (bnphi is None and not arr["on"]):
        raise Broken("tinyjambu_pbkdf2: cannot identify remaining length and block number at the outer loop head: unrecognised shape")
    rem = ("hd", remphi.id)
    if arr["on"]:
        BN = None
        int32be = None
        for p in ps:
            ev = calls(p)
            if [e[2] for e in ev][:4] == ["tinyjambu_hmac_init", "tinyjambu_hmac_update", "tinyjambu_hmac_update", "tinyjambu_hmac_finalize"] and ev[2][3][1].startswith("alloca") and ev[2][3][2] == "4":
                bo = _objoff(ev[2][3][1])
                if arr["obj"] is not None and (arr["obj"], arr["off"]) != bo:
                    raise Broken("tinyjambu_pbkdf2: block number array not unique")
                arr["obj"], arr["off"] = bo
        if arr["obj"] is None:
            raise Broken("tinyjambu_pbkdf2: the block number is neither a loop-carried integer nor a local 4-byte array absorbed by the first PRF")
        pe = arr.get("entry")
        ini = [pe.mem.get((arr["obj"], arr["off"] + k)) for k in range(4)] if pe is not None else None
        if pe is not None and all(b is None for b in ini):
            lf = pe.lfmem.get((arr["obj"], arr["off"], 4))        # the initialiser stored as one 32-bit constant (little-endian host)
            if lf is not None and lf.const() is not None:
                ini = [gf2.const_word((lf.const() >> (8 * k)) & 0xFF, 8) for k in range(4)]
        okst = ini is not None and all(b is not None for b in ini) and [gf2.is_const(list(b)) for b in ini] == [0, 0, 0, 1]
        c("BLOCKS", okst, "start-blocknum", "the block number array starts as 00 00 00 01", "the block number array starts as %s" % (ini and [b is not None and gf2.is_const(list(b)) for b in ini]))
    else:
        BN = gf2.sym_word(("hdw", bnphi.id), 64)
        int32be = tuple(tuple(BN[8 * (3 - k): 8 * (3 - k) + 8]) for k in range(4))

    def seg_kind(p):
        ev = calls(p)
        names = [e[2] for e in ev]
        return names

    for p in ps:
        ev = calls(p)
        names = [e[2] for e in ev]
        if not names and p.end[0] in ("loop-entry",):
            continue
        if p.end[0] == "ret" and names in ([], ["tinyjambu_clean"], ["tinyjambu_clean", "tinyjambu_clean"]) and all(e_[3][0].startswith("alloca") for e_ in ev) \
                and not [k for k in mode.outs_of(p) if k[0][0] in ("arg", "hdp")]:
            # nothing (left) to generate: only the final wipe of U
            c("BLOCKS", p.eqs.get(rem) == 0 or not [e for e in p.events if e[0] == "cond"], "done", "the block loop ends when no output remains; U is wiped", "loop exit with remaining %s" % p.eqs.get(rem))
            seen.add("done")
            continue
        var = [e for e in p.events if e[0] == "VARMEM"]
        c("F", not var, "resolved#%d" % len(seen), "all copies have constant lengths in their class", "variable-length copy not resolved: %s" % [v_[3] for v_ in var][:2])
        outs = mode.outs_of(p)
        remc = p.eqs.get(rem)
        if names[:4] == ["tinyjambu_hmac_init", "tinyjambu_hmac_update", "tinyjambu_hmac_update", "tinyjambu_hmac_finalize"]:
            # ---- first PRF of a block
            st = ev[0][3][0]
            full = remc is None
            if arr["on"]:
                # the 4 bytes absorbed must be the contents the local array had at the start of this path (big-endian by position)
                int32be = tuple(tuple(hashbyte(p, arr["obj"], arr["off"] + k)) for k in range(4))
                if ev[2][3][1] != "alloca:%d" % arr["obj"][1] + ("+%d" % arr["off"] if arr["off"] else ""):
                    int32be = None
            okU1 = st.startswith("alloca") and ev[0][3] == (st, PW, PL) and ev[1][3] == (st, SALT, SL) and ev[2][3][0] == st and ev[2][3][2] == "4" \
                and ev[2][4] == int32be and ev[3][3][:3] == (st, PW, PL)
            c("F", okU1, "U1(%s)" % ("full" if full else "last"), "U1 = PRF(P, S || INT32BE(block number)): init(P); update(S); update(4 big-endian bytes of the block number); finalize",
              "first PRF differs: init%s update%s update%s data %s finalize%s" % (ev[0][3][1:], ev[1][3][1:], ev[2][3][1:], first_byte_diff(ev[2][4], int32be), ev[3][3][1:3]),
              relpath(f.insts[ev[2][5]].where))
            T = ev[3][3][3]
            c("BLOCKS", (T == repr(Lf.s(cur))) if full else T.startswith("alloca"), "T-target(%s)" % ("full" if full else "last"),
              "T is the output cursor for a full block / a local 32-byte buffer for the last partial block", "T is %s for a %s block" % (T, "full" if full else "partial"))
            mac1 = bytes_sym("MAC", ev[3][1], 32)
            rest = ev[4:]
            rn = [e[2] for e in rest]
            cnt = p.eqs.get(A["count"])
            if rn[:1] == ["tinyjambu_hmac_free"]:
                seen.add("count<=1")
                c("F", cnt in (0, 1), "no-chain(%s)" % cnt, "count <= 1 (0 behaves as 1): T = U1", "the chain is skipped for count class %s" % cnt)
                tb = mac1
                after = rest[1:]
            elif rn[:3] == ["tinyjambu_hmac_reinit", "tinyjambu_hmac_update", "tinyjambu_hmac_finalize"]:
                seen.add("count>1")
                lo_c = ex._range(p, Lf.s(A["count"]))[0]
                c("F", lo_c is not None and lo_c >= 2, "chain-only-above-1(%s)" % ("full" if full else "last"), "the second PRF (U2) runs only when count > 1: counts 0 and 1 give T = U1",
                  "U2 is computed on a path where the iteration count may be %s: a count of 0 (or 1) no longer behaves as 1" % (lo_c,))
                okU2 = rest[0][3] == (st, PW, PL) and rest[1][3] == (st, T, "32") and rest[1][4] == mac1 and rest[2][3][:3] == (st, PW, PL) and rest[2][3][3].startswith(("alloca", "glob"))
                c("F", okU2, "U2(%s)" % ("full" if full else "last"), "U2 = PRF(P, U1): reinit(P); update(U1, 32); finalize -> U", "second PRF differs: %s" % [(e[2], e[3][1:]) for e in rest[:3]])
                mac2 = bytes_sym("MAC", rest[2][1], 32)
                tb = tuple(tuple(gf2.wxor(list(a), list(b))) for a, b in zip(mac1, mac2))
                after = rest[3:]
                # T ^= U2 in memory, and the chain loop starts with the caller's count
                tobj, toff = _objoff(T)
                okT = all(tuple(p.mem.get((tobj, toff + i), ())) == tb[i] for i in range(32))
                c("F", okT, "T=U1^U2(%s)" % ("full" if full else "last"), "T = U1 xor U2 (all 32 bytes)", "T is not U1 xor U2 after the second PRF")
                if p.end[0] == "loop-entry":
                    inner = p.end[1]
                    cphi = [f.insts[i] for i in f.blocks[inner].insts if f.insts[i].op == "phi" and not (f.insts[i].get("ty") or "").endswith("*")]
                    ini = [p.env.get(("init", I.id)) for I in cphi]
                    c("F", _chain_trips_ok(f, inner, f.param_index("count")), "chain-init(%s)" % ("full" if full else "last"),
                      "the chain loop runs count - 2 times (ScalarEvolution trip count), whatever the direction of its counter", "chain loop counter starts at %s; trip count %s" % (ini, _loop(f, inner).get("btc_text")))
                    n += 5
                    continue
            else:
                c("F", False, "after-U1", "", "after the first PRF: %s" % rn[:3])
                continue
            n += _pb_tail(c, f, ex, p, after, outs, tb, T, cur, rem, pcur, remphi, bnphi, BN, full, remc, st, arr=arr)
            continue
        if names[:3] == ["tinyjambu_hmac_reinit", "tinyjambu_hmac_update", "tinyjambu_hmac_finalize"] and p.end[0] == "backedge" and p.end[1] != oh:
            # ---- generic chain iteration
            seen.add("chain")
            inner = p.end[1]
            cphi = [f.insts[i] for i in f.blocks[inner].insts if f.insts[i].op == "phi" and not (f.insts[i].get("ty") or "").endswith("*")]
            st = ev[0][3][0]
            U = ev[2][3][3]
            uobj, uoff = _objoff(U)
            ustart = tuple(tuple(hashbyte(p, uobj, uoff + i)) for i in range(32))
            okc = ev[0][3] == (st, PW, PL) and ev[1][3] == (st, U, "32") and ev[1][4] == ustart and ev[2][3][:3] == (st, PW, PL)
            c("F", okc, "chain-PRF", "U(j+1) = PRF(P, U(j)): reinit(P); update(U, 32); finalize -> U", "chain PRF differs: %s" % [(e[2], e[3][1:]) for e in ev[:3]])
            mac = bytes_sym("MAC", ev[2][1], 32)
            # T ^= U: find the 32-byte object other than U whose cells changed
            changed = {}
            for (k_, v_) in p.mem.items():
                if isinstance(k_[1], int) and p.start_mem.get(k_) != v_ and k_[0] != uobj and k_[0][0] in ("alloca", "hdp", "arg") and k_[0] != _objoff(st)[0]:
                    changed.setdefault(k_[0], {})[k_[1]] = v_
            okx = False
            for ob, cells in changed.items():
                offs = sorted(cells)
                if len(offs) == 32 and all(tuple(cells[o]) == tuple(gf2.wxor(list(hashbyte(p, ob, o)), list(mac[i]))) for i, o in enumerate(offs)):
                    okx = True
            c("F", okx, "chain-xor", "T ^= U(j+1) over all 32 bytes", "the chained PRF output is not XORed into all 32 bytes of T (changed objects: %s)" % {k_: len(v_) for k_, v_ in changed.items()})
            okg = _chain_trips_ok(f, inner, f.param_index("count"))
            c("F", okg, "chain-count", "the chain loop body runs count - 2 times (ScalarEvolution: %s): count PRFs in total" % _loop(f, inner).get("btc_text"),
              "the chain loop body runs %s times instead of count - 2: the number of PRF iterations is not the iteration count" % _loop(f, inner).get("btc_text"))
            n += 3
            continue
        if names[:1] == ["tinyjambu_hmac_free"]:
            # ---- leaving the chain loop
            seen.add("chain-exit")
            cls = None
            remc2 = p.eqs.get(rem)
            full = remc2 is None
            n += _pb_tail(c, f, ex, p, ev[1:], outs, None, None, cur, rem, pcur, remphi, bnphi, BN, full, remc2, ev[0][3][0], from_chain=True, arr=arr)
            continue
        unrec.append("%s (end %s)" % (names[:5], p.end[0]))
    if unrec and (not nviol[0] or any(u_.startswith("[] (end backedge") or u_.startswith("[] (end loop-entry") for u_ in unrec)):
        # a path class whose call sequence is none of the recognised segments, and nothing recognised is wrong: another shape.  Likewise
        # when a path without any call ends at a loop (the iteration or entry of a helper loop the executor could not follow):
        # the values compared above were then computed without that loop's effect, so their mismatch means nothing
        raise Broken("tinyjambu_pbkdf2: path class(es) with an unrecognised call sequence %s: this shape is not analysed" % unrec[:2])
    if unrec:
        c("F", False, "unexpected-segment", "", "besides the deviations reported, unexpected event sequence %s" % unrec[:2])
    if not {"count<=1", "count>1", "chain", "chain-exit"} <= seen:
        raise Broken("tinyjambu_pbkdf2: segment classes found %s, expected count <= 1, count > 1, a generic chain iteration and the chain exit: unrecognised shape" % sorted(seen))
    c("F", True, "classes", "all segment classes found (count <= 1, count > 1, generic chain iteration, chain exit)", "")
    return n + 1


def _objoff(r):
    """parse 'alloca:3+4' / 'hdp:16' / 'arg:0' forms back into (obj, off)"""
    parts = r.split("+")
    base = parts[0]
    off = 0
    for x in parts[1:]:
        try:
            off += int(x)
        except ValueError:
            pass
    kind, num = base.split(":")[0], base.split(":", 1)[1]
    try:
        return (kind, int(num)), off
    except ValueError:
        return (kind, num), off


def _pb_tail(c, f, ex, p, after, outs, tb, T, cur, rem, pcur, remphi, bnphi, BN, full, remc, st, from_chain=False, arr=None):
    """what follows F: free; full block -> advance; last partial block -> copy outlen bytes, wipe T; final wipe of U"""
    n = 0
    an = [e[2] for e in after]
    if not from_chain:
        c("F", an[:1] == ["tinyjambu_hmac_free"] or True, "free", "HMAC state freed after F", "")
    if full:
        if p.end[0] != "backedge":
            raise Broken("tinyjambu_pbkdf2: a full block does not continue with the block loop (path ends with %s): unrecognised shape" % p.end[0])
        bc, br = p.env.get(("back", pcur[0].id)), p.env.get(("back", remphi.id))
        if arr and arr["on"]:
            if arr["obj"] is None:
                raise Broken("tinyjambu_pbkdf2: block number carrier not identified on this path")
            newb = [p.mem.get((arr["obj"], arr["off"] + k)) for k in range(4)]
            X = [hashbyte(p, arr["obj"], arr["off"] + k) for k in range(4)]
            okinc, why_inc = _check_be_inc(newb, X)
        else:
            bb = p.env.get(("back", bnphi.id))
            okinc = is_word(bb) and bb == gf2.wadd(BN, gf2.const_word(1, 64))[0]
            why_inc = "not the loop-carried value + 1"
        okb = bc == Lf({cur: 1, 1: 32}) and br == Lf({rem: 1, 1: -32}) and okinc
        okg = ex._range(p, Lf.s(rem))[0] >= 32
        c("BLOCKS", okb and okg, "advance%s" % ("-chain" if from_chain else ""), "full block: out += 32, outlen -= 32, block number += 1 (only when >= 32 bytes remain)",
          "after a full block: cursor %s remaining %s block number +1: %s guard>=32: %s" % (bc, br, okinc or why_inc, okg))
        if tb is not None:
            okw = all(tuple(outs.get((cur, i), ())) == tb[i] for i in range(32))
            c("BLOCKS", okw, "full-block-bytes", "the 32 bytes at the cursor hold T", "output bytes of a full block are not T")
        extra = [k for k in outs if k[0] == cur and not 0 <= k[1] < 32]
        c("BLOCKS", not extra, "full-block-range%s" % ("-chain" if from_chain else ""), "exactly 32 output bytes per full block", "writes outside the 32-byte block: %s" % extra[:3])
        return 3
    # last partial block
    r = remc
    okseq = [e[2] for e in after if e[2] != "tinyjambu_hmac_free"] == ["tinyjambu_clean", "tinyjambu_clean"]
    okend = p.end[0] == "ret" and okseq
    if p.end[0] == "backedge":
        # the partial block may also go round the loop once more with nothing left (the loop is then left - and the temporaries
        # wiped - by the iteration that finds remaining == 0, the 'done' class)
        br_ = p.env.get(("back", remphi.id))
        okend = br_ is not None and not is_word(br_) and ex.subst(p, br_).const() == 0 and not [e for e in after if e[2] != "tinyjambu_hmac_free"]
    c("BLOCKS", okend, "last-block-ends(%s)%s" % (r, "-chain" if from_chain else ""), "after the partial block: wipe T, leave the loop, wipe U, return (or: continue with nothing remaining)",
      "after the partial block: events %s, end %s" % ([e[2] for e in after], p.end[0]))
    wr = sorted(k[1] for k in outs if k[0] == cur)
    c("BLOCKS", wr == list(range(r)), "last-block-range(%s)%s" % (r, "-chain" if from_chain else ""), "exactly the %d requested bytes are written" % r,
      "the last block writes output offsets %s..%s (%d bytes) for %d remaining" % (wr[:1], wr[-1:], len(wr), r))
    if tb is not None:
        okw = all(tuple(outs.get((cur, i), ())) == tb[i] for i in range(r))
        c("BLOCKS", okw, "last-block-bytes(%s)" % r, "the bytes written are T[0..%d)" % r, "last block bytes are not the first %d bytes of T" % r)
    return 3


# ---------------------------------------------------------------------------
# PRNG (Hash_DRBG of SP 800-90A 10.1.1 over TinyJAMBU-Hash as documented in tinyjambu-prng.c)

def _cbytes(vals):
    return tuple(tuple(gf2.const_word(v, 8)) for v in vals)


def check_df(c, ev, k, marker, vbytes, inptr, inlen, outptr, indata, tag, ST):
    """Hash_df as one hash session: init(h); update(h, ...)*; finalize(h, out) [; free(h), here or later].  What counts is the byte stream
    the session absorbs - header {1,0,0,1,0[,marker]}, then V (32 bytes), then the additional input - however it is cut into update
    calls (a header built in one piece or two, an empty update left out).  Returns (next index, digest event)"""
    while k < len(ev) and ev[k][2] == "tinyjambu_clean" and str(ev[k][3][0]).startswith("alloca"):
        k += 1          # the wipe of a local temporary of the previous session (a staging buffer): not part of a hash session; a wipe before a use shows in the data
    if len(ev) <= k or ev[k][2] != "tinyjambu_hash_init":
        c("SEQ", False, "%s-df" % tag, "", "Hash_df does not start with hash_init: %s" % [e[2] for e in ev[k:k + 3]])
        return None
    h = ev[k][3][0]
    j = k + 1
    got = []            # the absorbed stream: ("b", byte) per byte of a constant-length update, ("s", ptr, len) for an update of symbolic length
    while j < len(ev) and ev[j][2] == "tinyjambu_hash_update" and ev[j][3][0] == h:
        e = ev[j]
        if e[3][2] == "0":
            pass            # an empty update absorbs nothing
        elif e[4] is not None and e[3][2].isdigit():
            got.extend(("b", tuple(x)) for x in e[4])
        else:
            got.append(("s", e[3][1], e[3][2]))
        j += 1
    if j >= len(ev) or ev[j][2] != "tinyjambu_hash_finalize" or ev[j][3][0] != h:
        c("SEQ", False, "%s-df" % tag, "", "Hash_df is %s: no finalize of the same hash state after its updates" % [e[2] for e in ev[k:j + 1]])
        return None
    fin = ev[j]
    j += 1
    freed = False
    if j < len(ev) and ev[j][2] == "tinyjambu_hash_free" and ev[j][3] == (h,):
        freed = True
        j += 1
    else:
        # one hash state serving several sessions: freed once, after the last of them
        freed = any(e[2] == "tinyjambu_hash_free" and e[3] == (h,) for e in ev[j:])
    hdr = [("b", tuple(x)) for x in _cbytes([1, 0, 0, 1, 0] + ([] if marker == 0xFF else [marker]))]
    nh = len(hdr)
    okh = got[:nh] == hdr
    c("SEQ", okh, "%s-header" % tag, "Hash_df header: counter 1, 256 bits to return%s" % ("" if marker == 0xFF else ", marker 0x%02X" % marker),
      "Hash_df header bytes are %s, expected %s" % ([gf2.is_const(list(x[1])) if x[0] == "b" else x[1:] for x in got[:nh]], [1, 0, 0, 1, 0] + ([] if marker == 0xFF else [marker])))
    vgot = got[nh:nh + 32]
    okv = len(vgot) == 32 and all(x[0] == "b" for x in vgot) and (vbytes is None or tuple(x[1] for x in vgot) == tuple(tuple(x) for x in vbytes))
    c("DEP", okv, "%s-V" % tag, "all 32 bytes of V are hashed in", "the working value V is not absorbed as specified: %s" %
      (first_byte_diff(tuple(x[1] for x in vgot), vbytes) if vbytes is not None and len(vgot) == 32 and all(x[0] == "b" for x in vgot) else [x[:1] + x[2:] if x[0] == "b" else x for x in vgot][:3]))
    rest = got[nh + 32:]
    if inlen == "0":
        oki = not rest
    elif indata is not None and inlen.isdigit():
        oki = rest == [("b", tuple(x)) for x in indata] or rest == [("s", inptr, inlen)]
    else:
        oki = rest == [("s", inptr, inlen)]
    c("DEP", oki, "%s-input" % tag, "then the additional input (%s, %s)" % (inptr, inlen), "additional input differs: %s (expected %s, %s)" % ([x if x[0] == "s" else "byte" for x in rest][:4], inptr, inlen))
    okf = fin[3] == (h, outptr) and freed and h.startswith("alloca")
    c("SEQ", okf, "%s-out" % tag, "digest -> %s; hash state freed" % outptr, "Hash_df output goes to %s (expected %s)%s" % (fin[3], outptr, "" if freed else "; the local hash state is never freed"))
    return j, fin


def check_prng(ck_ob, mod, label, generate=True):
    ST = ("arg", 0)
    fld = {m["name"]: m for m in mod.composites["tinyjambu_prng_state_p_t"]["members"]}
    V, C, CNT, LIM = fld["V"]["offset"], fld["C"]["offset"], fld["reseed_counter"]["offset"], fld["reseed_limit"]["offset"]
    if (fld["V"]["size"], fld["C"]["size"], V) != (32, 32, 0):
        raise Broken("PRNG private state layout changed")
    if generate:
        # the reseed counter is the 32-bit quantity added into V (big-endian, 4 bytes) and compared with the limit; feed() and generate
        # increment it without an upper bound of their own, so a narrower field wraps after a long enough history
        wf = mod.fn("tinyjambu_prng_generate")
        ck_ob(fld["reseed_counter"]["size"] == 4 and fld["reseed_limit"]["size"] == 4, "SEQ", wf.name, "counter-width[%s]" % label,
              "reseed counter and reseed limit are 32-bit fields: the counter term of the state advance and the position of automatic reseeds are those of a 32-bit count of calls",
              "reseed counter / limit are %d / %d bytes wide instead of 4: the count of calls wraps (feeds included) and with it the counter term and where automatic reseeds fall"
              % (fld["reseed_counter"]["size"], fld["reseed_limit"]["size"]), relpath("%s:%d" % (wf.file, wf.line)))
    icells = lambda ob, off, n: ob == ST and (off, n) in ((CNT, fld["reseed_counter"]["size"]), (LIM, fld["reseed_limit"]["size"]))
    CP = repr(Lf({ST: 1, 1: C}))
    VP = repr(Lf.s(ST))
    n = 0

    def mk(fname):
        f = mod.fn(fname)
        ex = irx.Exec(f, Handler(), havoc="auto", auto=True, split_max=32, int_cells=icells)
        ps = ex.run(max_paths=3000)
        no_data_branches(f, ps)
        w0 = relpath("%s:%d" % (f.file, f.line))

        def c(rule, cond, construct, ok_, bad_, where=None):
            return ck_ob(cond, rule, f.name, "%s[%s]" % (construct, label), ok_, bad_, where or w0)
        return f, ex, ps, c
    # ---- instantiate
    f, ex, ps, c = mk("tinyjambu_prng_init_user")
    for p in ps:
        ev = calls(p)
        tag = "init(%s)" % ("cb" if p.eqs.get(("arg", 1)) is None else "null")
        if not ev or ev[0][2] != "<callback>":
            c("SEQ", False, tag + "-entropy", "", "instantiate does not start with the entropy request: %s" % [e[2] for e in ev[:2]])
            continue
        cb = ev[0]
        ent = bytes_sym("ENTROPY", cb[1], 32)
        c("SEQ", cb[3][1] == VP and cb[3][2] == "32", tag + "-entropy", "32 bytes of entropy requested into V", "entropy request is %s" % (cb[3],))
        okpre = cb[4] is not None and all(gf2.is_const(list(b_)) == 0 for b_ in cb[4])
        c("DEP", okpre, tag + "-prefill", "the seed buffer is all zero when the source is asked: a short delivery leaves a defined value, independent of what the object held before",
          "the seed buffer is not zeroed before the entropy request: after a short or failed delivery the generator depends on the previous contents of the state object")
        r = check_df(c, ev, 1, 0xFF, ent, repr(Lf.s(("arg", 3))), repr(Lf.s(("n", 4))), VP, None, tag + "-V", ST)
        if r:
            k, fin = r
            r2 = check_df(c, ev, k, 0x00, bytes_sym("DIGEST", fin[1], 32), "0", "0", CP, None, tag + "-C", ST)
            if r2:
                more = [e for e in ev[r2[0]:] if not (e[2] == "tinyjambu_clean" and str(e[3][0]).startswith("alloca"))]      # (wipes of local temporaries hash nothing)
                c("SEQ", not more, tag + "-nothing-more", "nothing else is hashed", "extra calls: %s" % [e[2] for e in more])
        c("SEQ", p.lfmem.get((ST, CNT, 4)) == Lf.c(1), tag + "-counter", "reseed_counter = 1", "reseed_counter after instantiate is %s" % p.lfmem.get((ST, CNT, 4)))
        n += 8
    # ---- reseed
    f, ex, ps, c = mk("tinyjambu_prng_reseed")
    vold = inbytes(ST, 32, V)
    for p in ps:
        ev = calls(p)
        if not ev or ev[0][2] != "<callback>":
            c("SEQ", False, "reseed-entropy", "", "reseed does not start with the entropy request")
            continue
        cb = ev[0]
        ent = bytes_sym("ENTROPY", cb[1], 32)
        c("SEQ", cb[3][1] == CP and cb[3][2] == "32", "reseed-entropy", "32 bytes of entropy requested into C", "entropy request is %s" % (cb[3],))
        okpre = cb[4] is not None and tuple(cb[4]) == tuple(vold)
        c("DEP", okpre, "reseed-prefill", "C is pre-loaded with V when the source is asked: a short delivery is mixed with the old state",
          "the entropy buffer is not pre-loaded with V before the request: %s" % (first_byte_diff(cb[4], vold) if cb[4] is not None else "contents unknown"))
        r = check_df(c, ev, 1, 0x01, vold, CP, "32", VP, ent, "reseed-V", ST)
        if r:
            r2 = check_df(c, ev, r[0], 0x00, bytes_sym("DIGEST", r[1][1], 32), "0", "0", CP, None, "reseed-C", ST)
        c("SEQ", p.lfmem.get((ST, CNT, 4)) == Lf.c(1), "reseed-counter", "reseed_counter = 1", "reseed_counter after reseed is %s" % p.lfmem.get((ST, CNT, 4)))
        n += 8
    # ---- feed
    f, ex, ps, c = mk("tinyjambu_prng_feed")
    for p in ps:
        ev = calls(p)
        r = check_df(c, ev, 0, 0x01, vold, repr(Lf.s(("arg", 1))), repr(Lf.s(("n", 2))), VP, None, "feed-V", ST)
        if r:
            check_df(c, ev, r[0], 0x00, bytes_sym("DIGEST", r[1][1], 32), "0", "0", CP, None, "feed-C", ST)
        cnt0 = Lf.s(("fld", ST, CNT, 0))
        c("SEQ", p.lfmem.get((ST, CNT, 4)) == cnt0.add(Lf.c(1)), "feed-counter", "reseed_counter + 1", "reseed_counter after feed is %s" % p.lfmem.get((ST, CNT, 4)))
        n += 7
    if not generate:
        return n
    # ---- generate: generic block
    f, ex, ps, c = mk("tinyjambu_prng_generate")
    if not f.loops:
        raise Broken("tinyjambu_prng_generate has no loop")
    if not f.calls("tinyjambu_prng_reseed") and any(c_.callee is None and not c_.is_dbg() for c_ in f.calls()):
        raise Broken("tinyjambu_prng_generate makes an entropy request itself instead of calling tinyjambu_prng_reseed (the reseed in a file-local helper?): the reseed sites are not recognised")
    seen = set()
    site_classes = {}
    import random
    rnd = random.Random(20261003)
    outer = [l["header"] for l in f.loops if l.get("parent", -1) == -1]
    for p in ps:
        if p.end[0] in ("loop-entry", "backedge") and p.end[1] not in outer:
            raise Broken("tinyjambu_prng_generate: an inner loop whose trip count is not a decided constant (header block %s): the state update cannot be summarised per block "
                         "(a data-dependent loop bound is C07's matter)" % p.end[1])
        ev = calls(p)
        names = [e[2] for e in ev]
        if "tinyjambu_hash" not in names:
            continue
        k = 0
        reseeded = names[0] == "tinyjambu_prng_reseed"
        if reseeded:
            k = 1
        seen.add("reseed" if reseeded else "plain")
        # per generation site (the Hash(V) call that produces output): a site that is only ever reached without the reseed test - a partial
        # block handled outside the loop, say - produces blocks the documented generator would have produced from a reseeded state
        site_classes.setdefault(ev[k][5], set()).add("reseed" if reseeded else "plain")
        g = p.objgen.get(ST, 0)
        want = ["tinyjambu_hash", "tinyjambu_hash_init", "tinyjambu_hash_update", "tinyjambu_hash_update", "tinyjambu_hash_finalize", "tinyjambu_hash_free"]
        if names[k:k + 6] != want:
            c("SEQ", False, "block-sequence", "", "block generation is %s, expected %s" % (names[k:k + 6], want))
            continue
        e = ev[k:k + 6]
        vcur = e[0][4]
        # (the digest may go to a local and be copied out, or straight to the output buffer: what is emitted is compared below)
        okv = e[0][3][1] == VP and e[0][3][2] == "32" and vcur is not None
        c("SEQ", okv, "block-output-hash", "output block = Hash(V) over all 32 bytes of V", "output hash is %s" % (e[0][3],))
        Hobj, Hoff = _objoff(e[0][3][0])
        dig = bytes_sym("DIGEST", e[0][1], 32)
        # emitted bytes
        outs = mode.outs_of(p)
        curs = {k_[0] for k_ in outs if k_[0][0] in ("hdp", "arg", "idx") and k_[0] != ST}
        symw = [e_ for e_ in p.events if e_[0] in ("out-sym", "store-unknown", "load-unknown", "VARMEM")]
        if len(curs) == 1 and next(iter(curs))[0] == "idx" and next(iter(curs))[1] != ST:
            # index style: the block is written at (output buffer + one symbolic offset) + constant offsets - that is a cursor too
            symw = [e_ for e_ in symw if not (e_[0] == "out-sym" and ("idx", e_[1], e_[2]) in curs)]
        if not curs and not symw:
            # an iteration that emits nothing: the class 'no bytes left' at the loop head.  It is unreachable when 'remaining != 0 at the
            # head' is an inductive invariant (bottom-tested loop entered only with remaining != 0): then the class is skipped
            zsyms = [s_ for s_, v_ in p.eqs.items() if isinstance(s_, tuple) and s_[0] == "hd" and v_ == 0]
            okz = False
            for zs in zsyms:
                ent = [q for q in ps if q.end[0] == "loop-entry" and q.blocks and q.blocks[0] == 0]
                back = [q for q in ps if q.end[0] == "backedge"]
                if ent and back and all(_excludes_zero_plain(ex, q, q.env.get(("init", zs[1]))) for q in ent) and all(_excludes_zero_plain(ex, q, q.env.get(("back", zs[1]))) for q in back):
                    okz = True
            if okz:
                continue
        if len(curs) != 1 or symw or any(not isinstance(k_[1], int) for k_ in outs if k_[0] in curs) or next(iter(curs))[0] not in ("hdp", "idx"):
            raise Broken("tinyjambu_prng_generate: the output of a block is not written at constant offsets of one loop-carried output cursor "
                         "(objects %s, unresolved %s): index-based or otherwise unrecognised loop shape" % (sorted(curs, key=repr), [e_[0] for e_ in symw][:2]))
        ln = None
        okb = False
        for ob in curs:
            offs = sorted(k_[1] for k_ in outs if k_[0] == ob)
            ln = len(offs)
            # (consecutive bytes from the cursor's first written offset: an index-style cursor splits `data + size - left` into a symbolic part and a constant)
            o0 = offs[0] if offs else 0
            okb = offs == list(range(o0, o0 + ln)) and all(tuple(outs[(ob, o0 + i)]) == dig[i] for i in range(ln)) and 1 <= ln <= 32 and (ob[0] == "idx" or o0 == 0)
        c("SEQ", okb and len(curs) == 1, "block-emit(%s)" % ln, "the first %s bytes of Hash(V) are emitted at the output cursor" % ln, "emitted bytes are not Hash(V)[0..len): objects %s" % sorted(curs, key=repr))
        # (where H is kept is immaterial: the sum below is formed from the digest bytes of this finalize, wherever they were put)
        okp = e[2][3][2] == "1" and e[2][4] == _cbytes([3]) and e[3][3][1] == VP and e[3][3][2] == "32" and e[3][4] == vcur and e[1][3][0] == e[5][3][0]
        c("SEQ", okp, "block-advance-hash", "H = Hash(0x03 || V) over the same V", "state-advance hash differs: prefix %s, V %s -> %s" % (e[2][4] and [gf2.is_const(list(b)) for b in e[2][4]], e[3][3], e[4][3]))
        hp = bytes_sym("DIGEST", e[4][1], 32)
        # V' = V + H + C + counter (256-bit big-endian): support sets + evaluation on corner / random assignments
        vnew = [p.mem.get((ST, V + i)) for i in range(32)]
        cbytes_ = [hashbyte(p, ST, C + i) if (ST, C + i) not in p.mem else p.mem[(ST, C + i)] for i in range(32)]
        cnt_l = p.start_lfmem.get((ST, CNT, 4)) if not reseeded else None
        cnt_sym = ("fld", ST, CNT, g) if reseeded or cnt_l is None else None
        cntw = ex.word(Lf.s(("fld", ST, CNT, g)) if (reseeded or cnt_l is None) else cnt_l, 32, p)
        if any(v_ is None or any(b is gf2.TOP for b in v_) for v_ in vnew):
            raise Broken("tinyjambu_prng_generate: the new V is not representable (arithmetic outside the domain)")
        okadd, wit = _check_be_add(vnew, [list(b) for b in vcur], [list(b) for b in hp], [list(b) for b in cbytes_], cntw, rnd)
        c("DEP", okadd, "block-add", "V' = V + Hash(3||V) + C + reseed_counter as a 256-bit big-endian sum (support sets exact; evaluated on carry-chain corner cases and random assignments, reseed_counter < 2^31: the 32-bit carry of the implementation is exact there and R-C16 bounds the counter by the limit)",
          "the state advance is not V + H + C + counter (mod 2^256, big-endian): %s" % wit)
        cnt0 = Lf.s(("fld", ST, CNT, g)) if (reseeded or cnt_l is None) else cnt_l
        c("SEQ", p.lfmem.get((ST, CNT, 4)) == ex.subst(p, cnt0).add(Lf.c(1)), "block-counter", "reseed_counter + 1 after every block", "reseed_counter after a block is %s" % p.lfmem.get((ST, CNT, 4)))
        okc = all((ST, C + i) not in p.mem or p.mem[(ST, C + i)] == p.start_mem.get((ST, C + i), p.mem[(ST, C + i)]) for i in range(32))
        c("DEP", okc, "block-C", "C is not modified by generate", "generate modifies C")
        n += 6
    for si_, (site, cls_) in enumerate(sorted(site_classes.items())):
        if len(site_classes) > 1:
            c("SEQ", {"plain", "reseed"} <= cls_, "generate-classes(site %d)" % (si_ + 1), "the block generated at %s exists both with and without the automatic reseed in front of it" % relpath(f.insts[site].where),
              "the block generated at %s is only ever produced %s the automatic reseed test: the reseeds do not fall where the documented generator has them" % (relpath(f.insts[site].where), "without" if cls_ == {"plain"} else "after"),
              relpath(f.insts[site].where))
    c("SEQ", {"plain", "reseed"} <= seen, "generate-classes", "the per-block iteration exists both with and without the automatic reseed", "the per-block iteration of generate has only the class(es) %s: the automatic reseed is not decided per block" % sorted(seen))
    # ---- plain init is init_user(system source)
    g_ = mod.fn("tinyjambu_prng_init")
    ex2 = irx.Exec(g_, Handler(), havoc="auto", auto=True)
    ps2 = ex2.run()
    ev = calls(ps2[0]) if len(ps2) == 1 else []
    ck_ob(len(ev) == 1 and ev[0][2] == "tinyjambu_prng_init_user" and ev[0][3][0] == VP and ev[0][3][2] == "0" and ev[0][3][3:] == (repr(Lf.s(("arg", 1))), repr(Lf.s(("n", 2)))),
          "SEQ", g_.name, "plain-init[%s]" % label, "prng_init = init_user(state, system source, NULL, custom, custom_len)", "prng_init is %s" % [(e[2], e[3]) for e in ev], relpath("%s:%d" % (g_.file, g_.line)))
    return n + 2


def _check_be_add(vnew, v, h, cc, cntw, rnd):
    """vnew[i] (i = 0 most significant) must be byte i of (V + H + C + counter) mod 2^256"""
    syms = set()

    smemo = {}
    vidx = {}
    vrev = []

    def suppm(bit):
        r = smemo.get(id(bit))
        if r is not None:
            return r[1]
        out = 0
        for a in bit:
            if a[0] == "v":
                k = (a[1], a[2])
                ix = vidx.get(k)
                if ix is None:
                    ix = vidx[k] = len(vrev)
                    vrev.append(k)
                out |= 1 << ix
            elif a[0] in ("&", "|"):
                ra = smemo.get(id(a))
                if ra is None:
                    sa = 0
                    for part in a[1]:
                        sa |= suppm(part)
                    ra = (a, sa)
                    smemo[id(a)] = ra
                out |= ra[1]
        smemo[id(bit)] = (bit, out)
        return out

    def supp(bit):
        m_ = suppm(bit)
        out = set()
        i_ = 0
        while m_:
            if m_ & 1:
                out.add(vrev[i_])
            m_ >>= 1
            i_ += 1
        return out

    def collect(bit, acc):
        acc |= supp(bit)
    allbits = []
    for group in (v, h, cc):
        for i, byte in enumerate(group):
            for j, b in enumerate(byte):
                acc = set()
                collect(b, acc)
                if len(acc) != 1:
                    return False, "operand byte %d is not a plain symbol" % i
                allbits.append(next(iter(acc)))
    cb = []
    for b in cntw:
        acc = set()
        collect(b, acc)
        cb.append(next(iter(acc)) if len(acc) == 1 else None)
    # support sets (bit masks over the variables)
    own = []
    for i in range(32):
        must = 0
        for grp in (v, h, cc):
            for b in grp[i]:
                must |= suppm(b)
        own.append(must)
    suffix = [0] * 33
    for i in range(31, -1, -1):
        suffix[i] = suffix[i + 1] | own[i]
    cbs = 0
    for x in cb:
        if x:
            if x not in vidx:
                vidx[x] = len(vrev)
                vrev.append(x)
            cbs |= 1 << vidx[x]
    for i in range(32):
        acc = 0
        for b in vnew[i]:
            acc |= suppm(b)
        allowed = suffix[i] | cbs
        if acc & ~allowed:
            bad = [vrev[j] for j in range(len(vrev)) if (acc & ~allowed) >> j & 1]
            return False, "byte %d of the new V depends on %s, which is outside {V,H,C bytes %d..31, counter}" % (i, sorted(bad, key=repr)[:2], i)
        if own[i] & ~acc:
            return False, "byte %d of the new V does not depend on all of V[%d], H[%d], C[%d]" % (i, i, i, i)
    # evaluation
    def val_of(group, asg):
        x = 0
        for byte in group:
            bv = 0
            for j, b in enumerate(byte):
                bv |= (gf2.evaluate(b, asg) or 0) << j
            x = (x << 8) | bv
        return x
    vars_v = [[next(iter(_s(b))) for b in byte] for byte in v]
    vars_h = [[next(iter(_s(b))) for b in byte] for byte in h]
    vars_c = [[next(iter(_s(b))) for b in byte] for byte in cc]
    cases = []
    full = lambda: None
    def asg_from(xv, xh, xc, xn):
        asg = {}
        for grp, x in ((vars_v, xv), (vars_h, xh), (vars_c, xc)):
            for i, byte in enumerate(grp):
                bv = (x >> (8 * (31 - i))) & 0xFF
                for j, var in enumerate(byte):
                    asg[var] = (bv >> j) & 1
        for j, var in enumerate(cb):
            if var:
                asg[var] = (xn >> j) & 1
        return asg
    M = (1 << 256) - 1
    corner = [(M, 0, 0, 1), (M, M, M, 0x7FFFFFFF), (0, 0, 0, 0), (M - 0xFF, 0xFF, 0, 1), (1 << 255, 1 << 255, 0, 0), (0x00FF00FF << 200, M >> 9, 12345, 33), (M, 1, 0, 0), (0, M, 1, 0)]
    for _ in range(12):
        corner.append((rnd.getrandbits(256), rnd.getrandbits(256), rnd.getrandbits(256), rnd.getrandbits(31)))
    for (xv, xh, xc, xn) in corner:
        asg = asg_from(xv, xh, xc, xn)
        got = 0
        memo = {}
        for byte in vnew:
            bv = 0
            for j, b in enumerate(byte):
                e_ = gf2.evaluate(b, asg, memo)
                if e_ is None:
                    return False, "value not evaluable"
                bv |= e_ << j
            got = (got << 8) | bv
        want = (xv + xh + xc + xn) & M
        if got != want:
            return False, "for V=%#x.., H=%#x.., C=%#x.., counter=%d the new V is %#x.. instead of %#x.." % (xv >> 224, xh >> 224, xc >> 224, xn, got >> 224, want >> 224)
    return True, None


def _s(bit):
    out = set()
    for a in bit:
        if a[0] == "v":
            out.add((a[1], a[2]))
    return out


def hmac_premises(ck, mod, rule, label="H/N0"):
    """the HMAC layer as a premise of HKDF / PBKDF2: C12's rules re-run under the caller's rule id"""
    def ob(cond, r_, fn, cons, ok, bad, where=None):
        return ck.ob(cond, rule, fn, cons, ok, bad, where=where)
    return check_hmac(ob, mod, label)


def _check_be_inc(newb, X):
    """newb (4 byte terms, most significant first) == X + 1 as a 32-bit big-endian integer?  X = 4 bytes of plain symbols.
    Decided by the support sets (byte k may depend on bytes k..3 only and must depend on byte k) and by evaluating the
    terms on carry-chain corner values; a mismatch is a concrete counterexample of the term functions."""
    if X is None or any(b is None for b in newb):
        return False, "block number bytes not written / not identified"
    if any(bit is gf2.TOP for by in newb for bit in by):
        raise Broken("tinyjambu_pbkdf2: the incremented block number is not representable in the term domain")
    varsX = [[next(iter(bit))[1:] for bit in by] for by in X]
    memo = {}

    def supp(bit):
        r = memo.get(id(bit))
        if r is not None:
            return r[1]
        out = set()
        for a in bit:
            if a[0] == "v":
                out.add((a[1], a[2]))
            elif a[0] in ("&", "|"):
                for part in a[1]:
                    out |= supp(part)
        memo[id(bit)] = (bit, out)
        return out
    for k in range(4):
        sk = set()
        for bit in newb[k]:
            sk |= supp(bit)
        allowed = {v for j in range(k, 4) for v in varsX[j]}
        if not sk <= allowed:
            return False, "byte %d of the new block number depends on something other than bytes %d..3 of the old one" % (k, k)
        if not set(varsX[k]) <= sk:
            return False, "byte %d of the new block number does not depend on the old byte %d" % (k, k)
    for x in (0, 1, 2, 0xFE, 0xFF, 0x100, 0x1FF, 0xFFFF, 0x10000, 0xFFFFFF, 0x1000000, 0x7FFFFFFF, 0x12345678, 0xFFFFFFFE, 0x00FF00FF, 0xABCDEFFF):
        asg = {}
        for k in range(4):
            bv = (x >> (8 * (3 - k))) & 0xFF
            for j, var in enumerate(varsX[k]):
                asg[var] = (bv >> j) & 1
        got = 0
        em = {}
        for k in range(4):
            bv = 0
            for j, bit in enumerate(newb[k]):
                e_ = gf2.evaluate(bit, asg, em)
                if e_ is None:
                    raise Broken("tinyjambu_pbkdf2: block number term not evaluable")
                bv |= e_ << j
            got = (got << 8) | bv
        if got != ((x + 1) & 0xFFFFFFFF):
            return False, "for block number %#010x the next one is %#010x instead of %#010x" % (x, got, (x + 1) & 0xFFFFFFFF)
    return True, None


def _loop(f, header):
    for l in f.loops:
        if l["header"] == header:
            return l
    raise Broken("loop with header %s not found" % header)


def _scev_affine(t):
    """ScalarEvolution tree -> {symbol: coefficient, 1: constant} or None"""
    k = t.get("k")
    if k == "c":
        v = int(t["v"])
        w = t.get("bits") or t.get("w") or 64
        if v >= 1 << (w - 1):
            v -= 1 << w
        return {1: v}
    if k == "u":
        return {tuple(t["v"]): 1}
    if k == "add":
        out = {}
        for o in t["ops"]:
            a = _scev_affine(o)
            if a is None:
                return None
            for s_, c_ in a.items():
                out[s_] = out.get(s_, 0) + c_
        return {s_: c_ for s_, c_ in out.items() if c_}
    if k == "mul" and len(t["ops"]) == 2:
        a, b = _scev_affine(t["ops"][0]), _scev_affine(t["ops"][1])
        if a is None or b is None:
            return None
        for x, y in ((a, b), (b, a)):
            if set(x) <= {1}:
                return {s_: c_ * x.get(1, 0) for s_, c_ in y.items() if c_ * x.get(1, 0)}
    return None


def _chain_trips_ok(f, header, count_param):
    """three-valued through Broken: the body of the chain loop runs exactly count - 2 times"""
    L = _loop(f, header)
    t = L.get("btc") or {}
    a = _scev_affine(t)
    if a is None and t.get("k") == "add" and len(t["ops"]) == 2:
        # count - umin(k, count): the body runs count - k times once count >= k (and not at all below)
        for x, y in ((t["ops"][0], t["ops"][1]), (t["ops"][1], t["ops"][0])):
            if _scev_affine(x) == {("a", count_param): 1} and y.get("k") == "mul" and len(y["ops"]) == 2:
                for u, v in ((y["ops"][0], y["ops"][1]), (y["ops"][1], y["ops"][0])):
                    if _scev_affine(u) == {1: -1} and v.get("k") == "umin" and len(v["ops"]) == 2:
                        ks = [_scev_affine(o) for o in v["ops"]]
                        consts = [z[1] for z in ks if z is not None and set(z) == {1}]
                        if len(consts) == 1 and {("a", count_param): 1} in ks:
                            return consts[0] == 2
    if a is None:
        raise Broken("tinyjambu_pbkdf2: the trip count of the PRF chain loop is not an affine function ScalarEvolution can give (%s): unrecognised shape" % L.get("btc_text"))
    return a == {("a", count_param): 1, 1: -2}
