"""C05 — every permutation backend equals the specification (27 assembly programs + 3 C functions).
Sub-verdicts: SELECT, WELLFORMED, EFFECT, ABI, SCHED, STEP (and C07-ASM rides on the same facts)."""
import os, re, subprocess
from ..build import Broken, CLANG
from ..build import run as sh
from ..facts import Module, relpath
from .. import asmsrc, asmx, gf2, aff, ir

LEVEL = "translation_validation"

ASM_TARGET_FLAGS = {
    "avr5": (["--target=avr", "-mmcu=atmega2560"], "clang"),
    "armv7m": (["--target=armv7m-none-eabi", "-mthumb"], "clang"),
    "armv6m": (["--target=armv6m-none-eabi", "-mthumb"], "clang"),
    "armv6": (["--target=armv6-none-eabi"], "clang"),
    "riscv64i": (["--target=riscv64", "-march=rv64i", "-mabi=lp64"], "clang"),
    "riscv32i": (["--target=riscv32", "-march=rv32i", "-mabi=ilp32"], "clang"),
    "riscv32e": (["-triple=riscv32", "-mattr=+e"], "llvm-mc"),
}


def analyse_program(ck, build, tid, ks, rel, rules=("EFFECT", "ABI", "SCHED", "STEP", "C07")):
    macro, suffix, macros, fam = asmsrc.TARGETS[tid]
    klen = int(ks)
    nk = klen // 32
    lines = asmsrc.preprocess(build, rel, macros)
    body = [l for l in lines if os.path.basename(l[0]) == os.path.basename(rel)]
    ins, labels = asmx.PARSERS[fam](body)
    entry = "tinyjambu_permutation_%s" % ks
    prog = "%s/%s" % (tid, ks)
    fn = entry
    if entry not in labels:
        ck.bad("R-C05-SELECT", fn, "program-present@%s" % prog,
               "under the macro set of target %s the file defines no %s (%d instructions after preprocessing): its guard does not match the backend macro that tinyjambu-backend-select.h defines"
               % (tid, entry, len(ins)), where=rel)
        return 0, 0, 0
    M = asmx.Machine(fam, ins, labels, entry, klen, windowed=(tid == "xtensa-windowed"), xlen=(64 if tid == "riscv64i" else 32))
    paths = M.run()
    H = M.head_state
    if H is None:
        raise Broken("%s: no loop head reached" % prog)
    W = M.W
    S = [gf2.sym_word("s%d" % i, 32) for i in range(4)]
    K = [gf2.sym_word("k%d" % i, 32) for i in range(nk)]

    def wh(line):
        return "%s:%d" % (rel, line)

    # classify registers at the loop head
    state_regs, key_regs, inv_regs, counter_regs = {}, {}, {}, []
    for r, v in H.regs.items():
        if isinstance(v, asmx.Lin):
            if v.sym == "ROUNDS":
                counter_regs.append(r)
            elif not (isinstance(v.sym, tuple) and v.sym[0] in ("entry", "stack-junk")):
                inv_regs[r] = v
            continue
        if W == 32:
            for i in range(4):
                if v == S[i]:
                    state_regs[r] = (i, 0)
            for i in range(nk):
                if v == K[i]:
                    key_regs[r] = v
        else:
            for i in range(4):
                for b in range(4):
                    if v == S[i][8 * b:8 * b + 8]:
                        state_regs[r] = (i, b)
    nstate = 4 if W == 32 else 16
    if len(state_regs) != nstate:
        raise Broken("%s: %d registers hold state %s at the loop head, expected %d: unrecognised prologue"
                     % (prog, len(state_regs), "words" if W == 32 else "bytes", nstate))
    if not counter_regs:
        raise Broken("%s: no register holds the round counter at the loop head" % prog)
    nobl = 0
    spn = M.abi["sp"]
    # ------------------------------------------------------------------ per path
    seen_exit_j = set()
    back_j = None
    for p in paths:
        branches = [e for e in p.events if e[0] == "branch"]
        # ---- SCHED + C07-ASM: every branch tests the round counter against zero
        tested = []
        okpath = True
        for (_, pc, cond, taken) in branches:
            I = ins[pc]
            cval = None
            if cond[0] == "flagsZ":
                v = cond[2]
                if isinstance(v, asmx.Lin) and v.sym == "ROUNDS":
                    cval = v.off
                kind = cond[1]
            elif cond[0] == "cmp":
                v1, v2 = cond[2], cond[3]
                if isinstance(v1, asmx.Lin) and v1.sym == "ROUNDS" and isinstance(v2, asmx.Lin) and v2.sym == "ZERO":
                    cval = v1.off
                kind = cond[1]
            else:
                v1, imm = cond[2], cond[3]
                if isinstance(v1, asmx.Lin) and v1.sym == "ROUNDS" and imm == 0:
                    cval = v1.off
                kind = cond[1]
            if cval is None:
                okpath = False
                if "C07" in rules:
                    ck.bad("R-C07-ASM", fn, "branch-on-data@%s:%s" % (prog, _anchor(ins, pc)),
                           "conditional branch '%s' does not test the round counter: it depends on %s (secret state data or an unrelated value)"
                           % (I.text, _vdesc(cond)), where=wh(I.line))
                if "SCHED" in rules:
                    ck.bad("R-C05-SCHED", fn, "loop-control@%s:%s" % (prog, _anchor(ins, pc)),
                           "loop control branch '%s' is not a test of the round counter against zero" % I.text, where=wh(I.line))
                continue
            is_zero = (kind == "eq") == taken     # the path assumes counter == 0 here
            tested.append((cval, is_zero, pc))
            if "C07" in rules:
                ck.ok("R-C07-ASM", fn, "branch@%s:%s" % (prog, _anchor(ins, pc)), "branch '%s' tests only the public round counter" % I.text, where=wh(I.line))
                nobl += 1
        if not okpath:
            # round count unknown on this path: SCHED/STEP cannot be stated, EFFECT/ABI still are
            _effect_abi(ck, M, p, ins, fn, prog, rel, nk, rules)
            continue
        j = None
        cnt = [p.regs[r] for r in counter_regs if isinstance(p.regs.get(r), asmx.Lin) and p.regs[r].sym == "ROUNDS"]
        # number of rounds executed on this path = decrements of the counter
        offs = [t[0] for t in tested]
        if "SCHED" in rules:
            want = [-(i + 1) for i in range(len(offs))]
            okseq = offs == want
            last_zero = bool(tested) and tested[-1][1]
            others_nonzero = all(not t[1] for t in tested[:-1])
            if p.end[0] in ("ret", "retw"):
                ok = okseq and last_zero and others_nonzero
                msg = "exit path: counter tested after each round (offsets %s), leaves the loop exactly when the counter reaches zero" % offs
            elif p.end[0] == "backedge":
                ok = okseq and all(not t[1] for t in tested)
                msg = "back edge: counter decremented by one and found non-zero after each of %d rounds" % len(offs)
            else:
                ok = False
                msg = "path ends by %s" % (p.end[0],)
            ck.ob(ok, "R-C05-SCHED", fn, "round-counting@%s:%s" % (prog, _pathid(p)),
                  msg, "round counting is wrong on the path %s: counter offsets tested %s, zero-decisions %s, end=%s (the loop leaves or continues at the wrong count)"
                  % (_pathid(p), offs, [t[1] for t in tested], p.end[0]), where=wh(ins[tested[-1][2]].line if tested else ins[0].line))
            nobl += 1
        j = len(offs)
        # ---- STEP: state after j rounds
        exp = asmx.spec_rounds(S, K, j) if j <= 8 else None
        if exp is None:
            raise Broken("%s: path with %d rounds" % (prog, j))
        if p.end[0] == "backedge":
            back_j = j
            if "STEP" in rules:
                bad = None
                for r, (i, b) in state_regs.items():
                    got = p.regs[r]
                    want_w = exp[i] if W == 32 else exp[i][8 * b:8 * b + 8]
                    if isinstance(got, asmx.Lin) or got != want_w:
                        bad = (r, i, b, got, want_w)
                        break
                ck.ob(bad is None, "R-C05-STEP", fn, "iteration@%s" % prog,
                      "one loop iteration (%d rounds) maps the four state words to the bit-serial specification applied %d times, bit for bit" % (j, 128 * j),
                      "after one loop iteration register %s (state word %d%s) differs from the specification after %d steps: %s"
                      % (bad[0], bad[1], "" if W == 32 else " byte %d" % bad[2], 128 * j, _diff(bad[3], bad[4])) if bad else "",
                      where=wh(ins[M.loop_head].line))
                nobl += 1
                ck.ob((4 * j) % nk == 0, "R-C05-SCHED", fn, "key-period@%s" % prog,
                      "loop body of %d rounds consumes a whole number of key periods (%d words)" % (j, nk),
                      "loop body of %d rounds does not realign the key schedule (4*%d mod %d != 0)" % (j, j, nk), where=wh(ins[M.loop_head].line))
                # RV64: the registers are 64 bits wide; the summary of one iteration starts from sign-extended words (lw), so the
                # upper halves must be sign extensions again when the loop comes round
                stale = [r for r in sorted(set(state_regs) | set(key_regs)) if r in getattr(p, "hi", {})]
                if stale:
                    # harmless as long as nothing in the program looks at an upper half (only a full-width right shift or a 64-bit store of data can);
                    # otherwise the iteration summary, which starts from sign-extended words, does not describe the second iteration
                    wide = any(I_.op == "shr" and not (len(I_.a) > 3 and I_.a[3]) for I_ in ins) \
                        or any(e_[0] == "store" and e_[3] == 8 and not isinstance(e_[4], asmx.Lin) for q_ in paths for e_ in q_.events)
                    if wide and bad is None:
                        raise Broken("%s: bits 32..63 of %s are not sign extensions at the back edge and the program contains full-width right shifts / 64-bit stores: "
                                     "the per-iteration summary does not cover the following iterations" % (prog, stale))
                    if not wide:
                        ck.ok("R-C05-STEP", fn, "upper-halves-unobserved@%s" % prog, "upper register halves of %s differ from the sign extension at the back edge, but no instruction of the program reads an upper half" % stale,
                              where=wh(ins[M.loop_head].line))
                # invariants at the back edge
                for r, v in list(key_regs.items()) + list(inv_regs.items()):
                    if p.regs.get(r) != v and (r in p.reads_head or r in key_regs or r == spn):
                        ck.bad("R-C05-STEP", fn, "loop-invariant:%s@%s" % (r, prog),
                               "register %s (%s at the loop head) is changed by the loop body but read by it: the per-iteration argument does not hold" % (r, _short(v)),
                               where=wh(ins[M.loop_head].line))
                # nothing else live into the loop
                allowed = set(state_regs) | set(key_regs) | set(inv_regs) | set(counter_regs) | {spn, "r30", "r31"}
                extra = [r for r in p.reads_head if r not in allowed]
                ck.ob(not extra, "R-C05-STEP", fn, "live-in@%s" % prog, "only state, key, base, counter and stack registers are live into the loop",
                      "registers %s are read in the loop before being written: hidden loop-carried state" % sorted(extra), where=wh(ins[M.loop_head].line))
                nobl += 2
            continue
        if p.end[0] not in ("ret", "retw"):
            ck.bad("R-C05-ABI", fn, "path-end@%s:%s" % (prog, _pathid(p)), "a path does not end in a return (%s)" % (p.end,), where=wh(ins[-1].line))
            continue
        seen_exit_j.add(j)
        # ---- STEP at exit: memory holds spec after j rounds
        if "STEP" in rules:
            bad = None
            for i in range(4):
                if W == 32:
                    got = p.mem.get(("STATE", 4 * i, 4))
                    if got is None or isinstance(got, asmx.Lin) or got != exp[i]:
                        bad = ("word %d" % i, got, exp[i])
                        break
                else:
                    for b in range(4):
                        got = p.mem.get(("STATE", 4 * i + b, 1))
                        if got is None or isinstance(got, asmx.Lin) or got != exp[i][8 * b:8 * b + 8]:
                            bad = ("word %d byte %d" % (i, b), got, exp[i][8 * b:8 * b + 8])
                            break
                    if bad:
                        break
            ck.ob(bad is None, "R-C05-STEP", fn, "exit-after-%d-rounds@%s" % (j, prog),
                  "leaving after %d rounds stores exactly the specification's state after %d steps into the four state words" % (j, 128 * j),
                  "leaving after %d rounds, state %s stored to memory differs from the specification: %s" % (j, bad[0], _diff(bad[1], bad[2])) if bad else "",
                  where=wh(ins[M.loop_head].line))
            nobl += 1
        nobl += _effect_abi(ck, M, p, ins, fn, prog, rel, nk, rules)
    # all exits seen: 1..J
    if "SCHED" in rules and back_j:
        ck.ob(seen_exit_j == set(range(1, back_j + 1)), "R-C05-SCHED", fn, "exits@%s" % prog,
              "the loop can be left after each of its %d round segments" % back_j,
              "exit points exist after rounds %s of the loop body, expected after each of 1..%d" % (sorted(seen_exit_j), back_j), where=wh(ins[M.loop_head].line))
        nobl += 1
    return nobl, len(ins), len(paths)


def _effect_abi(ck, M, p, ins, fn, prog, rel, nk, rules):
    nobl = 0
    spn = M.abi["sp"]

    def wh(line):
        return "%s:%d" % (rel, line)
    if p.end[0] not in ("ret", "retw"):
        return 0
    # ---- EFFECT
    if "EFFECT" in rules:
        for e in p.events:
            if e[0] == "store":
                _, pc, ad, w, v = e
                I = ins[pc]
                if ad is None:
                    ck.bad("R-C05-EFFECT", fn, "store-unknown@%s:%s" % (prog, _anchor(ins, pc)), "store '%s' to an address that is not state base or stack + constant" % I.text, where=wh(I.line))
                elif ad.sym == "STATE":
                    ok = 0 <= ad.off and ad.off + w <= 16 and (w == 1 or ad.off % 4 == 0)
                    ck.ob(ok, "R-C05-EFFECT", fn, "store-state@%s:%s" % (prog, _anchor(ins, pc)), "store to state word at offset %d" % ad.off,
                          "store '%s' writes offset %d of the state structure: outside the four state words (key words / beyond are modified)" % (I.text, ad.off), where=wh(I.line))
                    nobl += 1
                elif ad.sym == "SP":
                    ok = ad.off < 0 and ad.off >= p.sp_min
                    ck.ob(ok, "R-C05-EFFECT", fn, "store-stack@%s:%s" % (prog, _anchor(ins, pc)), "store into the function's own frame (SP%+d)" % ad.off,
                          "store '%s' writes SP%+d, outside the allocated frame [%d,0)" % (I.text, ad.off, p.sp_min), where=wh(I.line))
                    nobl += 1
            elif e[0] == "load":
                _, pc, ad, w = e
                I = ins[pc]
                if ad is None:
                    ck.bad("R-C05-EFFECT", fn, "load-unknown@%s:%s" % (prog, _anchor(ins, pc)), "load '%s' from an address that is not state base or stack + constant (possibly data dependent)" % I.text, where=wh(I.line))
                    if "C07" in rules:
                        ck.bad("R-C07-ASM", fn, "address@%s:%s" % (prog, _anchor(ins, pc)), "memory address of '%s' is not base + constant" % I.text, where=wh(I.line))
                elif ad.sym == "STATE":
                    ok = 0 <= ad.off and ad.off + w <= 16 + 4 * nk
                    ck.ob(ok, "R-C05-EFFECT", fn, "load-state@%s:%s" % (prog, _anchor(ins, pc)), "load inside the state structure (offset %d)" % ad.off,
                          "load '%s' reads offset %d, outside the %d-byte state structure" % (I.text, ad.off, 16 + 4 * nk), where=wh(I.line))
                    nobl += 1
        for (msg, line) in p.problems:
            ck.bad("R-C05-EFFECT", fn, "problem@%s:%d" % (prog, line), msg, where=wh(line))
    # ---- ABI
    if "ABI" in rules:
        sp = p.regs.get(spn)
        if p.end[0] == "retw":
            ck.ob(any(e[0] == "entry" for e in p.events), "R-C05-ABI", fn, "windowed-return@%s:%s" % (prog, _pathid(p)),
                  "retw.n pairs with entry (windowed ABI: registers and stack restored by the window)", "retw.n without entry", where=wh(ins[-1].line))
            nobl += 1
        else:
            ck.ob(isinstance(sp, asmx.Lin) and sp.sym == "SP" and sp.off == 0, "R-C05-ABI", fn, "stack-balanced@%s:%s" % (prog, _pathid(p)),
                  "stack pointer restored at return", "stack pointer is %s at return, not its entry value: stack unbalanced" % (sp,), where=wh(ins[-1].line))
            ra = p.end[1]
            want_ra = asmx.Lin(("entry", M.abi["ra"])) if M.abi["ra"] else asmx.Lin(("entry", "retaddr"))
            ck.ob(ra == want_ra, "R-C05-ABI", fn, "return-address@%s:%s" % (prog, _pathid(p)), "returns through the caller's return address",
                  "returns through %s instead of the caller's return address" % (_short(ra),), where=wh(ins[-1].line))
            nobl += 2
            for r in M.abi["callee"] + M.abi.get("fixed", []):
                if r not in p.regs:
                    continue
                v = p.regs[r]
                ok = v == asmx.Lin(("entry", r))
                if r in p.written or not ok:
                    ck.ob(ok, "R-C05-ABI", fn, "callee-saved:%s@%s:%s" % (r, prog, _pathid(p)), "callee-saved register %s restored before return" % r,
                          "callee-saved register %s is not restored at return (holds %s)" % (r, _short(v)), where=wh(ins[-1].line))
                    nobl += 1
    return nobl


def _anchor(ins, pc):
    I = ins[pc]
    n = sum(1 for J in ins[:pc] if J.op == I.op)
    return "%s%d" % (I.op, n)


def _pathid(p):
    return "".join("T" if t else "F" for (_, t) in p.trace) or "straight"


def _short(v):
    if isinstance(v, asmx.Lin):
        return repr(v)
    if v is None:
        return "nothing"
    return "word[%s ...]" % gf2.describe(v[0], 3)


def _vdesc(cond):
    vs = [x for x in cond[2:] if not isinstance(x, (int, str))]
    return ", ".join(_short(v) for v in vs)


def _diff(got, want):
    if got is None:
        return "nothing stored"
    if isinstance(got, asmx.Lin):
        return "holds %r, not a state word" % (got,)
    n = 0
    first = None
    for i, (g, w) in enumerate(zip(got, want)):
        if g != w:
            n += 1
            if first is None:
                first = i
    return "%d of %d bits differ; bit %d is %s, specification says %s" % (n, len(want), first, gf2.describe(got[first], 4), gf2.describe(want[first], 4))


# ---------------------------------------------------------------------------

def select_rule(ck, build):
    """R-C05-SELECT: under every target macro set exactly one backend macro is defined, and exactly three
    sources guarded by it define tinyjambu_permutation_{128,192,256}"""
    hdr = os.path.join(build.repo, "src/backend/tinyjambu-backend-select.h")
    n = 0
    allmacros = ["TINYJAMBU_BACKEND_" + x for x in ("C32", "AVR5", "ARMV7M", "ARMV6M", "ARMV6", "RISCV64I", "RISCV32E", "RISCV32I", "XTENSA")]
    files = asmsrc.asm_files(build)
    cfiles = ["src/backend/tinyjambu-%s-c32.c" % ks for ks in asmsrc.KEYSIZES]
    from concurrent.futures import ThreadPoolExecutor
    pre = {}

    def _pp(args):
        tid, rel = args
        return (tid, rel), asmsrc.preprocess(build, rel, asmsrc.TARGETS[tid][2])
    asmsrc.stub_include_dir(build)
    with ThreadPoolExecutor(max_workers=16) as ex:
        for k, v in ex.map(_pp, [(t, r) for t in asmsrc.TARGETS for r in files]):
            pre[k] = v
    for tid, (macro, suffix, macros, fam) in asmsrc.TARGETS.items():
        p = sh([CLANG, "-E", "-dM", "-undef", "-x", "c"] + macros + [hdr])
        if p.returncode != 0:
            raise Broken("cannot preprocess tinyjambu-backend-select.h for %s" % tid)
        defined = [m for m in allmacros if re.search(r"#define\s+%s\b" % m, p.stdout)]
        n += 1
        ck.ob(defined == [macro], "R-C05-SELECT", "(select.h)", "selected@%s" % tid,
              "target macro set %s selects exactly %s" % (tid, macro), "target macro set %s selects %s, expected exactly [%s]" % (tid, defined, macro),
              where="src/backend/tinyjambu-backend-select.h")
        # which units define the three entry points under this macro set
        defs = {ks: [] for ks in asmsrc.KEYSIZES}
        for rel in files + cfiles:
            if rel.endswith(".S"):
                lines = pre[(tid, rel)]
                text = "\n".join(t for (_, _, t) in lines if True)
                for ks in asmsrc.KEYSIZES:
                    if re.search(r"^tinyjambu_permutation_%s:" % ks, text, re.M):
                        defs[ks].append(rel)
            else:
                q = sh([CLANG, "-E", "-undef", "-x", "c", "-I" + os.path.join(build.repo, "src"), "-I" + os.path.join(build.repo, "src/backend"),
                        "-I" + asmsrc.stub_include_dir(build), "-D__STDC_VERSION__=199901L"] + macros + [os.path.join(build.repo, rel)])
                # C backends include <stdint.h> etc.; only the function definition matters, errors from -undef system headers are irrelevant
                for ks in asmsrc.KEYSIZES:
                    if re.search(r"void\s+tinyjambu_permutation_%s\s*\([^;{]*\)\s*\{" % ks, q.stdout):
                        defs[ks].append(rel)
        for ks in asmsrc.KEYSIZES:
            n += 1
            want = "src/backend/tinyjambu-%s-%s%s" % (ks, "asm-" if fam != "c" else "", suffix) + (".S" if fam != "c" else ".c")
            ck.ob(defs[ks] == [want], "R-C05-SELECT", "tinyjambu_permutation_" + ks, "defined-once@%s" % tid,
                  "under %s exactly one unit (%s) defines tinyjambu_permutation_%s" % (tid, os.path.basename(want), ks),
                  "under target %s tinyjambu_permutation_%s is defined by %s, expected exactly [%s]: link error or wrong code on that platform" % (tid, ks, [os.path.basename(d) for d in defs[ks]], os.path.basename(want)),
                  where=want)
    return n


def wellformed_rule(ck, build, progs, counts):
    """R-C05-WELLFORMED: each file assembles for its target; instruction count of the disassembly equals the parsed count"""
    n = 0
    outdir = os.path.join(build.dir, "asm-objs")
    os.makedirs(outdir, exist_ok=True)
    for tid, ks, rel in progs:
        suffix = asmsrc.TARGETS[tid][1]
        if suffix not in ASM_TARGET_FLAGS:
            ck.note("no LLVM-14 assembler for %s: %s analysed from text only" % (suffix, rel))
            continue
        if tid.startswith("xtensa"):
            continue
        flags, tool = ASM_TARGET_FLAGS[suffix]
        obj = os.path.join(outdir, "%s-%s.o" % (tid, ks))
        src = os.path.join(build.repo, rel)
        inc = ["-I" + os.path.join(build.repo, "src/backend"), "-I" + os.path.join(build.repo, "src"), "-I" + asmsrc.stub_include_dir(build)]
        if tool == "clang":
            extra = ["-D__AVR_ARCH__=5"] if suffix == "avr5" else []
            p = sh([CLANG] + flags + extra + inc + ["-c", "-x", "assembler-with-cpp", src, "-o", obj])
        else:
            pp = sh([CLANG, "-E", "-x", "assembler-with-cpp", "-undef"] + inc + asmsrc.TARGETS[tid][2] + [src])
            tmp = os.path.join(outdir, "%s-%s.s" % (tid, ks))
            with open(tmp, "w") as f:
                f.write("\n".join(l for l in pp.stdout.splitlines() if not l.startswith("#")))
            p = sh(["llvm-mc-14"] + flags + ["-filetype=obj", tmp, "-o", obj])
        n += 1
        if p.returncode != 0:
            ck.bad("R-C05-WELLFORMED", "tinyjambu_permutation_" + ks, "assembles@%s/%s" % (tid, ks),
                   "file does not assemble for its target: %s" % p.stderr.strip().splitlines()[:2], where=rel)
            continue
        cnt = 0
        if suffix == "avr5":
            # LLVM 14's AVR disassembler does not decode push/movw/ldd...; every mnemonic the front end accepts is a
            # 2-byte instruction, so the count is the .text size / 2
            hd = sh(["llvm-objdump-14", "-h", obj])
            for line in hd.stdout.splitlines():
                m = re.match(r"^\s*\d+\s+\.text\s+([0-9a-f]+)", line)
                if m:
                    cnt = int(m.group(1), 16) // 2
        else:
            d = sh(["llvm-objdump-14", "-d", "--no-show-raw-insn", obj])
            for line in d.stdout.splitlines():
                if re.match(r"^\s+[0-9a-f]+:\s+\S", line):
                    cnt += 1
        parsed = counts.get((tid, ks))
        ck.ob(parsed is not None and cnt == parsed, "R-C05-WELLFORMED", "tinyjambu_permutation_" + ks, "assembles@%s/%s" % (tid, ks),
              "assembles for its target; disassembly has the %d instructions the front end parsed" % cnt,
              "assembler sees %d instructions, the front end parsed %s" % (cnt, parsed), where=rel)
    return n


# ---------------------------------------------------------------------------
# C backends on N0 IR

def c_backend_rule(ck, mod, ks, label):
    """C permutation backends: the same per-iteration argument as for the assembly programs, on the N0 IR with the
    path-forking symbolic evaluator (irx).  For every path from the loop head:
      * a path that returns pins the remaining round count to a constant j (by its branch/switch conditions) and stores
        exactly spec^j(state) into the four state words - for j = 0 the state is unchanged;
      * a path that takes the back edge decreases the counter by J > 0, carries spec^J(state), and 4J is a multiple of the
        key length in words (the key schedule is realigned).
    By induction on the round count the function equals the specification for every count, whatever the loop shape."""
    from .. import irx
    fname = "tinyjambu_permutation_%s" % ks
    f = mod.fn(fname)
    nk = int(ks) // 32
    where = relpath("%s:%d" % (f.file, f.line))
    st = ("arg", 0)

    def handler(ex, p, I, callee, args):
        raise Broken("%s calls %s: unrecognised shape" % (fname, callee))
    # "changes nothing but the four state words" and "maps every state under every key to the specified one": the function is a function of
    # its arguments - it touches no global that anything in the library may write (a cache of an earlier result ...).  Complete: every
    # operand of every instruction is looked at
    from . import hashlib as _hl
    wg_ = _hl.writable_globals_of(mod, lambda n_: n_ == fname) & _hl.written_globals(mod)
    ck.ob(not wg_, "R-C05-EFFECT", fname, "no-hidden-state@c32/%s" % ks, "the C backend touches no writable global: its result depends on the state and key it is handed only",
          "the C backend reads or writes writable global data (%s): its result depends on earlier calls and it changes more than the four state words" % sorted(wg_)[:3], where=where)
    # the state is whatever object the caller has: its type (words of 32 bits; the public wrappers 64-bit aligned) promises no more than
    # 8-byte alignment.  An access that claims more (an aligned 128-bit move of the four state words) does not map every state to the
    # specified one - for a state at 8 mod 16 it is undefined and faults
    over = [I for I in f.insts if I.op in ("load", "store") and (I.get("align") or 1) > 8 and ir.ptr_base(f, I.ops[0] if I.op == "load" else I.ops[1])[0] == ("a", 0)]
    for I in over:
        ck.bad("R-C05-EFFECT", fname, "state-access-alignment#%s[%s]" % (I.id, label), "%s of %d bytes of the state claims %d-byte alignment; the state's type guarantees at most 8: states the caller "
               "may legitimately pass (at an address that is 8 modulo 16) are not mapped to the specified state but fault" % (I.op, I.get("size"), I.get("align")), where=relpath(I.where))
    if over:
        return 1
    ex = irx.Exec(f, handler)
    paths = ex.run()
    if len(f.loops) != 1:
        raise Broken("%s: expected one loop, found %d: unrecognised shape" % (fname, len(f.loops)))
    hdr = f.loops[0]["header"]
    K = [gf2.sym_word(("mem", st, 16 + 4 * i), 8) + gf2.sym_word(("mem", st, 16 + 4 * i + 1), 8) + gf2.sym_word(("mem", st, 16 + 4 * i + 2), 8) + gf2.sym_word(("mem", st, 16 + 4 * i + 3), 8) for i in range(nk)]
    S0 = [gf2.sym_word(("mem", st, 4 * i), 8) + gf2.sym_word(("mem", st, 4 * i + 1), 8) + gf2.sym_word(("mem", st, 4 * i + 2), 8) + gf2.sym_word(("mem", st, 4 * i + 3), 8) for i in range(4)]
    # loop-carried values: which header phis hold the state words / the counter / a key position
    sphi, cphi = {}, None
    pre = [p for p in paths if p.end[0] == "loop-entry"]
    if len(pre) != 1:
        raise Broken("%s: %d paths reach the loop" % (fname, len(pre)))
    others = []
    for iid in f.blocks[hdr].insts:
        I = f.insts[iid]
        if I.op != "phi":
            break
        ini = pre[0].env.get(("init", I.id))
        if irx.is_word(ini):
            for i in range(4):
                if ini == S0[i]:
                    sphi[I.id] = i
        else:
            others.append((I, ini))
    n = 0
    mem_state = len(sphi) == 0      # state kept in memory instead of SSA values
    back0 = [p for p in paths if p.end[0] == "backedge"]
    down = [I for I, ini in others if ini == irx.Lf.s(("n", 1))]

    def up_form(I):
        """an up-counting counter: on every back edge the path carries `counter + t < B` (B: the round count, or a quotient of it) and hands on
        counter + J.  t = 0: tested at the head before the rounds (`for (i = 0; i < B; ++i)`); t = J: tested at the bottom after them
        (`do {..} while (++i < B)`).  -> (B, t, J) or None"""
        hd_ = ("hd", I.id)
        got = None
        for p in back0:
            bk = p.env.get(("back", I.id))
            if bk is None or irx.is_word(bk):
                return None
            J_ = bk.add(irx.Lf.s(hd_), -1).const()
            tests = [cc for cc in p.conds if cc[0] == "ult" and cc[2] and not irx.is_word(cc[1]) and cc[1].get(hd_) == 1]
            if not J_ or J_ < 1 or not tests:
                return None
            d_ = irx.Lf(tests[-1][1])
            del d_[hd_]
            t_ = d_.pop(1, 0)
            B_ = irx.Lf({k_: -v_ for k_, v_ in d_.items()})
            if not B_ or any(v_ != 1 for v_ in B_.values()) or any(isinstance(k_, tuple) and k_[0] == "hd" for k_ in B_) or t_ not in (0, J_):
                return None
            if got is not None and got != (repr(B_), t_, J_):
                return None
            got = (repr(B_), t_, J_)
            Bv = B_
        return (Bv, got[1], got[2]) if got else None
    up = [(I, up_form(I)) for I, ini in others if ini is not None and not irx.is_word(ini) and ini.const() == 0 and back0]
    up = [(I, u_) for I, u_ in up if u_ is not None]
    counting_up = False
    upB, upT, upJ, upScale = None, 0, 1, 1
    if down:
        cphi = down[0]
    elif len(up) == 1:
        # `for (done = 0; done < B; ++done)`: the counter runs up to the bound in steps that never pass it, so it equals the bound when the
        # head test fails; `do {..} while (++done < B)`: entered only with B >= 1 (checked), so counter < B holds at the head and the first
        # failing test after t rounds says counter + t == B
        cphi = up[0][0]
        upB, upT, upJ = up[0][1]
        counting_up = True
        # rounds per count: 1 when the bound is the round count, c when it is rounds / c
        bk_ = [k_ for k_ in upB if k_ != 1]
        if bk_ == [("n", 1)]:
            upScale = 1
        else:
            qs_ = [(sa_, cb_) for p_ in back0 for (q_, r_, sa_, cb_) in p_.divs.values() if [q_] == bk_]
            if not qs_ or qs_[0][0] != irx.Lf.s(("n", 1)) or not 1 <= qs_[0][1] <= 8:
                raise Broken("%s: the round loop counts up to %s, which is neither the round count nor a quotient of it: unrecognised shape" % (fname, upB))
            upScale = qs_[0][1]
    if (len(sphi) not in (0, 4)) or cphi is None:
        raise Broken("%s: cannot identify the loop-carried state words / round counter: unrecognised shape" % fname)
    aux = [(I, ini) for I, ini in others if I is not cphi]
    def keypos(v):
        """key position (in words) denoted by a carried integer index or by a carried pointer into the key words of the state"""
        if v is None or irx.is_word(v):
            return None
        if v.const() is not None:
            return v.const()
        ob_, of_ = v.base()
        if ob_ == st and of_.const() is not None and of_.const() >= 16 and (of_.const() - 16) % 4 == 0:
            return (of_.const() - 16) // 4
        return None
    if len(aux) > 1 or any(keypos(ini) is None for _I, ini in aux):
        raise Broken("%s: the loop carries further values besides the state words and the round counter (%s): unrecognised shape" % (fname, [repr(x[1]) for x in aux]))
    ck.ob(not [e for e in pre[0].events if e[0] == "out"], "R-C05-EFFECT", fname, "no-store-before-loop@c32/%s" % ks, "nothing is stored before the loop", "stores before the loop", where=where)
    S = [gf2.sym_word(("hdw", byidx), 32) for byidx in sorted(sphi, key=lambda k: sphi[k])] if not mem_state else None
    rem = ("hd", cphi.id)
    xeq = {hdr: (cphi.id, upB)} if (counting_up and upT == 0) else None
    if counting_up and upT:
        lo_, _hi, ex_ = ex._range(pre[0], upB)
        if not (lo_ >= 1 or 0 in ex_):
            raise Broken("%s: a bottom-tested round loop is entered without a test that the count is not 0: unrecognised shape" % fname)
    # a loop-carried key position (index of the next key word, wrapping at the key length): its finite orbit is enumerated, the iteration
    # is evaluated once per value with the key schedule of the specification started at that word
    runs = []
    seenj_pre = set()
    def early_returns(exq, allp):
        # a return in front of the loop (`if (rounds == 0) return;`): no rounds, the state must be what it was
        for p in allp:
            if p.end[0] == "ret" and p.blocks and p.blocks[0] == 0:
                outs0 = {(e[1], e[2]): list(e[3]) for e in p.events if e[0] == "out"}
                same = all(k_[0] == st and 0 <= k_[1] < 16 and v_ == gf2.sym_word(("mem", st, k_[1]), 8) for k_, v_ in outs0.items())
                okz = exq.subst(p, irx.Lf.s(("n", 1))).const() == 0
                ck.ob(okz and same, "R-C05-STEP", fname, "return-before-loop@c32/%s" % ks, "the return in front of the loop is taken for 0 rounds only and leaves the state as it was",
                      "a return in front of the round loop is taken with rounds = %s / changes the state" % exq.subst(p, irx.Lf.s(("n", 1))), where=where)
                if okz and same:
                    seenj_pre.add(0)
    ex_v = ex
    incomplete = False
    nviol0 = len(ck.violations)
    if aux:
        early_returns(ex, paths)
        A_, a0 = aux[0][0], aux[0][1]
        todo, orbit = [a0], []
        while todo:
            v = todo.pop(0)
            if repr(v) in orbit:
                continue
            if len(orbit) >= 12:
                incomplete = True       # (values found so far are reachable; what they refute stays refuted)
                break
            orbit.append(repr(v))
            ex_v = irx.Exec(f, handler, head_consts={A_.id: v}, exit_eq=xeq)
            ps_v = [p for p in ex_v.run() if p.blocks and p.blocks[0] == hdr]
            runs.append((keypos(v), ps_v))
            for p in ps_v:
                if p.end[0] == "backedge":
                    b_ = p.env.get(("back", A_.id))
                    b_ = ex_v.subst(p, b_) if (b_ is not None and not irx.is_word(b_)) else None
                    if keypos(b_) is None:
                        raise Broken("%s: the carried key position does not come back as a position in the key words (%s): unrecognised shape" % (fname, b_))
                    todo.append(b_)
    elif counting_up:
        ex_v = irx.Exec(f, handler, exit_eq=xeq)
        allp = ex_v.run()
        runs.append((0, [p for p in allp if p.blocks and p.blocks[0] == hdr]))
        early_returns(ex_v, allp)
    else:
        early_returns(ex, paths)
        runs.append((0, [p for p in paths if p.end[0] != "loop-entry" and not (p.end[0] == "ret" and p.blocks and p.blocks[0] == 0)]))
    seenj = set(seenj_pre)
    for koff, rpaths in runs:
      tagk = "" if not aux else "{key position %d}" % koff
      for p in rpaths:
        if p.end[0] == "loop-entry":
            continue
        # state at the head of this path
        if mem_state:
            raise Broken("%s keeps the state in memory across iterations: unsupported shape" % fname)
        outs = {}
        for e in p.events:
            if e[0] == "out":
                outs[(e[1], e[2])] = list(e[3])
            if e[0] in ("store-unknown", "store-var", "out-sym"):
                ck.bad("R-C05-EFFECT", fname, "store-unknown@c32/%s" % ks, "store through a pointer that is not state + constant", where=where)
        if p.end[0] == "backedge":
            back = p.env.get(("back", cphi.id))
            d = back.add(irx.Lf.s(rem), -1).const() if not irx.is_word(back) else None
            J = (d * upScale if counting_up else -d) if d is not None else None
            ck.ob(J is not None and J > 0, "R-C05-SCHED", fname, "iteration-decrement@c32/%s%s" % (ks, tagk), "one loop iteration moves the round counter by %s towards its end" % J,
                  "the round counter is not moved by a positive constant per iteration (%s)" % (back,), where=where)
            if not J or J > 8:
                continue
            exp = asmx.spec_rounds(S, K, J, key_offset_words=koff)
            bad = None
            for pid, i in sphi.items():
                got = p.env.get(("back", pid))
                if irx.is_word(got) and any(b_ is gf2.TOP for b_ in got):
                    # (a key word fetched through a table the executor does not read, a data-dependent shift ...): no verdict on such values
                    raise Broken("%s: state word %d after one loop iteration is not representable in the term domain (a load the executor cannot resolve - a key word selected through "
                                 "a table, ...): this shape is not analysed" % (fname, i))
                if not irx.is_word(got) or got != exp[i]:
                    bad = (i, got)
            ck.ob(bad is None, "R-C05-STEP", fname, "iteration@c32/%s%s" % (ks, tagk), "one loop iteration (%d rounds) carries exactly the bit-serial specification applied %d times" % (J, 128 * J),
                  "state word %s after one loop iteration differs from the specification: %s" % (bad[0] if bad else "", _diff(bad[1], exp[bad[0]]) if bad and irx.is_word(bad[1]) else "not a data word"), where=where)
            if aux:
                kb = p.env.get(("back", aux[0][0].id))
                kbc = keypos(kb)
                ck.ob(kbc == (koff + 4 * J) % nk, "R-C05-SCHED", fname, "key-position@c32/%s%s" % (ks, tagk), "the carried key position moves on by %d words modulo %d" % (4 * J, nk),
                      "after %d round(s) from key position %d the carried key position is %s, the schedule continues at %d" % (J, koff, kbc, (koff + 4 * J) % nk), where=where)
            else:
                ck.ob((4 * J) % nk == 0, "R-C05-SCHED", fname, "key-period@c32/%s" % ks, "loop body of %d rounds realigns the %d-word key schedule" % (J, nk),
                      "loop body of %d rounds does not realign the %d-word key schedule: later iterations use the wrong key words" % (J, nk), where=where)
            ck.ob(not outs, "R-C05-EFFECT", fname, "no-store-in-loop@c32/%s%s" % (ks, tagk), "the loop body stores nothing", "the loop body stores to %s" % sorted(outs)[:3], where=where)
            n += 4
            continue
        if p.end[0] != "ret":
            raise Broken("%s: path ends by %s" % (fname, p.end[0]))
        if counting_up and upT == 0:
            # the head test failed with the counter at its bound (exit value established above): what is left is the round count minus the
            # rounds the full iterations did - 0 for `i < rounds`, rounds % J for `i < rounds / J` (then fixed by the path's test of it)
            if not any(cc[0] == "ult" and not cc[2] and cc[1] == irx.Lf({rem: 1}).add(upB, -1) for cc in p.conds):
                raise Broken("%s: a path leaves the up-counting loop other than through its head test: unrecognised shape" % fname)
            left_ = ex_v.subst(p, ex_v._divnorm(p, irx.Lf.s(("n", 1)).add(irx.Lf({k_: v_ * upScale for k_, v_ in upB.items()}), -1)))
            j = left_.const()
            if j is None:
                lo_, hi_, ex_ = ex_v._range(p, left_) if (left_ and not left_.get(1)) else (0, None, set())
                cand = [v_ for v_ in range(lo_, min(hi_, lo_ + 16) + 1) if v_ not in ex_] if hi_ is not None else []
                j = cand[0] if (len(cand) == 1 and hi_ <= lo_ + 16) else None
        elif counting_up:
            # bottom-tested: the first failing test `counter + t < B` (with counter < B at the head) says t rounds were left at the head
            fails = [cc for cc in p.conds if cc[0] == "ult" and not cc[2] and not irx.is_word(cc[1]) and cc[1].get(rem) == 1]
            j = None
            if fails:
                d_ = irx.Lf(fails[0][1])
                del d_[rem]
                t_ = d_.pop(1, 0)
                if irx.Lf({k_: -v_ for k_, v_ in d_.items()}) == upB and t_ >= 1 and upScale == 1:
                    j = t_
        else:
            j = p.eqs.get(rem)
        if j is None:
            ck.bad("R-C05-SCHED", fname, "exit-count@c32/%s:%s" % (ks, len(seenj)),
                   "a path leaves the function without its conditions fixing the remaining round count (conditions: %s): for some counts the wrong number of rounds runs"
                   % [(c[0], repr(c[1]), c[2]) for c in p.conds], where=where)
            continue
        seenj.add(j)
        exp = asmx.spec_rounds(S, K, j, key_offset_words=koff) if j else S
        bad = None
        for i in range(4):
            bits = []
            for bb in range(4):
                cell = outs.get((st, 4 * i + bb))
                bits.extend(cell if cell is not None else [None] * 8)
            if any(cell is not None and any(b_ is gf2.TOP for b_ in cell) for cell in [outs.get((st, 4 * i + bb)) for bb in range(4)]):
                raise Broken("%s: state word %d stored on an exit path is not representable in the term domain (a load the executor cannot resolve): this shape is not analysed" % (fname, i))
            if bits != exp[i]:
                # untouched memory is fine only if the expected value is the initial memory word (never the case after the loads)
                bad = (i, bits)
                break
        extra = [k for k in outs if k[0] != st or not (0 <= k[1] < 16)]
        ck.ob(bad is None, "R-C05-STEP", fname, "exit-with-%d-rounds-left@c32/%s%s" % (j, ks, tagk),
              "with %d round(s) left at the loop head the function stores exactly the specification applied %d more times" % (j, 128 * j),
              "with %d round(s) left at the loop head, state word %s stored differs from the specification after %d more rounds: %s"
              % (j, bad[0] if bad else "", j, _diff(bad[1], exp[bad[0]]) if bad and all(x is not None for x in bad[1]) else "word not stored"), where=where)
        ck.ob(not extra, "R-C05-EFFECT", fname, "stores-only-state@c32/%s:%d%s" % (ks, j, tagk), "only the four state words are stored", "stores outside the four state words: %s" % extra[:3], where=where)
        n += 2
    if incomplete and len(ck.violations) == nviol0:
        raise Broken("%s: the carried key position takes more than 12 values: not enumerated" % fname)
    ck.ob(0 in seenj, "R-C05-SCHED", fname, "exit-classes@c32/%s" % ks, "the function can leave with 0 rounds left (exit classes: %s)" % sorted(seenj),
          "no exit for 'no rounds left' (exit classes %s)" % sorted(seenj), where=where)
    return n + 2


def run(ck, build):
    ck.rule("R-C05-SELECT", "for every target macro set of tinyjambu-backend-select.h exactly one backend macro is defined and exactly one unit defines each tinyjambu_permutation_N")
    ck.rule("R-C05-WELLFORMED", "each assembly file assembles for its target (7 of 8 ISAs have an LLVM-14 assembler) and the disassembled instruction count equals the parsed count")
    ck.rule("R-C05-EFFECT", "every store targets state+{0,4,8,12} or the function's own frame; every load reads inside the state structure or the frame (addresses are base + constant)")
    ck.rule("R-C05-ABI", "on every path to every return: stack pointer restored, return through the caller's return address, every written callee-saved register restored (per-ISA ABI table; both Xtensa ABIs)")
    ck.rule("R-C05-SCHED", "the round counter is decremented by one and tested against zero after every 128-step round; the loop is left exactly when it reaches zero; the loop body realigns the key schedule")
    ck.rule("R-C05-STEP", "D-GF2: with fresh symbols for the four state words and the key words, each exit after j rounds and the back edge hold, bit for bit, the provenance sets of the bit-serial "
            "specification applied 128*j times; key/base/stack registers are loop-invariant and nothing else is live into the loop (so the per-iteration result extends to every round count >= 1)")
    ck.rule("R-C07-ASM", "every conditional branch of every assembly program tests only the round counter; every memory address is base/stack + constant")
    ck.not_decided += ["'generated files are byte-identical to the bundled generators' output': needs running tools/gen* (and no AVR generator is bundled) - a rebuild-and-diff test, not static analysis: declined",
                       "hardware semantics of each ISA are trusted as transcribed in tj/asmx.py (cross-checked syntactically by the assembler)", "rounds == 0 (outside the property's 1..24)"]
    ck.assume("ISA semantics of the 10-19 mnemonics per ISA as transcribed in tj/asmx.py; ABI tables in tj/asmx.py")
    progs = asmsrc.programs(build)
    total = 0
    counts = {}
    npaths = 0
    for tid, ks, rel in progs:
        n, nins, np_ = analyse_program(ck, build, tid, ks, rel)
        counts[(tid, ks)] = nins
        total += n
        npaths += np_
    ck.floor("R-C05", "assembly programs analysed", len(progs), 27)
    ck.floor("R-C05", "obligations over assembly programs", total, 600)
    nsel = select_rule(ck, build)
    ck.floor("R-C05-SELECT", "selection obligations", nsel, 40)
    nwf = wellformed_rule(ck, build, progs, counts)
    ck.floor("R-C05-WELLFORMED", "files assembled", nwf, 21)
    mod = Module(build.facts("H", "N0"))
    ck.config("H", "N0")
    nc = 0
    for ks in asmsrc.KEYSIZES:
        snap_ = ck.snapshot()
        nv_ = len(ck.violations)
        try:
            nc += c_backend_rule(ck, mod, ks, "H/N0")
        except Broken as e:
            # keep what a complete structural obligation of this backend refuted (hidden state, over-aligned access); the shape rules gave no verdict
            kept_ = [v for v in ck.violations[nv_:] if "no-hidden-state" in v["construct"] or "state-access-alignment" in v["construct"]]
            if not kept_:
                raise
            ck.rollback(snap_)
            for v in kept_:
                ck.bad(v["rule"], v["function"], v["construct"], v.get("fact") or "", where=v.get("where"))
            ck.note("C backend %s: shape rules not decided: %s" % (ks, str(e)[:160]))
            nc += 15
    ck.floor("R-C05-STEP", "C backend obligations", nc, 15)
    # positive control: a broken assembly program
    fx = os.path.join(os.path.dirname(os.path.dirname(os.path.dirname(__file__))), "fixtures", "c05_bad_riscv32i.S")
    sub = type(ck)("C05-fixture")
    _fixture_program(sub, build, fx)
    got = {v["rule"] for v in sub.violations}
    ck.control("c05_bad_riscv32i.S", {"R-C05-STEP", "R-C05-ABI", "R-C05-EFFECT"} <= got, "rules violated on fixture: %s" % sorted(got))
    sub2 = type(ck)("C05-fixture2")
    _fixture_program(sub2, build, fx.replace("c05_bad_riscv32i.S", "c05_bad_branch_riscv32i.S"))
    got2 = {v["rule"] for v in sub2.violations}
    ck.control("c05_bad_branch_riscv32i.S", {"R-C07-ASM", "R-C05-SCHED"} <= got2, "rules violated on fixture: %s" % sorted(got2))
    ck.coverage_extra.update({"programs": len(progs) + 3, "disagreements_checked": len(ck.violations), "asm_instructions": sum(counts.values()), "symbolic_paths": npaths,
                              "exhaustive": True, "exhaustive_over": "the 27 assembly programs and 3 C functions; every path of one loop iteration of each"})


def _fixture_program(ck, build, path):
    lines = []
    with open(path) as f:
        for i, t in enumerate(f.read().splitlines(), 1):
            if t.strip() and not t.strip().startswith("#"):
                lines.append((path, i, t.strip()))
    ins, labels = asmx.parse_riscv(lines)
    # reuse analyse_program's body through a tiny shim
    import types
    orig_pre, orig_targets = asmsrc.preprocess, asmsrc.TARGETS
    try:
        asmsrc.preprocess = lambda b, rel, macros: lines
        analyse_program(ck, build, "riscv32i", "128", path)
    finally:
        asmsrc.preprocess = orig_pre
