"""C08 — SIV mode round-trips and accepts iff the synthetic IV matches."""
from . import modecommon, C03
from ..facts import Module

LEVEL = "other"
RM = {"NONCEARG": "R-C08-NONCE", "NARROW": "R-C08-ABSORB", "KEYINIT": "R-C08-KEY", "KEYINJ": "R-C08-KEY", "SMALLIO": "R-C08-SMALL", "SMALLMEM": "R-C08-SMALL", "RT": "R-C08-PASS", "LEN": "R-C08-LEN", "ADVANCE": "R-C08-LOCKSTEP", "TAGPOS": "R-C08-END", "INPLACE": "R-C08-INPLACE", "INRANGE": "R-C08-READS"}
PAIR = {"MODE": "R-C08-PASS", "PREFIX": "R-C08-PASS1", "NONCE2": "R-C08-NONCE", "SETUPFN": "R-C08-SETUPFN", "SETUPSENS": "R-C08-SETUPFN"}


def run(ck, build):
    ck.rule("R-C08-LEN", "*clen = mlen + 8 / *mlen = clen - 8 is the only length store")
    ck.rule("R-C08-PASS1", "RELATIONAL (encrypt vs decrypt; conformance with the documented construction is C09): both unpack the key to the same words; decrypt's authentication pass after the keystream pass "
            "repeats encrypt's first pass call for call (setup, absorb AD, absorb plaintext, generate tag: same callees, domains, rounds, chained state) over (npub, ad, recovered plaintext m, clen - 8)")
    ck.rule("R-C08-NONCE", "RELATIONAL: decrypt's second-pass setup equals encrypt's (same callee, domain, key words, nonce composition) with the 8 bytes stored at c + clen - 8 in place of the tag encrypt "
            "generated and stored at c + mlen")
    ck.rule("R-C08-SETUPFN", "RELATIONAL: the setup function all passes call computes the same state from (key words, domain, the twelve nonce bytes) on every path class it distinguishes "
            "(e.g. the alignment of the nonce pointer), and every bit of the twelve nonce bytes enters that state on every class (necessary for a modified nonce to be rejected)")
    ck.rule("R-C08-PASS", "RELATIONAL, per path class of the keystream pass: same permutation call(s) in both directions (callee, rounds, key, input state); decrypt applied to encrypt's output-byte terms gives "
            "back the plaintext bytes bit for bit; the state after a whole block agrees; decrypt returns check_tag's verdict on the regenerated tag")
    ck.rule("R-C08-SMALL", "independent of the loop structure and of the mode's constants: each SIV function for EVERY message length 0..100 as straight path(s): length stored, exactly the output bytes "
            "written, tag written / read right behind the message, load before store per offset, no read outside the input; decrypt returns check_tag's verdict and refuses inputs shorter than a tag. And RELATIONALLY for every length 0..80: with encrypt's output-byte terms substituted for decrypt's "
            "input bytes, decrypt's keystream pass and authentication pass are encrypt's two passes on the same inputs, its output bytes are the plaintext bytes bit for bit, and the regenerated tag is the stored one")
    ck.rule("R-C08-LOCKSTEP", "cursors and remaining length advance in lock-step; residues 0..3 each handled once")
    ck.rule("R-C08-READS", "every word and tail of the keystream pass reads only the input bytes of its own segment (decrypt: plus the 8 tag bytes behind it): a read past the message can fault "
            "at the end of a mapping, and otherwise makes the result depend on memory that is no input")
    ck.rule("R-C08-END", "received tag read at cursor + r = c + clen - 8 (8 bytes)")
    ck.rule("R-C08-INPLACE", "load-before-store per byte in the keystream pass; the tag bytes are copied into the local nonce before the first plaintext store")
    ck.rule("R-C08-GUARD", "inputs shorter than 8 bytes are refused before any access; every other path returns check_tag's verdict (C03's rules on the three SIV decrypt functions)")
    ck.not_decided += ["values; that the computed tag depends on every input bit (cipher property)", "alignment independence is C06's"]
    if modecommon.nostate_rule(ck, build, "R-C08-NOSTATE", ("siv",), "the six SIV entry points"):
        return
    # shape-independent and relational first: the whole round trip for every message length up to the bound as straight paths (it needs no
    # loop shape, so it is asked before the rules that do)
    from . import duallib
    from ..facts import Module as _Module
    mod = _Module(build.facts("H", "N0"))
    try:
        for ks_ in ("128", "192", "256"):
            duallib.check_pair_small_siv(ck, mod, ks_, "H/N0", {"SMALLRT": "R-C08-SMALL"}, maxlen=(288 if ck.tier == "thorough" else 80))
    except modecommon.Broken as e:
        ck.note("small-length round-trip rule not decided: %s" % str(e)[:200])
    try:
        mod, fns, n = modecommon.run_mode(ck, build, ("siv",), RM, helper_fns=False, floor_obl=100)
    except modecommon.Broken as e:
        if not ck.violations:
            raise
        # the relational small-length rule has refuted concrete round trips; that the per-class rules do not follow this code's shape does not take them back
        ck.note("per-class rules not decided: %s" % str(e)[:200])
        return
    ck.rule("R-C08-KEY", "premise of 'a modified key is rejected': in every SIV function the key words the cipher runs on are an injective function of the key bytes (rank of the GF(2)-linear "
            "map): a key byte dropped or read twice alike in both directions keeps every relational rule")
    ck.rule("R-C08-ABSORB", "premise of 'modified bodies and associated data are rejected': the shared absorb function (associated data, and the plaintext in the authentication pass) leaves a "
            "state that is an injective function of the bytes of every segment (rank of the GF(2)-linear map the bytes enter by, or a concrete pair of inputs absorbed alike) - per path "
            "class and for every size 0..24 as straight paths; a deviation made alike in both directions is invisible to the relational rules")
    from . import aeadlib as _ael
    _ael.absorb_injective_rule(ck, mod, "H/N0", "R-C08-ABSORB")
    snap = ck.snapshot()
    try:
        npair = modecommon.run_pairs(ck, mod, ("siv",), PAIR)
    except modecommon.Broken as e:
        ck.rollback(snap)
        if not ck.violations:
            raise
        # obligations of the single-function rules were already refuted; that the pairwise comparison cannot follow the code does not take them back
        ck.note("pairwise comparison not decided: %s" % str(e)[:200])
        npair = 10 ** 6
    ck.floor("R-C08-PASS", "relational obligations over the three encrypt/decrypt pairs", npair, 45)
    sub = _Ren(ck)
    from ..build import Broken
    for f in C03.dec_fns(mod, kinds=("siv",)):
        try:
            C03.guard_and_must(sub, f, "H/N0")
            C03.args_rule(sub, mod, f, "H/N0", parts=("C03",))
        except Broken as e:
            if not ck.violations:
                raise
            # the relational rules above already refuted obligations on this function; that the affine guard/argument rule cannot
            # follow its loop shape does not take those refutations back
            ck.note("guard/argument rule not decided for %s: %s" % (f.name, str(e)[:200]))
    modecommon.fixture_control(ck, build, ("siv",), RM, "c08_bad.c", ["R-C08-NONCE"], pair_rulemap=PAIR)
    ck.coverage_extra.update({"functions": [f.name for f in fns], "exhaustive": True, "exhaustive_over": "every path class of the six SIV functions"})


class _Ren:
    def __init__(self, ck):
        self._ck = ck

    def ob(self, cond, rule, *a, **k):
        if rule.startswith("R-C04"):
            return cond
        return self._ck.ob(cond, "R-C08-GUARD", *a, **k)

    def ok(self, rule, *a, **k):
        if not rule.startswith("R-C04"):
            self._ck.ok("R-C08-GUARD", *a, **k)

    def bad(self, rule, *a, **k):
        if not rule.startswith("R-C04"):
            self._ck.bad("R-C08-GUARD", *a, **k)

    def __getattr__(self, n):
        return getattr(self._ck, n)
