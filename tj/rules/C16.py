"""C16 — the PRNG never emits more than the reseed limit between entropy requests.

Inductive invariant (DESIGN 5/C16): bytes emitted since the last entropy request
<= 32 * (counter - 1), and a block (<= 32 bytes) is emitted only when counter <= limit;
limit is always in [1, 32768].  The rules discharge the premises over ALL writes of
the two budget fields in the linked module and over the emission sites."""
import os
from ..build import Broken
from ..facts import Module, relpath, const_val
from .. import aff, ir, fin, rng

LEVEL = "other"
PRIV = "tinyjambu_prng_state_p_t"
PUB = "tinyjambu_prng_state_t"
MAXLIM = 1048576
# callees that receive a pointer into the state: (pointer arg index -> bytes written from it)
WRITERS = {"tinyjambu_hash_finalize": {1: 32}, "tinyjambu_hash": {0: 32}, "tinyjambu_hash_update": {}, "tinyjambu_hash_init": {},
           "tinyjambu_hash_free": {}, "tinyjambu_trng_generate": {0: 32}}


def prng_fns(mod):
    out = []
    for f in mod.fns.values():
        if f.params and f.params[0]["di"]["pointee"] in (PUB, PRIV):
            out.append(f)
    return out


def field_writes(ck, mod, f, lo, hi):
    """all instructions of f that may write bytes [lo,hi) of *param0: list of (inst, kind, info)"""
    ws = []
    for I in f.insts:
        if I.op == "store":
            b, o = ir.ptr_base(f, I.ops[1])
            if b != ("a", 0):
                continue
            if o is None:
                ext = _extent(f, I.ops[1])
                if ext and (ext[1] <= lo or ext[0] >= hi):
                    continue
                if _affine_outside(mod, f, I, lo, hi):
                    continue
                raise Broken("%s: store to the PRNG state at a variable offset that may overlap the budget fields (%s)" % (f.name, I.where))
            if o < hi and o + I.get("size") > lo:
                ws.append((I, "store", o))
        elif I.op == "call" and not I.is_dbg() and not I.is_lifetime():
            intr = I.get("intrinsic") or ""
            args = I.call_args()
            if intr.startswith("llvm.mem"):
                b, o = ir.ptr_base(f, args[0])
                if b != ("a", 0):
                    continue
                ln = args[2]
                if o is None or ln[0] != "c":
                    raise Broken("%s: mem intrinsic on the PRNG state with variable offset/length (%s)" % (f.name, I.where))
                if o < hi and o + const_val(ln) > lo:
                    ws.append((I, intr.split(".")[1], (o, const_val(ln), args[1] if intr.startswith("llvm.memset") else None)))
                continue
            for k, a in enumerate(args):
                if a[0] not in ("i", "a"):
                    continue
                b, o = ir.ptr_base(f, a)
                if b != ("a", 0):
                    continue
                callee = I.callee
                if callee is None:
                    # entropy callback(user, buf, size): writes buf[0,size)
                    if k == 1 and args[2][0] == "c" and o is not None:
                        n = const_val(args[2])
                        if o < hi and o + n > lo:
                            ws.append((I, "callback", (o, n)))
                        continue
                    if k == 0:
                        continue
                    raise Broken("%s: indirect call receives a pointer into the state in an unexpected position" % f.name)
                if callee == "tinyjambu_clean":
                    n = args[1]
                    if o is None or n[0] != "c":
                        raise Broken("%s: tinyjambu_clean on the state with variable extent" % f.name)
                    if o < hi and o + const_val(n) > lo:
                        ws.append((I, "clean", (o, const_val(n))))
                    continue
                g = mod.fns.get(callee)
                if g is not None and g.params and g.params[0]["di"]["pointee"] in (PUB, PRIV) and k == 0 and o == 0:
                    ws.append((I, "prng-call", callee))
                    continue
                if callee in WRITERS:
                    n = WRITERS[callee].get(k)
                    if n is None:
                        continue
                    if o is None:
                        raise Broken("%s: %s writes into the state at a variable offset" % (f.name, callee))
                    if o < hi and o + n > lo:
                        ws.append((I, "hash-out", (o, n)))
                    continue
                raise Broken("%s passes a pointer into the PRNG state to %s whose effect on the budget fields is unknown" % (f.name, callee))
    return ws


_FB = {}


def _affine_outside(mod, f, I, lo, hi):
    """variable-offset store through the state pointer: is it provably entirely below byte `lo` or at/after byte `hi` of the state
    (affine offset, bounds from the dominating comparisons - the machinery of R-C06-BOUNDS)?"""
    from .. import bounds
    from ..aff import Lin
    key = (id(mod), f.name)
    if key not in _FB:
        _FB[key] = bounds.FnBounds(mod, f)
    fb = _FB[key]
    lin = fb.A.value(tuple(I.ops[1]))
    base, off = fb.base_and_offset(lin)
    if base != ("a", 0):
        return False
    size = I.get("size") or 1
    below = fb.prove_nonneg_cases(off, I.b) and fb.prove_nonneg_cases(Lin.const(lo - size).add(off, -1), I.b)
    above = fb.prove_nonneg_cases(off.add(Lin.const(-hi)), I.b)
    return bool(below or above)


def _extent(f, v):
    I = f.inst(v)
    while I is not None and I.op == "bitcast":
        I = f.inst(I.ops[0])
    if I is not None and I.op == "getelementptr":
        ext = I.get("extent")
        b, o = ir.ptr_base(f, I.ops[0])
        if ext and o is not None:
            return (o + ext[0], o + ext[1])
    return None


def census(ck, mod, label):
    fields = {m["name"]: m for m in mod.composites[PRIV]["members"]}
    c_lo = fields["reseed_counter"]["offset"]
    c_hi = c_lo + fields["reseed_counter"]["size"]
    l_lo = fields["reseed_limit"]["offset"]
    l_hi = l_lo + fields["reseed_limit"]["size"]
    n_c = n_l = 0
    incs = {}  # function -> list of increment stores
    for f in prng_fns(mod):
        icalls = [c for c in f.calls() if c.callee is None]
        cw = field_writes(ck, mod, f, c_lo, c_hi)
        lw = field_writes(ck, mod, f, l_lo, l_hi)
        resets = []
        for (I, kind, info) in cw:
            if kind == "prng-call":
                continue
            n_c += 1
            where = relpath(I.where)
            cons = "counter-write:%s#%d[%s]" % (kind, [x[0].id for x in cw].index(I.id), label)
            if kind == "store":
                v = I.ops[0]
                if info != c_lo or I.get("size") != c_hi - c_lo:
                    ck.bad("R-C16-CENSUS", f.name, cons, "partial / misaligned store overlapping reseed_counter", where=where)
                    continue
                if v[0] == "c":
                    val = const_val(v)
                    if val != 1:
                        ck.bad("R-C16-CENSUS", f.name, cons,
                               "reseed_counter is set to the constant %d; only 1 (= no block emitted since the request) keeps the budget invariant" % val, where=where)
                        continue
                    # must be dominated by an entropy request
                    dom = [c for c in icalls if f.dominates(c.id, I.id)]
                    ck.ob(bool(dom), "R-C16-CENSUS", f.name, cons,
                          "reseed_counter := 1 only after (dominated by) the entropy request of the same function",
                          "reseed_counter is reset to 1 without a preceding entropy request on every path: the emitted-bytes budget is refilled without reseeding",
                          where=where)
                    resets.append(I)
                    continue
                # old + 1
                V = f.inst(v)
                ok = False
                if V is not None and V.op == "add":
                    a, b = V.ops
                    for x, y in ((a, b), (b, a)):
                        X = f.inst(x)
                        if X is not None and X.op == "load" and ir.ptr_base(f, X.ops[0]) == (("a", 0), c_lo) and y[0] == "c" and const_val(y) >= 1:
                            # no other counter write between the load and the store
                            between = [w for (w, kk, _) in cw if w.id != I.id and _between(f, X.id, w.id, I.id)]
                            ok = f.dominates(X.id, I.id) and not between
                if ok:
                    ck.ok("R-C16-CENSUS", f.name, cons, "reseed_counter := reseed_counter + k (k >= 1): only brings the next reseed closer", where=where)
                    incs.setdefault(f.name, []).append(I)
                else:
                    ck.bad("R-C16-CENSUS", f.name, cons,
                           "reseed_counter is written with a value that is neither the constant 1 after an entropy request nor old+1", where=where)
            elif kind in ("memset", "clean"):
                # zero fill: allowed if every path to a return re-establishes the counter, or the object is being destroyed
                later = [r for r in resets_in(f, cw, c_lo) if True]
                esc = ir.rets_reachable_avoiding(f, [r.id for r in later], start=I.id)
                if f.name.endswith("_free"):
                    ck.ok("R-C16-CENSUS", f.name, cons, "whole-state wipe in the free function (object is dead afterwards)", where=where)
                else:
                    ck.ob(not esc and bool(later), "R-C16-CENSUS", f.name, cons,
                          "zero fill of the state is followed on every path by reseed_counter := 1",
                          "the counter field is zero-filled and a path returns without re-establishing it", where=where)
            else:
                ck.bad("R-C16-CENSUS", f.name, cons, "reseed_counter may be overwritten by %s %s" % (kind, info), where=where)
        for (I, kind, info) in lw:
            if kind == "prng-call":
                continue
            n_l += 1
            where = relpath(I.where)
            cons = "limit-write:%s#%d[%s]" % (kind, [x[0].id for x in lw].index(I.id), label)
            if kind == "store":
                v = I.ops[0]
                if info != l_lo or I.get("size") != l_hi - l_lo:
                    ck.bad("R-C16-CENSUS", f.name, cons, "partial / misaligned store overlapping reseed_limit", where=where)
                    continue
                if v[0] == "c":
                    val = const_val(v)
                    ck.ob(1 <= val <= MAXLIM // 32, "R-C16-CENSUS", f.name, cons, "reseed_limit := %d blocks, within [1, 32768]" % val,
                          "reseed_limit is set to the constant %d, outside [1, 32768] blocks" % val, where=where)
                    if f.name == "tinyjambu_prng_init_user":
                        ck.ob(val * 32 == 1024, "R-C16-CLAMP", f.name, "default-limit[%s]" % label, "default limit is 1024 bytes = 32 blocks",
                              "default limit is %d bytes, documented default is 1024" % (val * 32), where=where)
                else:
                    clamp_rule(ck, mod, f, I, label)
            elif kind in ("memset", "clean"):
                if f.name.endswith("_free"):
                    ck.ok("R-C16-CENSUS", f.name, cons, "whole-state wipe in the free function", where=where)
                else:
                    sts = [w for (w, kk, _) in lw if kk == "store"]
                    # the documented setter called on this state is a write of the limit too (its value is R-C16-CLAMP's matter)
                    sts += [c_ for c_ in f.calls("tinyjambu_prng_set_reseed_limit") if ir.ptr_base(f, c_.call_args()[0]) == (("a", 0), 0)]
                    for c_ in sts:
                        if c_.op == "call" and f.name == "tinyjambu_prng_init_user":
                            a_ = c_.call_args()[1]
                            if a_[0] != "c":
                                raise Broken("tinyjambu_prng_init_user sets the default limit through the setter with a value that is not a constant: not decided")
                            ck.ob(const_val(a_) == 1024, "R-C16-CLAMP", f.name, "default-limit[%s]" % label, "default limit is 1024 bytes (through the documented setter)",
                                  "default limit is %d bytes, documented default is 1024" % const_val(a_), where=relpath(c_.where))
                    esc = ir.rets_reachable_avoiding(f, [s.id for s in sts], start=I.id)
                    ck.ob(bool(sts) and not esc, "R-C16-CENSUS", f.name, cons, "zero fill of the state is followed on every path by a store of the limit",
                          "the limit field is zero-filled and a path returns without setting it (limit 0 = reseed storm or, with '>' guard, never)", where=where)
            else:
                ck.bad("R-C16-CENSUS", f.name, cons, "reseed_limit may be overwritten by %s %s" % (kind, info), where=where)
    return n_c, n_l, (c_lo, l_lo), incs


def _between(f, a, w, b):
    """w can execute after a and before b without a executing again"""
    return f.can_reach(a, w, avoid_insts=[b]) and f.can_reach(w, b, avoid_insts=[a])


def resets_in(f, cw, c_lo):
    out = []
    for (I, kind, info) in cw:
        if kind == "store" and I.ops[0][0] == "c" and const_val(I.ops[0]) == 1:
            out.append(I)
    return out


def clamp_rule(ck, mod, f, st, label):
    """the stored limit, as a function of the size_t parameter, has image within [1,32768]
    for every input class, and equals ceil(min(l, 2^20)/32) (min 1) at the class boundaries"""
    pi = None
    for i, p in enumerate(f.params):
        if p["ty"] == "i64" and i > 0:
            pi = i
    if pi is None:
        raise Broken("%s: no size_t limit parameter found" % f.name)
    where = relpath(st.where)
    field = ir.ptr_base(f, st.ops[1])
    consts = fin.constants_compared(f, ("a", pi))
    cuts = sorted({0, 1, MAXLIM, MAXLIM + 1, (1 << 64) - 1} | {c for c in consts} | {c + 1 for c in consts if c + 1 < 1 << 64})
    classes = []
    for a, b in zip(cuts, cuts[1:] + [1 << 64]):
        classes.append((a, b - 1))
    n = 0
    coarse = []
    for lo, hi in classes:
        if lo > hi:
            continue
        n += 1
        got = []

        def on_store(I, env, getiv):
            # (any store into the limit field: a setter with one store per class of the parameter is one function of the parameter)
            if I.id == st.id or (I.op == "store" and ir.ptr_base(f, I.ops[1]) == field):
                got.append(getiv(I.ops[0], 32))
        rng.explore_intervals(f, {("a", pi): rng.Iv(lo, hi, 64)}, on_store)
        ok = bool(got) and all(1 <= g.lo and g.hi <= MAXLIM // 32 for g in got)
        if not ok:
            # an interval is an over-approximation: that it sticks out of [1, 32768] is no witness.  The witnesses are the concrete
            # evaluations below (class boundaries, compared constants, wrap points); without one the image is not decided
            coarse.append("limit in [%d,%s]: stored block count within %s" % (lo, "2^64-1" if hi == (1 << 64) - 1 else hi, got))
            continue
        ck.ob(ok, "R-C16-CLAMP", f.name, "limit-image[%d..%s][%s]" % (lo, "2^64-1" if hi == (1 << 64) - 1 else hi, label),
              "for limit in [%d,%d] the stored block count lies in %s, within [1,32768]" % (lo, hi, got),
              "for limit in [%d,%d] the stored block count can be %s: outside [1, 32768] blocks (1 MiB maximum / 32-byte minimum not enforced)" % (lo, hi, got),
              where=where)
    # exact rounding at representatives
    reps = sorted({0, 1, 31, 32, 33, 63, 64, 65, 1023, 1024, 1025, MAXLIM - 1, MAXLIM, MAXLIM + 1, 1 << 32, (1 << 64) - 1, (1 << 64) - 31} | set(consts))
    bad_reps = 0
    for r in reps:
        n += 1
        vals = []

        def classify(I, e):
            if I.id == st.id or (I.op == "store" and ir.ptr_base(f, I.ops[1]) == field):
                v = I.ops[0]
                vals.append(int(v[1]) if v[0] == "c" else e.get(v))
            return None
        fin.explore(f, None, {("a", pi): r}, classify)
        vals = vals[-1:]            # the value the field holds at the end of the (single, concrete) path
        want = max(1, (min(r, MAXLIM) + 31) // 32)
        ck.ob(vals == [want], "R-C16-CLAMP", f.name, "limit-value(%s)[%s]" % (r if r < 1 << 40 else hex(r), label),
              "limit %d -> %d blocks = ceil(min(limit, 1 MiB)/32), minimum 1" % (r, want),
              "limit %d -> stored %s blocks, expected %d (rounded up to a multiple of 32, min 32 bytes, max 1 MiB)" % (r, vals, want), where=where)
        bad_reps += vals != [want]
    if coarse and not bad_reps:
        raise Broken("%s: the interval image of the stored limit is too coarse to bound it (%s) and no concrete evaluation is wrong: not decided" % (f.name, coarse[0]))
    return n


def add_udiv_to_fin():
    # fin.eval_inst lacks udiv; extend it here once
    orig = fin.eval_inst
    if getattr(fin, "_udiv", False):
        return

    def ev(f, I, env):
        if I.op in ("udiv", "urem"):
            def val(v):
                if v[0] == "c":
                    return int(v[1])
                x = env.get(v)
                return x if isinstance(x, int) else None
            a, b = val(I.ops[0]), val(I.ops[1])
            if a is None or b is None or b == 0:
                return None
            return a // b if I.op == "udiv" else a % b
        return orig(f, I, env)
    fin.eval_inst = ev
    fin._udiv = True


def _reseed_is_a_call(f):
    """the rules know the automatic reseed as a call of tinyjambu_prng_reseed; an entropy request made by generate itself (the reseed body
    in a file-local helper, inlined) is a reseed they do not see: no verdict rather than 'an emission without reseeding'"""
    if not f.calls("tinyjambu_prng_reseed") and any(c.callee is None and not c.is_dbg() for c in f.calls()):
        raise Broken("%s makes an entropy request itself instead of calling tinyjambu_prng_reseed (the reseed in a file-local helper?): the reseed sites are not recognised" % f.name)


def guard_rule(ck, mod, offs, incs, label):
    c_off, l_off = offs
    f = mod.fn("tinyjambu_prng_generate")
    di = f.param_index("data")
    if di is None:
        raise Broken("anchor vanished: tinyjambu_prng_generate has no 'data' parameter")
    # pointers derived from data
    derived = {("a", di)}
    ch = True
    while ch:
        ch = False
        for I in f.insts:
            k = ("i", I.id)
            if k in derived:
                continue
            if I.op in ("getelementptr", "bitcast") and I.ops[0] in derived:
                derived.add(k)
                ch = True
            elif I.op in ("phi", "select") and any(o in derived for o in I.ops):
                derived.add(k)
                ch = True
    emis = []
    for I in f.insts:
        if I.op == "store" and I.ops[1] in derived:
            emis.append((I, ("c", str(I.get("size")), 64)))
        elif I.op == "call" and (I.get("intrinsic") or "").startswith("llvm.mem") and I.call_args()[0] in derived:
            emis.append((I, I.call_args()[2]))
        elif I.op == "call" and not (I.get("intrinsic") or "").startswith("llvm.") and any(a in derived for a in I.call_args()):
            # the output buffer handed to a callee: a hash call that writes its 32-byte digest there is an emission like a copy
            outarg = {"tinyjambu_hash": 0, "tinyjambu_hash_finalize": 1}.get(I.callee or "")
            pos = [i_ for i_, a in enumerate(I.call_args()) if a in derived]
            if outarg is None or pos != [outarg]:
                raise Broken("tinyjambu_prng_generate hands the output buffer to %s: how much that callee writes per counter step is not analysed" % (I.callee or "an indirect callee"))
            emis.append((I, ("c", "32", 64)))
    if not emis:
        raise Broken("no emission site (write to 'data') found in tinyjambu_prng_generate")
    inc_st = incs.get(f.name, [])
    reseeds = f.calls("tinyjambu_prng_reseed")
    _reseed_is_a_call(f)
    n = 0
    for (E, ln) in emis:
        n += 1
        where = relpath(E.where)
        # g1: length <= 32
        ub = upper_bound(f, ln, E.b)
        if ub is None and not _grows_with_param(f, ln):
            raise Broken("tinyjambu_prng_generate: no bound derived for the length %s of the emission at %s (neither bounded by the conditions on its path nor a plain function of the "
                         "requested size): not decided" % (ln, where))
        ck.ob(ub is not None and ub <= 32, "R-C16-GUARD", f.name, "block-length#%d[%s]" % (n, label),
              "each emission writes at most 32 bytes (bound %s)" % ub,
              "an emission may write %s bytes per counter step (more than one 32-byte block)" % ("an unbounded number of" if ub is None else ub), where=where)
        # g2: guard
        L = f.blocks[E.b].loop
        if f.blocks[E.b].depth is not None and f.blocks[E.b].depth > 1:
            # a store in a byte-copy loop inside the block loop: the bytes written per counter step are those of all its iterations, and the
            # guard / increment belong to the enclosing loop - this rule reads one emission per iteration of the loop it stands in
            raise Broken("tinyjambu_prng_generate: an emission at %s stands in an inner loop (a byte-wise copy-out?): bytes per counter step and the per-block guard are not analysed for this shape" % where)
        tests = []
        for I in f.insts:
            if I.op != "icmp":
                continue
            a, b = I.ops
            A, B = f.inst(a), f.inst(b)

            def is_ld(X, off):
                return X is not None and X.op == "load" and ir.ptr_base(f, X.ops[0]) == (("a", 0), off)
            if is_ld(A, c_off) or is_ld(B, c_off):
                tests.append(I)
        direct = None
        directs = []
        for T in tests:
            a, b = T.ops
            A, B = f.inst(a), f.inst(b)
            pred = T.get("pred")
            form = None
            if A.op == "load" and B is not None and B.op == "load":
                ca = ir.ptr_base(f, A.ops[0])[1]
                cb = ir.ptr_base(f, B.ops[0])[1]
                if (ca, cb) == (c_off, l_off):
                    form = {"ugt": True, "ule": False}.get(pred)
                elif (ca, cb) == (l_off, c_off):
                    form = {"ult": True, "uge": False}.get(pred)
            if form is None:
                continue
            # which edge calls reseed
            for bb in f.blocks:
                be = ir.branch_edges(f, bb.id)
                if be and be[0] == ("i", T.id):
                    directs.append((T, bb.id, be[1] if form else be[2], be[2] if form else be[1], A, B))
        if directs:
            # several emission sites may each have their own test: the one meant for this emission dominates it (innermost first)
            dom = [d_ for d_ in directs if f.dominates(d_[0].id, E.id)]
            inl = [d_ for d_ in dom if L != -1 and _in_loop(f, d_[0].b, L)]
            direct = (inl or dom or directs)[-1]
        if direct:
            T, tb, reseed_succ, pass_succ, A, B = direct
            # per block: loads and test inside E's loop, and dominate E
            # the counter must be read and tested in every round; the limit may be read once before the loop when nothing the loop does can
            # change it (no store to the limit field in generate itself or in the reseed function it calls)
            cload, lload = (A, B) if ir.ptr_base(f, A.ops[0])[1] == c_off else (B, A)
            lim_stable = not [w for (w, kk, i_) in field_writes(ck, mod, f, l_off, l_off + 4) if not (kk == "prng-call" and i_ == "tinyjambu_prng_reseed")] and \
                not [w for (w, kk, _i) in field_writes(ck, mod, mod.fn("tinyjambu_prng_reseed"), l_off, l_off + 4)]
            need = (cload, lload, T) if not lim_stable else (cload, T)
            inloop = (L == -1) or all(f.blocks[x.b].loop != -1 and _in_loop(f, x.b, L) for x in need)
            if lim_stable and L != -1 and not (f.blocks[lload.b].loop != -1 and _in_loop(f, lload.b, L)) and not f.dominates(lload.id, T.id):
                inloop = False
            ck.ob(inloop, "R-C16-GUARD", f.name, "guard-per-block#%d[%s]" % (n, label),
                  "counter and limit are loaded and compared inside the block loop, before every block",
                  "the reseed check (%s) is outside the loop that emits blocks: it runs once per call, so one call can emit any amount" % relpath(T.where),
                  where=where)
            ck.ob(f.dominates(T.id, E.id), "R-C16-GUARD", f.name, "guard-dominates#%d[%s]" % (n, label),
                  "the counter > limit test dominates the emission", "an emission is reachable without passing the counter > limit test", where=where)
            # from the reseed edge, E is unreachable without a reseed call
            first = f.blocks[reseed_succ].insts[0]
            reach = _reach_avoiding(f, reseed_succ, E, [r.id for r in reseeds])
            ck.ob(bool(reseeds) and not reach, "R-C16-GUARD", f.name, "guard-reseeds#%d[%s]" % (n, label),
                  "when counter > limit every path to the emission passes tinyjambu_prng_reseed",
                  "with counter > limit an emission is reachable without reseeding", where=where)
        else:
            grid_guard(ck, mod, f, E, offs, reseeds, n, label)
        # g3: one increment between successive emissions
        if L != -1:
            again = f.can_reach(E.id, E.id, avoid_insts=[s.id for s in inc_st])
            ck.ob(bool(inc_st) and not again, "R-C16-GUARD", f.name, "increment-per-block#%d[%s]" % (n, label),
                  "every path from one emission to the next passes a reseed_counter increment",
                  "two blocks can be emitted with no counter increment in between", where=where)
    # reseed really is the function whose census shows the reset
    g = mod.fn("tinyjambu_prng_reseed")
    ck.ob(any(True for _ in resets_in(g, field_writes(ck, mod, g, c_off, c_off + 4), c_off)), "R-C16-REQ", g.name, "reseed-resets[%s]" % label,
          "tinyjambu_prng_reseed sets reseed_counter := 1", "tinyjambu_prng_reseed never resets the counter", where=relpath("%s:%d" % (g.file, g.line)))
    ic = [c for c in g.calls() if c.callee is None]
    esc = ir.rets_reachable_avoiding(g, [c.id for c in ic])
    ck.ob(bool(ic) and not esc, "R-C16-REQ", g.name, "reseed-requests[%s]" % label,
          "tinyjambu_prng_reseed makes an entropy request on every path", "a path through tinyjambu_prng_reseed makes no entropy request",
          where=relpath("%s:%d" % (g.file, g.line)))
    return n


def _in_loop(f, b, header):
    h = f.blocks[b].loop
    while h != -1:
        if h == header:
            return True
        l = f.loop_of(h)
        h = l["parent"] if l else -1
    return False


def _reach_avoiding(f, start_block, E, avoid_ids):
    """can E be reached from the start of start_block without executing avoid_ids"""
    first = f.blocks[start_block].insts[0]
    if first == E.id:
        return True
    if first in avoid_ids:
        return False
    return f.can_reach(first, E.id, avoid_insts=avoid_ids)


def upper_bound(f, v, at_block, depth=0):
    """sound upper bound of value v (None = unknown)"""
    if depth > 8:
        return None
    if v[0] == "c":
        return const_val(v)
    I = f.inst(v)
    if I is None:
        return None
    if I.op == "phi":
        m = 0
        for inc, pb in I.get("inc"):
            inc = tuple(inc) if not isinstance(inc, tuple) else inc
            inc = tuple(inc)
            if inc[0] == "c":
                m = max(m, int(inc[1]))
                continue
            conds = ir.conditions_on_edge(f, pb, I.b)
            b = _bound_from_conds(f, inc, conds)
            if b is None:
                return None
            m = max(m, b)
        return m
    if I.op == "select":
        C = f.inst(I.ops[0])
        outs = []
        for val, truth in ((I.ops[1], True), (I.ops[2], False)):
            if val[0] == "c":
                outs.append(const_val(val))
                continue
            b = _bound_from_conds(f, val, [(I.ops[0], truth)]) if C is not None else None
            if b is None:
                return None
            outs.append(b)
        return max(outs)
    if I.op in ("zext", "trunc"):
        return upper_bound(f, I.ops[0], at_block, depth + 1)
    if I.op == "urem" and I.ops[1][0] == "c" and const_val(I.ops[1]) > 0:
        return const_val(I.ops[1]) - 1
    if I.op == "and" and (I.ops[0][0] == "c" or I.ops[1][0] == "c"):
        return const_val(I.ops[0] if I.ops[0][0] == "c" else I.ops[1])
    if I.op in ("udiv", "lshr") and I.ops[1][0] == "c":
        b0 = upper_bound(f, I.ops[0], at_block, depth + 1)
        if b0 is not None:
            k = const_val(I.ops[1])
            return b0 // k if (I.op == "udiv" and k) else (b0 >> k if I.op == "lshr" else None)
    if I.op == "call" and (I.get("intrinsic") or "").startswith("llvm.umin"):
        bs = [upper_bound(f, a, at_block, depth + 1) for a in I.call_args()]
        bs = [b for b in bs if b is not None]
        return min(bs) if bs else None
    conds = ir.conditions_at(f, at_block)
    return _bound_from_conds(f, v, conds)


def _grows_with_param(f, v):
    """is v the requested size itself (a size parameter plus/minus a constant, or a loop-carried remainder that starts as one):
    a length that grows with the request, so that 'no bound found' means 'unbounded'"""
    A = aff.Aff(f)
    try:
        val = A.value(tuple(v))
    except Exception:
        return False
    syms = [s_ for s_ in val if s_ != 1]
    if len(syms) != 1 or val[syms[0]] != 1:
        return False
    s_ = syms[0]
    if isinstance(s_, tuple) and s_[0] == "a":
        return True
    if isinstance(s_, tuple) and s_[0] in ("phi", "rec", "hd") or (isinstance(s_, tuple) and s_[0] == "i"):
        I = f.inst(("i", s_[1])) if isinstance(s_[1], int) else None
        if I is not None and I.op == "phi":
            for inc, pb in I.get("inc"):
                inc = tuple(inc)
                if inc[0] == "a":
                    return True
    return False


def _bound_from_conds(f, v, conds):
    best = None
    for c, truth in conds:
        C = f.inst(c)
        if C is None or C.op != "icmp":
            continue
        a, b = C.ops
        pred = C.get("pred")
        if not truth:
            pred = {"ult": "uge", "uge": "ult", "ugt": "ule", "ule": "ugt", "eq": "ne", "ne": "eq"}.get(pred)
        if pred is None:
            continue
        if a == v and b[0] == "c":
            k = const_val(b)
            ub = {"ult": k - 1, "ule": k, "eq": k}.get(pred)
        elif b == v and a[0] == "c":
            k = const_val(a)
            ub = {"ugt": k - 1, "uge": k, "eq": k}.get(pred)
        else:
            continue
        if ub is not None:
            best = ub if best is None else min(best, ub)
    return best


def grid_guard(ck, mod, f, E, offs, reseeds, n, label):
    """guard in a non-canonical form: decide it on a boundary grid of (counter, limit)"""
    c_off, l_off = offs
    si = f.param_index("size")
    vals = [0, 1, 2, 3, 4, 5, 31, 32, 33, 32767, 32768, 32769, (1 << 32) - 2, (1 << 32) - 1]
    where = relpath(E.where)
    bad = None
    cnt = 0
    for c in vals:
        for l in vals:
            if l < 1 or l > 32768:
                continue
            cnt += 1

            def classify(I, e):
                if I.op == "load":
                    b, o = ir.ptr_base(f, I.ops[0])
                    if b == ("a", 0) and o == c_off:
                        return ("bind", ("i", I.id), e.get(("ctr",), c))
                    if b == ("a", 0) and o == l_off:
                        return ("bind", ("i", I.id), l)
                if I.op == "call" and I.callee == "tinyjambu_prng_reseed":
                    return [("bind", ("ctr",), 1), ("reseed",)]
                return None
            env = {}
            if si is not None:
                env[("a", si)] = 100
            ps = fin.explore(f, None, env, classify, stop_at=[E.id])
            for p in ps:
                if p.end[0] == "reach" and c > l and ("reseed",) not in p.events:
                    bad = (c, l)
            if bad:
                break
        if bad:
            break
    ck.ob(bad is None, "R-C16-GUARD", f.name, "guard-grid#%d[%s]" % (n, label),
          "guard (non-canonical form) admits an emission only with counter <= limit or after a reseed, on a %d-point boundary grid" % cnt,
          "with reseed_counter=%s and reseed_limit=%s a block is emitted without reseeding: the guard does not enforce counter <= limit" % (bad or ("?", "?")),
          where=where)


def run(ck, build):
    ck.rule("R-C16-CENSUS", "every write (store, mem intrinsic, wipe, callee output) that can touch reseed_counter / reseed_limit in any function taking the PRNG state is: "
            "counter := 1 dominated by an entropy request; counter := counter + k; a zero fill re-established on every path; limit := constant or the clamp")
    ck.rule("R-C16-GUARD", "in generate every emission writes <= 32 bytes, is dominated by a per-iteration test 'counter > limit -> reseed' read from the state inside the loop, "
            "and successive emissions are separated by a counter increment")
    ck.rule("R-C16-REQ", "reseed makes an entropy request on every path and resets the counter")
    ck.rule("R-C16-CLAMP", "interval image of the stored limit over the partition of the parameter is within [1, 32768] blocks; exact ceil(min(l,1MiB)/32) at boundary representatives; default 1024 bytes")
    ck.not_decided += ["wrap-around of the 32-bit counter after 2^32 feeds without a generate (assumed not to happen)"]
    ck.assume("the invariant argument of DESIGN 5/C16: emitted bytes since the last request <= 32*(counter-1); emission only when counter <= limit; limit in [1,32768]")
    ck.assume("stores through pointers not derived from the state parameter do not alias the state (C object model)")
    add_udiv_to_fin()
    mod = Module(build.facts("H", "N0"))
    ck.config("H", "N0")
    label = "H/N0"
    n_c, n_l, offs, incs = census(ck, mod, label)
    ck.floor("R-C16-CENSUS", "writes to reseed_counter", n_c, 3)
    ck.floor("R-C16-CENSUS", "writes to reseed_limit", n_l, 2)
    ck.floor("R-C16-CENSUS", "functions taking the PRNG state", len(prng_fns(mod)), 6)
    n = guard_rule(ck, mod, offs, incs, label)
    ck.floor("R-C16-GUARD", "emission sites", n, 1)
    # positive control
    fx = Module(build.fixture_facts(os.path.join(os.path.dirname(os.path.dirname(os.path.dirname(__file__))), "fixtures", "c16_bad.c")))
    sub = type(ck)("C16-fixture")
    _, _, o2, i2 = census(sub, fx, "fixture")
    guard_rule(sub, fx, o2, i2, "fixture")
    got = {(v["function"], v["construct"].split("#")[0].split("[")[0].split("(")[0]) for v in sub.violations}
    for want in [("tinyjambu_prng_generate", "guard-per-block"), ("tinyjambu_prng_feed", "counter-write:store"), ("tinyjambu_prng_set_reseed_limit", "limit-value")]:
        ck.control("c16_bad.c:%s:%s" % want, want in got, "got %s" % sorted(got))
    ck.coverage_extra.update({"counter_writes": n_c, "limit_writes": n_l, "emission_sites": n,
                              "exhaustive": True, "exhaustive_over": "all writes to the two budget fields in the linked module; all emission sites of generate"})
