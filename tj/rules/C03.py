"""C03 — decryption accepts iff the tag is exactly right (AEAD; the SIV functions share
check_tag and are included for the guard / must-pass / argument rules).
C04's rules live here too (they ride on the same facts) and are exported for C04.py."""
import os, re
from ..build import Broken
from ..facts import Module, relpath, const_val
from .. import ir, fin, rng, gf2, aff

LEVEL = "other"
DEC = re.compile(r"tinyjambu_(128|192|256)_(aead|siv)_decrypt$")
CT = "tinyjambu_aead_check_tag"
TAG = 8


def dec_fns(mod, kinds=("aead", "siv")):
    out = [f for f in mod.fns.values() if DEC.match(f.name) and DEC.match(f.name).group(2) in kinds]
    return sorted(out, key=lambda f: f.name)


def ct_call(f):
    cs = f.calls(CT)
    if len(cs) != 1:
        raise Broken("%s: expected exactly one call of %s, found %d" % (f.name, CT, len(cs)))
    return cs[0]


def guard_and_must(ck, f, label, rule_guard="R-C03-GUARD", rule_must="R-C03-MUST"):
    """D-FIN over clen classes: [0,7] -> negative return with no access; [8,max] -> the value returned is check_tag's"""
    ci = f.param_index("clen")
    if ci is None:
        raise Broken("anchor vanished: %s has no clen parameter" % f.name)
    call = ct_call(f)
    ptrs = {("a", i) for i, p in enumerate(f.params) if p["ty"].endswith("*")}

    def classify(I, e):
        if I.id == call.id:
            return [("bind", ("i", I.id), ("CHECKTAG",)), ("check_tag",)]
        if I.op in ("store", "load"):
            b, o = ir.ptr_base(f, I.ops[1] if I.op == "store" else I.ops[0])
            if b in ptrs:
                return (I.op, f.params[b[1]]["name"])
            return None
        if I.op == "call":
            return ("call", I.callee or (I.get("intrinsic") or "?"))
        return None

    consts = fin.constants_compared(f, ("a", ci))
    reps = sorted(set(fin.partition(consts, 64, extra=[TAG])) | {0, 1, 2, 3, 4, 5, 6, 7, 8, 9, 10, 11, 12})
    n = 0
    for r in reps:
        n += 1
        where = relpath("%s:%d" % (f.file, f.line))
        try:
            ps = fin.explore(f, None, {("a", ci): r}, classify, max_states=200000, arith=False)
        except Broken:
            if r < TAG:
                raise
            # the path enumeration does not terminate within its bound (loops whose trip counts the class does not fix): the same statement
            # as plain reachability - with the branches that compare clen itself with a constant decided for this class, no return is
            # reachable without entering the block of the check_tag call, and what is returned is that call's value on every edge left
            why = _must_by_reachability(f, call, ci, r)
            ck.ob(why is None, rule_must, f.name, "verdict(clen=%s)[%s]" % (r if r < 1 << 32 else hex(r), label),
                  "clen = %d: no return is reachable without the check_tag call and every return hands on its verdict (reachability over the CFG with the clen guards decided)" % r,
                  "clen = %d: %s" % (r, why), where=where)
            continue
        if r < TAG:
            ok = bool(ps)
            why = ""
            for p in ps:
                if p.end[0] != "ret":
                    ok, why = False, "does not return (%s)" % p.end[0]
                elif not isinstance(p.ret, int) or not (p.ret >> 31 & 1):
                    ok, why = False, "returns %s, not a negative value" % (p.ret,)
                elif p.events:
                    ok, why = False, "touches buffers / calls before refusing: %s" % (list(p.events)[:4],)
                if not ok:
                    break
            ck.ob(ok, rule_guard, f.name, "short-input(clen=%d)[%s]" % (r, label),
                  "clen = %d (< 8): refused with a negative result before any load, store or call" % r,
                  "clen = %d (shorter than the tag) is not refused up front: %s" % (r, why), where=where)
        else:
            rets = [p for p in ps if p.end[0] == "ret"]
            ok = bool(rets) and all(p.ret == ("CHECKTAG",) for p in rets)
            badp = [p for p in rets if p.ret != ("CHECKTAG",)]
            ck.ob(ok, rule_must, f.name, "verdict(clen=%s)[%s]" % (r if r < 1 << 32 else hex(r), label),
                  "clen = %d: every path returns exactly the verdict of the single check_tag call" % r,
                  "clen = %d: a path returns %s instead of check_tag's verdict (accepts or rejects without verifying the tag)"
                  % (r, badp[0].ret if badp else "nothing"), where=where,
                  path=ir.path_desc(f, badp[0].blocks[:12]) if badp else None)
    return n


def _must_by_reachability(f, call, ci, r):
    """-> None, or why a return may hand on something else than check_tag's verdict for inputs of the class of r"""
    keep = {}
    for b in f.blocks:
        t = f.term(b.id)
        succ = list(t.get("succ") or []) if t.op == "br" else list(b.succs)
        if t.op == "br" and t.get("cond") and t.ops[0][0] == "i":
            C = f.inst(t.ops[0])
            if C is not None and C.op == "icmp":
                x, y = tuple(C.ops[0]), tuple(C.ops[1])
                val = None
                if x == ("a", ci) and y[0] == "c":
                    val = ir.eval_icmp(C.get("pred"), r, const_val(y), 64)
                elif y == ("a", ci) and x[0] == "c":
                    val = ir.eval_icmp(C.get("pred"), const_val(x), r, 64)
                if val is not None:
                    succ = [succ[0]] if val else [succ[1]]
        keep[b.id] = succ
    cb = call.b
    # reachable without entering the call's block
    seen, todo = {0}, [0]
    if cb == 0:
        seen, todo = set(), []
    while todo:
        b = todo.pop()
        if f.term(b).op == "ret":
            return "a return at %s is reachable without calling check_tag (the tag is not verified on that path)" % relpath(f.term(b).where)
        for s_ in keep[b]:
            if s_ != cb and s_ not in seen:
                seen.add(s_)
                todo.append(s_)
    # everything reachable at all
    allr, todo = {0}, [0]
    while todo:
        b = todo.pop()
        for s_ in keep[b]:
            if s_ not in allr:
                allr.add(s_)
                todo.append(s_)
    cv = ("i", call.id)

    def leaves(v, depth=0):
        v = tuple(v)
        if v == cv:
            return set()
        I = f.inst(v)
        if I is not None and I.op == "phi" and depth < 8:
            out = set()
            for inc, pb in I.get("inc"):
                if pb in allr and I.b in keep.get(pb, ()):
                    out |= leaves(inc, depth + 1)
            return out
        return {v}
    for R in f.rets():
        if R.b not in allr or not R.ops:
            continue
        bad = leaves(R.ops[0])
        if bad:
            return "the return at %s can hand on %s instead of check_tag's verdict" % (relpath(R.where), sorted(bad, key=repr)[:2])
    return None


def args_rule(ck, mod, f, label, parts=("C03", "C04")):
    """call-site arguments of check_tag: size 8; tag1 = 8-byte local filled by generate_tag on that path;
    tag2 = c0 + (clen0 - 8); plaintext = entry m; plaintext_len = clen0 - 8"""
    call = ct_call(f)
    a = call.call_args()
    A = aff.Aff(f)
    where = relpath(call.where)
    mi, ci, li = f.param_index("m"), f.param_index("c"), f.param_index("clen")
    if None in (mi, ci, li):
        raise Broken("anchor vanished: m/c/clen parameters of %s" % f.name)
    if "C03" in parts:
        _args_c03(ck, mod, f, label, call, a, A, where, ci, li)
    if "C04" in parts:
        _args_c04(ck, mod, f, label, call, a, A, where, mi, li)


def _args_c03(ck, mod, f, label, call, a, A, where, ci, li):
    # size
    ck.ob(a[4][0] == "c" and const_val(a[4]) == TAG, "R-C03-ARGS", f.name, "size[%s]" % label, "all 8 tag bytes are compared (size = 8)",
          "check_tag is asked to compare %s bytes instead of the 8-byte tag" % (a[4],), where=where)
    # tag1: local buffer written by generate_tag
    b1, o1 = ir.ptr_base(f, a[2])
    I1 = f.inst(b1)
    okl = I1 is not None and I1.op == "alloca" and o1 == 0 and (I1.get("alloc_size") or 0) >= TAG
    gens = [c for c in f.calls() if (c.callee or "").startswith("tinyjambu_generate_tag_") and ir.ptr_base(f, c.call_args()[1]) == (b1, o1)]
    okg = bool(gens) and not f.can_reach_from_entry_avoiding(call.id, [g.id for g in gens]) if hasattr(f, "can_reach_from_entry_avoiding") else None
    if okg is None:
        esc = _reach_from_entry_avoiding(f, call.id, [g.id for g in gens])
        okg = bool(gens) and not esc
    # nothing else writes the tag buffer between generate_tag and check_tag
    later = []
    for I in f.insts:
        if I.op == "store" and ir.ptr_base(f, I.ops[1])[0] == b1:
            if any(f.can_reach(g.id, I.id) for g in gens) and f.can_reach(I.id, call.id):
                later.append(I)
        if I.op == "call" and not I.is_dbg() and not I.is_lifetime() and I.id != call.id and I not in gens:
            for x in I.call_args():
                if x[0] == "i" and ir.ptr_base(f, x)[0] == b1 and any(f.can_reach(g.id, I.id) for g in gens) and f.can_reach(I.id, call.id):
                    if (I.get("intrinsic") or "").startswith("llvm.memcpy") and I.call_args()[1] == x:
                        continue  # read only
                    later.append(I)
    ck.ob(okl and okg and not later, "R-C03-ARGS", f.name, "computed-tag[%s]" % label,
          "tag1 is the 8-byte local filled by generate_tag on every path and not modified afterwards",
          "tag1 is not (only) the tag computed by generate_tag on this path (local=%s, generated on all paths=%s, later writes=%d)" % (okl, okg, len(later)),
          where=where)
    # tag2 == c0 + clen0 - 8
    target = aff.Lin.sym(("a", ci)).add(aff.Lin.sym(("a", li))).add(aff.Lin.const(-TAG))
    ok, why = aff.prove_equal(A, a[3], target, call.b)
    if ok is None:
        raise Broken("%s: the position of the received tag cannot be related to c + clen - 8 by the affine cursor analysis (%s): unrecognised loop / cursor shape" % (f.name, why))
    ck.ob(ok, "R-C03-ARGS", f.name, "received-tag-position[%s]" % label,
          "tag2 == c + clen - 8 on every path (cursor advanced in lock-step with the remaining length, all residues)",
          "the received tag is not read from c + clen - 8 on every path: %s" % why, where=where)


def _args_c04(ck, mod, f, label, call, a, A, where, mi, li):
    # the length must reach check_tag at full width: a narrower parameter wipes only len mod 2^w bytes of a long rejected message
    g = mod.fns.get(CT)
    if g is not None and g.blocks:
        pi_ = g.param_index("plaintext_len")
        wbits = int(g.params[pi_]["ty"][1:]) if pi_ is not None and g.params[pi_]["ty"].startswith("i") else None
        cbits = int(f.params[li]["ty"][1:]) if f.params[li]["ty"].startswith("i") else None
        if wbits is not None and cbits is not None:
            ck.ob(wbits >= cbits, "R-C04-ARGS", f.name, "wipe-length-width[%s]" % label, "check_tag takes the plaintext length at the full %d-bit width of clen" % cbits,
                  "check_tag's plaintext_len parameter is %d bits wide, clen is %d bits: for messages of 2^%d bytes or more only (length mod 2^%d) bytes are wiped on rejection" % (wbits, cbits, wbits, wbits),
                  where=where)
    # C04: plaintext pointer is the entry m, length is clen - 8
    okp = ir.ptr_base(f, a[0]) == (("a", mi), 0)
    if not okp:
        # three-valued like the other argument rules: proven through merges, refuted only by a constant / parameter difference
        okp, whyp = aff.prove_equal(A, a[0], aff.Lin.sym(("a", mi)), call.b)
        if okp is None:
            raise Broken("%s: the plaintext pointer passed to check_tag cannot be related to m by the affine analysis (%s)" % (f.name, whyp))
    ck.ob(okp, "R-C04-ARGS", f.name, "wipe-start[%s]" % label, "check_tag receives the start of the plaintext buffer (entry value of m)",
          "check_tag receives %s, not the start of the plaintext buffer: the beginning of the candidate plaintext survives a rejection" % A.names(A.value(a[0])),
          where=where)
    tlen = aff.Lin.sym(("a", li)).add(aff.Lin.const(-TAG))
    ok2, why2 = aff.prove_equal(A, a[1], tlen, call.b)
    if ok2 is None:
        raise Broken("%s: the length passed to check_tag cannot be related to clen - 8 by the affine analysis (%s)" % (f.name, why2))
    ck.ob(ok2, "R-C04-ARGS", f.name, "wipe-length[%s]" % label, "check_tag receives the full plaintext length clen - 8",
          "the length passed for wiping is not clen - 8 on every path: %s" % why2, where=where)
    # ... and at full width: a length that went through a narrower integer on its way (a helper with an `unsigned` parameter, inlined here) is
    # clen - 8 only below 2^w
    nar = None
    v_, seen_ = tuple(a[1]), set()
    st_ = [v_]
    while st_ and nar is None:
        x_ = st_.pop()
        if x_ in seen_ or x_[0] != "i":
            continue
        seen_.add(x_)
        J_ = f.inst(x_)
        if J_ is None:
            continue
        if J_.op == "trunc" and (J_.bits or 64) < 64:
            nar = (J_, J_.bits)
        elif J_.op == "and" and any(isinstance(o_, (list, tuple)) and o_[0] == "c" and 0 < const_val(o_) < (1 << 63) and const_val(o_).bit_length() <= 32 and const_val(o_).bit_length() >= 16 for o_ in J_.ops):
            nar = (J_, 32)
        elif J_.op in ("zext", "sext", "freeze", "phi", "select", "and", "sub", "add"):
            st_ += [tuple(o_) for o_ in J_.ops if isinstance(o_, (list, tuple)) and o_ and o_[0] == "i"]
    ck.ob(nar is None, "R-C04-ARGS", f.name, "wipe-length-full-width[%s]" % label, "the plaintext length reaches check_tag without passing through a narrower integer",
          "the plaintext length passes through a %s-bit value on its way to check_tag: for messages of 2^%s bytes or more only (length mod 2^%s) bytes are wiped on rejection"
          % ((nar[1],) * 3 if nar else ("?",) * 3), where=relpath(nar[0].where) if nar else where)


def _reach_from_entry_avoiding(f, target, avoid):
    first = f.blocks[0].insts[0]
    if first == target:
        return True
    if first in avoid:
        return False
    return f.can_reach(first, target, avoid_insts=avoid)


def cmp_rule(ck, mod, label, only_over=False):
    """check_tag under the call-site constant size = 8 (R-C03-ARGS proves every call site passes 8):
    symbolic evaluation in the GF(2)/OR term domain with the constant-trip compare loop followed; then
      (1) find the last value D on the way to the result whose bits are pure ORs of difference bits
          delta(i,j) = tag1[i].j xor tag2[i].j  (so D == 0 iff all those deltas are 0);
      (2) the deltas OR-ed into D are exactly all 64;
      (3) the fold D -> result is evaluated exhaustively over every realisable value of D: 0 -> 0, else -> -1.
    If D's bits are not in OR form (e.g. an XOR accumulation) a low-weight witness search over the exact
    term of the result decides: an accepted non-zero difference is a violation; otherwise unknown idiom."""
    from .. import irx
    f = mod.fn(CT)
    names = [p["name"] for p in f.params]
    try:
        pi, li, t1, t2, si = [names.index(x) for x in ("plaintext", "plaintext_len", "tag1", "tag2", "size")]
    except ValueError:
        raise Broken("anchor vanished: parameters of %s are %s" % (CT, names))
    where0 = relpath("%s:%d" % (f.file, f.line))

    def _narrowed_len(v, depth=0):
        """v is (a cast chain over) a truncation to fewer than 64 bits of a value computed from the plaintext length"""
        I_ = f.inst(tuple(v)) if isinstance(v, (list, tuple)) and v and v[0] == "i" else None
        if I_ is None or depth > 6:
            return None
        if I_.op == "trunc" and (I_.bits or 64) < 64:
            seen_, st_ = set(), [tuple(I_.ops[0])]
            while st_:
                x_ = st_.pop()
                if x_ in seen_:
                    continue
                seen_.add(x_)
                if x_ == ("a", li):
                    return I_
                J_ = f.inst(x_) if x_ and x_[0] == "i" else None
                if J_ is not None and J_.op in ("and", "or", "xor", "zext", "sext", "trunc", "sub", "add", "select", "freeze", "phi"):
                    st_ += [tuple(o_) for o_ in J_.ops if isinstance(o_, (list, tuple)) and o_ and o_[0] in ("i", "a")]
            return None
        if I_.op in ("zext", "sext", "freeze", "and"):
            for o_ in I_.ops:
                if isinstance(o_, (list, tuple)) and o_ and o_[0] == "i":
                    r_ = _narrowed_len(o_, depth + 1)
                    if r_ is not None:
                        return r_
        return None
    # a wipe delegated to another function: whatever else it does, a length handed on in fewer than 64 bits wipes len mod 2^k bytes only
    for C_ in f.calls():
        if C_.callee and not C_.is_dbg() and not C_.is_lifetime():
            a_ = C_.call_args()
            if a_ and ir.ptr_base(f, tuple(a_[0]))[0] == ("a", pi):
                for x_ in a_[1:]:
                    T_ = _narrowed_len(x_)
                    if T_ is not None:
                        ck.bad("R-C04-WIPE", CT, "wipe-length-narrowed[%s]" % label,
                               "the plaintext buffer is handed to %s with a length truncated from 64 to %d bits: on a rejection only plaintext_len mod 2^%d bytes are wiped, the rest of the candidate plaintext survives"
                               % (C_.callee, T_.bits, T_.bits), where=relpath(C_.where))

    def handler(ex, p, I, callee, args):
        raise Broken("%s calls %s: unrecognised idiom for a constant-time comparison" % (CT, callee))
    ex = irx.Exec(f, handler, unroll=True, arg_consts={si: TAG, li: 0})
    paths = ex.run()
    rets = [p for p in paths if p.end[0] == "ret"]
    datab = [e for p in paths for e in p.events if e[0] in ("cond-data",)]
    def _rw(q):
        return q.end[1] if irx.is_word(q.end[1]) else ex.word(q.end[1], 32, q)
    if len(rets) > 1 and len(rets) == len(paths) and not datab and all(_rw(q) == _rw(rets[0]) for q in rets[1:]):
        # the paths differ only in public tests (alignment of the plaintext buffer with nothing to wipe) and return the same term over the
        # tag bytes: one verdict function, decided on the first path
        paths = rets = rets[:1]
    if len(paths) != 1 or len(rets) != 1:
        # the verdict may still be the right function of the tags (an early exit returns the same value): that is a timing
        # matter (C07), not a verdict matter; the single-summary comparison below cannot decide it
        raise Broken("%s: with size = 8 and no plaintext the function has %d paths - its control flow depends on the tag bytes (early exit?); the verdict function is not decided "
                     "by this rule for such code (constant-time rule C07 reports it)" % (CT, len(paths)))
    p = rets[0]
    R = p.end[1]
    if not irx.is_word(R):
        R = ex.word(R, 32, p)
    A1, A2 = ("arg", t1), ("arg", t2)

    def delta_of(xs):
        """XOR-set {tag1[i].j, tag2[i].j} -> (i, j) or None"""
        if len(xs) != 2:
            return None
        a, b = tuple(xs)
        if a[0] != "v" or b[0] != "v":
            return None
        sa, sb = a[1], b[1]
        if not (isinstance(sa, tuple) and isinstance(sb, tuple) and sa[0] == "mem" and sb[0] == "mem"):
            return None
        if {sa[1], sb[1]} != {A1, A2} or sa[2] != sb[2] or a[2] != b[2]:
            return None
        return (sa[2], a[2])

    def orform(bit):
        """set of deltas OR-ed in this bit, or None if not in OR form"""
        if bit is gf2.TOP:
            return None
        if not bit:
            return set()
        d = delta_of(bit)
        if d is not None:
            return {d}
        if len(bit) == 1:
            (atom,) = tuple(bit)
            if atom[0] == "|":
                out = set()
                for part in atom[1]:
                    dd = delta_of(part)
                    if dd is None:
                        return None
                    out.add(dd)
                return out
        return None

    # candidates: values outside loops, latest first
    cands = []
    for I in reversed(f.insts):
        k = ("i", I.id)
        if k not in p.env or f.blocks[I.b].loop != -1 or not I.bits:
            continue
        v = p.env[k]
        if not irx.is_word(v):
            continue
        forms = [orform(bit) for bit in v]
        if all(x is not None for x in forms) and any(forms):
            cands.append((I, forms))
    # also loop-carried accumulators after the loop: phis in loop headers hold their final value in env
    for I in reversed(f.insts):
        k = ("i", I.id)
        if I.op == "phi" and f.blocks[I.b].loop != -1 and k in p.env and irx.is_word(p.env[k]) and I.bits:
            forms = [orform(bit) for bit in p.env[k]]
            if all(x is not None for x in forms) and any(forms):
                cands.append((I, forms))
    alld = {(i, j) for i in range(TAG) for j in range(8)}

    def fold_env(D, v):
        env = {("i", D.id): v}
        for I in f.insts:
            if f.blocks[I.b].loop != -1 or I.id == D.id:
                continue
            if I.op in ("phi", "br", "ret", "call", "load", "store", "alloca", "getelementptr", "bitcast"):
                continue
            x = _eval(f, I, env)
            if x is not None:
                env[("i", I.id)] = x
        return env
    rets_i = f.rets()
    Rv = rets_i[0].ops[0]
    chosen = None
    for (D, forms) in cands:
        e0 = fold_env(D, 0)
        r0 = int(Rv[1]) if Rv[0] == "c" else e0.get(Rv)
        if r0 is not None:
            chosen = (D, forms)
            break
    if chosen is None:
        # not in OR form: exact-term witness search (tag1 = 0, tag2 = every pattern of weight 1 and 2)
        import itertools
        bits = [(("mem", A2, i), j) for i in range(TAG) for j in range(8)]
        wit = None
        unknown = False
        for wgt in (1, 2):
            for combo in itertools.combinations(bits, wgt):
                asg = {c: 1 for c in combo}
                memo = {}
                val = [gf2.evaluate(bt, asg, memo) for bt in R]
                if any(x is None for x in val):
                    unknown = True
                    break
                if not any(val):
                    wit = combo
                    break
            if wit or unknown:
                break
        if wit:
            ck.bad("R-C03-CMP", CT, "accepts-wrong-tag[%s]" % label,
                   "a tag that differs from the computed one in bit(s) %s is ACCEPTED (result 0): the differences are not OR-accumulated (they cancel)"
                   % ", ".join("byte %d bit %d" % (c[0][2], c[1]) for c in wit), where=where0)
            return 1
        raise Broken("%s: the comparison result is not an OR-accumulation of tag differences and no low-weight counter-example exists: unrecognised idiom" % CT)
    D, forms = chosen
    U = set().union(*forms)
    missing = sorted(alld - U)
    extra = sorted(U - alld)
    ck.ob(not missing, "R-C03-CMP", CT, "all-64-difference-bits[%s]" % label,
          "the value '%s' at %s is zero iff all 64 difference bits tag1[i].j ^ tag2[i].j (i < 8, j < 8) are zero (pure OR of exactly those bits)" % (D.op, relpath(D.where)),
          "a difference in %s goes unnoticed: the accumulated value does not depend on it" % ", ".join("byte %d bit %d" % m for m in missing[:6]), where=relpath(D.where))
    ck.ob(not extra, "R-C03-CMP", CT, "only-tag-bits[%s]" % label, "only the 8 tag bytes enter the comparison", "bytes beyond the 8-byte tags enter the comparison: %s" % extra[:4], where=relpath(D.where))
    # realisable values of D
    nz = [j for j, fm in enumerate(forms) if fm]
    if len(nz) > 16:
        raise Broken("%s: accumulated difference has %d live bits: fold too wide to enumerate" % (CT, len(nz)))
    envs = {}
    nreal = 0
    badacc, badrej = None, None
    for mask_ in range(1 << len(nz)):
        v = 0
        ones, zeros = [], []
        for t, j in enumerate(nz):
            if mask_ >> t & 1:
                v |= 1 << j
                ones.append(j)
            else:
                zeros.append(j)
        forced0 = set().union(*[forms[j] for j in zeros]) if zeros else set()
        if any(not (forms[j] - forced0) for j in ones):
            continue  # not realisable: a set bit whose deltas are all forced to 0
        nreal += 1
        e = fold_env(D, v)
        envs[v] = e
        r = int(Rv[1]) if Rv[0] == "c" else e.get(Rv)
        if v == 0 and r != 0:
            badacc = r
        if v != 0 and r != 0xFFFFFFFF and badrej is None:
            badrej = (v, r)
    ck.ob(badacc is None, "R-C03-CMP", CT, "fold-accept[%s]" % label, "equal tags (accumulated difference 0) -> result 0", "equal tags yield %s instead of 0" % (badacc,), where=relpath(rets_i[0].where))
    ck.ob(badrej is None, "R-C03-CMP", CT, "fold-reject[%s]" % label,
          "every realisable non-zero accumulated difference (%d values, exhaustive) -> result -1" % (nreal - 1),
          "accumulated difference %s yields %s instead of -1: some wrong tags are accepted or mis-reported" % (badrej or ("?", "?")), where=relpath(rets_i[0].where))
    # constant control flow of the compare part is implied by the single path; the wipe is C04's
    wipe_rule(ck, mod, f, label, pi, li, si, envs, only_over=only_over)
    return 1


def _len_derived_unbounded(f, v, li, depth=0, seen=None):
    """v is computed from the length parameter li without passing a small mask or remainder that bounds it"""
    seen = seen if seen is not None else set()
    v = tuple(v)
    if v == ("a", li):
        return True
    if v in seen or v[0] != "i" or depth > 12:
        return False
    seen.add(v)
    J = f.inst(v)
    if J is None:
        return False
    if J.op == "and":
        cs = [const_val(o) for o in J.ops if isinstance(o, (list, tuple)) and o[0] == "c"]
        if cs and 0 <= cs[0] < 256:
            return False
    if J.op in ("urem", "load", "call", "icmp"):
        return False
    if J.op in ("zext", "sext", "trunc", "freeze", "add", "sub", "lshr", "udiv", "and", "phi", "select", "shl", "mul"):
        return any(_len_derived_unbounded(f, o, li, depth + 1, seen) for o in J.ops if isinstance(o, (list, tuple)) and o and o[0] in ("i", "a"))
    return False


def wipe_rule(ck, mod, f, label, pi, li, si, envs, only_over=False):
    from .. import cov
    where0 = relpath("%s:%d" % (f.file, f.line))
    # the wipe covers plaintext_len bytes at its full width: a mask with clear upper bits (0xFFFC for ~3) or a truncation applied to a value
    # computed from the length wipes (length mod 2^k) bytes only (complete: every and / trunc of the function is looked at)
    for I in f.insts:
        k_ = None
        if I.op == "and":
            cs = [const_val(o) for o in I.ops if isinstance(o, (list, tuple)) and o[0] == "c"]
            if cs and cs[0] > 0 and 8 <= cs[0].bit_length() < 64 and (I.bits or 64) == 64:
                k_ = cs[0].bit_length()
        elif I.op == "trunc" and 8 <= (I.bits or 64) < 64:
            k_ = I.bits
        if k_ is not None and any(_len_derived_unbounded(f, o, li) for o in I.ops if isinstance(o, (list, tuple)) and o and o[0] in ("i", "a")):
            ck.bad("R-C04-WIPE", CT, "wipe-length-masked#%s[%s]" % (_an(f, I), label),
                   "a value computed from plaintext_len is cut to %d bits (%s): on a rejection of a message of 2^%d bytes or more only (length mod 2^%d) bytes are wiped" % (k_, I.op, k_, k_),
                   where=relpath(I.where))
    # (1) coverage: the stores to the plaintext buffer tile exactly [0, plaintext_len) in every (alignment, length) class
    n, bad, used = cov.coverage(f, pi, li, fixed_args={si: TAG}, only_over=only_over)
    ck.ob(bad is None, "R-C04-WIPE", CT, "wipe-coverage[%s]" % label,
          ("the stores to the plaintext buffer stay inside bytes [0, plaintext_len) in all %d (alignment, length) classes " if only_over else
           "the stores to the plaintext buffer cover exactly bytes [0, plaintext_len) in all %d (alignment, length) classes ") % n +
          "(lengths 0..63 individually, residues mod 8 for longer ones; trip counts from ScalarEvolution)",
          "for %s: %s - on a rejection %s" % (bad[0] if bad else "", bad[1] if bad else "",
                                              "candidate plaintext survives or memory beyond the buffer is modified"), where=where0)
    stores = [I for I in f.insts if I.op == "store" and I.id in used]
    ck.ob(bool(stores), "R-C04-WIPE", CT, "wipe-stores[%s]" % label, "%d store(s) write the plaintext buffer" % len(stores), "nothing writes the plaintext buffer", where=where0)
    for S in stores:
        lds = [I for I in f.insts if I.op == "load" and _same_addr(f, I.ops[0], S.ops[1]) and (I.b == S.b or (f.blocks[I.b].loop == f.blocks[S.b].loop and f.dominates(I.id, S.id)))]
        if len(lds) != 1:
            ck.bad("R-C04-WIPE", CT, "wipe-value#%s[%s]" % (_an(f, S), label), "the store does not combine the bytes already at the same address", where=relpath(S.where))
            continue
        ldi = lds[0]
        w = 8 * S.get("size")
        leaves = {}

        def leaf(v, ldi=ldi, w=w, leaves=leaves):
            if v == ("i", ldi.id):
                return gf2.sym_word("p", w)
            I = f.inst(v)
            if I is not None and f.blocks[I.b].loop == -1 and I.bits and I.op not in ("zext", "trunc", "sext", "and", "or", "xor"):
                leaves[v] = I
                return gf2.sym_word(("m", v[1]), I.bits)
            return None
        G2 = gf2.Gf2(f, leaf)
        got = G2.ev(S.ops[0])
        okv = True
        used_mask_bits = []
        for j in range(w):
            bit = got[j] if j < len(got) else None
            if bit is None or bit is gf2.TOP:
                raise Broken("%s: bit %d of a value stored into the plaintext buffer is not representable in the term domain: the wipe is not decided" % (CT, j))
            ok1 = False
            if bit is not None and bit is not gf2.TOP and len(bit) == 1:
                (atom,) = tuple(bit)
                if atom[0] == "&":
                    parts = list(atom[1])
                    if len(parts) == 2:
                        for x, y in ((parts[0], parts[1]), (parts[1], parts[0])):
                            if x == frozenset([("v", "p", j)]) and len(y) == 1:
                                (ya,) = tuple(y)
                                if ya[0] == "v" and isinstance(ya[1], tuple) and ya[1][0] == "m":
                                    used_mask_bits.append((("i", ya[1][1]), ya[2]))
                                    ok1 = True
            if not ok1:
                okv = False
                break
        ck.ob(okv, "R-C04-WIPE", CT, "wipe-value#%s[%s]" % (_an(f, S), label), "stored bit j = old bit j AND one mask bit, for all %d bits" % w,
              "the stored value is not (old bytes & mask): bit %s is %s" % (j, gf2.describe(got[j]) if j < len(got) else "?"), where=relpath(S.where))
        if okv:
            okm = True
            why = ""
            for (mv, k) in set(used_mask_bits):
                for a, env_a in envs.items():
                    va = env_a.get(mv)
                    if a == 0:
                        if va is None or not (va >> k) & 1:
                            okm, why = False, "mask bit %d is not 1 when the tags match" % k
                    elif va is None or (va >> k) & 1:
                        okm, why = False, "mask bit %d is not 0 for accumulated difference %d (a rejection)" % (k, a)
                        break
            ck.ob(okm, "R-C04-WIPE", CT, "wipe-mask#%s[%s]" % (_an(f, S), label),
                  "every mask bit used is 1 on accept and 0 for each realisable non-zero accumulated difference (%d values)" % (len(envs) - 1), "mask is wrong: %s" % why, where=relpath(S.where))


def _same_addr(f, a, b, depth=0):
    """the same SSA pointer, or two address computations with pairwise the same operands (`p[i] = p[i] & mask` computes &p[i] twice)"""
    if tuple(a) == tuple(b):
        return True
    A, B = f.inst(tuple(a)), f.inst(tuple(b))
    if A is None or B is None or depth > 3 or A.op != B.op or A.op not in ("getelementptr", "bitcast", "zext", "sext") or len(A.ops) != len(B.ops):
        return False
    if A.op == "getelementptr" and (A.get("srcty"), A.get("off"), A.get("var")) != (B.get("srcty"), B.get("off"), B.get("var")):
        return False
    return all((isinstance(x, (list, tuple)) and isinstance(y, (list, tuple)) and _same_addr(f, x, y, depth + 1)) or x == y for x, y in zip(A.ops, B.ops))


def _an(f, I):
    return "%s%d" % (I.op, sum(1 for J in f.insts[:I.id] if J.op == I.op))


def _scev_base(f, v):
    I = f.inst(v)
    if I is None:
        return v
    sc = I.get("scev")
    if sc and sc.get("k") == "rec" and sc["ops"][0].get("k") == "u":
        return tuple(sc["ops"][0]["v"])
    if sc and sc.get("k") == "rec" and sc["ops"][0].get("k") == "add":
        for o in sc["ops"][0]["ops"]:
            if o.get("k") == "u":
                return tuple(o["v"])
    b, o = ir.ptr_base(f, v)
    return b


def _eval(f, I, env):
    if I.op == "ashr":
        a = I.ops[0]
        av = int(a[1]) if a[0] == "c" else env.get(a)
        s = I.ops[1]
        if av is None or s[0] != "c":
            return None
        bits = I.bits
        if av >> (bits - 1):
            av -= 1 << bits
        return (av >> int(s[1])) & ((1 << bits) - 1)
    return fin.eval_inst(f, I, env)


class _Only03:
    """C03 claims only its own rules; the R-C04-* obligations computed on the way belong to C04"""

    def __init__(self, ck):
        self._ck = ck

    def ob(self, cond, rule, *a, **k):
        return cond if rule.startswith("R-C04") else self._ck.ob(cond, rule, *a, **k)

    def ok(self, rule, *a, **k):
        if not rule.startswith("R-C04"):
            self._ck.ok(rule, *a, **k)

    def bad(self, rule, *a, **k):
        if not rule.startswith("R-C04"):
            self._ck.bad(rule, *a, **k)

    def __getattr__(self, n):
        return getattr(self._ck, n)


def run(ck, build, only_c04=False):
    ck.rule("R-C03-GUARD", "D-FIN on clen: classes 0..7 return a negative value before any load/store/call")
    ck.rule("R-C03-MUST", "for every clen class >= 8 every path returns exactly the result of the single check_tag call (no other return, no rewriting of the verdict)")
    ck.rule("R-C03-ARGS", "at the 6 call sites: size = 8; tag1 = 8-byte local filled by generate_tag on every path; tag2 = c + clen - 8 proven by affine cursor/length lock-step over all residues")
    ck.rule("R-C03-CMP", "check_tag under the call-site constant size = 8: symbolic evaluation in the GF(2)/OR term domain; the last pure value D on the way to the result is an OR of exactly "
            "the 64 difference bits tag1[i].j ^ tag2[i].j (so D = 0 iff the tags are equal); the fold D -> result is evaluated exhaustively on every realisable value of D (0 -> 0, rest -> -1); "
            "a non-OR accumulation is refuted by an explicit low-weight counter-example on the exact result term")
    ck.not_decided += ["the 2^-64 forgery bound", "sensitivity of the computed tag to every input bit (a property of the cipher; the mode structure is C02's)"]
    ck.assume("distinct pointer parameters do not overlap (except c == m); size_t arithmetic on lengths does not wrap")
    from . import modecommon
    if modecommon.nostate_rule(ck, build, "R-C03-NOSTATE", ("aead",), "the three AEAD decrypt entry points (and the encrypt functions sharing their helpers)"):
        return
    mod = Module(build.facts("H", "N0"))
    ck.config("H", "N0")
    label = "H/N0"
    # the property is about the three AEAD decrypt functions (and the helpers they share with SIV); the SIV decrypt functions are C08's, which
    # re-runs these rules on them under its own name
    fns = dec_fns(mod, kinds=("aead",))
    ck.floor("R-C03", "decrypt entry points", len(fns), 3)
    n = 0
    o3 = _Only03(ck)
    for f in fns:
        n += guard_and_must(o3, f, label)
        args_rule(o3, mod, f, label)
    cmp_rule(o3, mod, label)
    ck.floor("R-C03-GUARD", "clen classes explored", n, 30)
    # every ciphertext bit can influence the verdict (mode summaries of the decrypt functions; optional where their shape is not recognised)
    from . import aeadlib
    ck.rule("R-C03-SENS", "per path class of every decrypt function (symbolic summaries, permutation uninterpreted): each ciphertext bit of the segment occurs in the term of the "
            "corresponding recovered plaintext bit and, for the one-pass AEAD, in the state the tag is generated from - a mask that drops a bit (0x7FFF for 0xFFFF) makes "
            "tampering with that bit invisible to the authentication")
    ns = 0
    for f in aeadlib.cipher_fns(mod, ("aead",)):
        if not f.name.endswith("_decrypt"):
            continue
        from . import modecommon as _mc
        _mc.keyinit_rule(ck, f, "R-C03-KEY", label)
        try:
            before = len(ck.obligations)
            aeadlib.check_cipher(ck, mod, f, label, {"SENS": "R-C03-SENS", "KEYINJ": "R-C03-KEY", "NARROW": "R-C03-ABSORB", "NONCEARG": "R-C03-KEY"})
            ns += len(ck.obligations) - before
        except Broken as e:
            ck.note("sensitivity clause not decided for %s (shape not recognised by the mode summaries): %s" % (f.name, str(e)[:160]))
            ns += 10
    ck.rule("R-C03-KEY", "premise of 'a modified key or nonce is rejected': in every decrypt function the key words the cipher runs on are an injective function of the key bytes (rank of the "
            "GF(2)-linear map; a key byte dropped or read twice alike in both directions keeps every relational rule), and every bit of the 12 nonce bytes enters the state in every path class "
            "of the shared setup function")
    for ks_ in ("128", "192", "256"):
        snap_ = ck.snapshot()
        try:
            aeadlib.check_setup_function(ck, mod, ks_, label, {"SETUPSENS": "R-C03-KEY"})
        except Broken as e:
            ck.rollback(snap_)
            ck.note("nonce sensitivity of tinyjambu_setup_%s not decided: %s" % (ks_, str(e)[:160]))
    ck.rule("R-C03-DUAL", "premise of 'succeeds if the trailing 8 bytes equal the tag encryption yields for the same key, nonce, associated data and recovered plaintext': decrypt recomputes "
            "exactly the tag encrypt computes - the relational rules of C01 re-run: per path class and, as straight paths, for every message length 0..80, decrypt applied to "
            "encrypt's output terms regenerates the stored tag bit for bit.  A deviation in decrypt alone rejects genuine packets")
    from . import duallib, modecommon as _mc2

    class _TagSide:
        """of the relational obligations, the ones about what decrypt authenticates (calls, states, the regenerated tag, the verdict); that the
        plaintext bytes handed back are the original ones is C01's / C08's clause, not this one"""

        def __init__(self, ck_):
            self._ck = ck_

        def ob(self, cond, rule, fn, cons, ok_, bad_, **k):
            if not cond and ("-recover" in cons or "-enc-out" in cons or "decrypt(encrypt(x)) byte" in bad_):
                return cond
            return self._ck.ob(cond, rule, fn, cons, ok_, bad_, **k)

        def __getattr__(self, n_):
            return getattr(self._ck, n_)
    ckd = _TagSide(ck)
    for kind_, small_, pm_ in (("aead", duallib.check_pair_small, {"MODE": "R-C03-DUAL", "PREFIX": "R-C03-DUAL"}),):
        snap_ = ck.snapshot()
        try:
            for ks_ in ("128", "192", "256"):
                small_(ckd, mod, ks_, label, {"SMALLRT": "R-C03-DUAL"}, maxlen=(288 if ck.tier == "thorough" else 80))
        except Broken as e:
            ck.rollback(snap_)
            ck.note("relational small-length rule (%s) not decided: %s" % (kind_, str(e)[:160]))
        snap_ = ck.snapshot()
        try:
            _mc2.run_pairs(ckd, mod, (kind_,), pm_)
        except Broken as e:
            ck.rollback(snap_)
            ck.note("pairwise comparison (%s) not decided: %s" % (kind_, str(e)[:160]))
    ck.rule("R-C03-ABSORB", "premise of 'modified associated data is rejected': the shared absorb function leaves a state that is an injective function of the bytes of every segment "
            "(word, 1-, 2- and 3-byte tail; rank of the GF(2)-linear map the bytes enter by, or a concrete pair of inputs absorbed alike) - per path class and for every size 0..24 as straight paths")
    aeadlib.absorb_injective_rule(ck, mod, label, "R-C03-ABSORB")
    # positive control
    fx = Module(build.fixture_facts(os.path.join(os.path.dirname(os.path.dirname(os.path.dirname(__file__))), "fixtures", "c03_bad.c")))
    sub = type(ck)("C03-fixture")
    cmp_rule(sub, fx, "fixture")
    for g in dec_fns(fx):
        guard_and_must(sub, g, "fixture")
        args_rule(sub, fx, g, "fixture")
    got = {v["construct"].split("[")[0].split("(")[0] for v in sub.violations}
    for want in ("all-64-difference-bits", "short-input", "received-tag-position"):
        ck.control("c03_bad.c:" + want, want in got, "got %s" % sorted(got))
    ck.coverage_extra.update({"decrypt_functions": [f.name for f in fns], "clen_classes": n, "accumulator_values_folded": 256,
                              "exhaustive": True, "exhaustive_over": "clen classes w.r.t. compared constants; all 256 accumulator values; all call sites"})
