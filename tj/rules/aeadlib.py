"""Comparison of every mode-level function (setup / absorb / generate_tag for 3 key sizes, AEAD and SIV
encrypt / decrypt for 3 key sizes) with the reference model of tj/mode.py, path class by path class.

Generic rule names emitted (mapped to property rule ids by C01/C02/C08/C09):
  MODE    constants (frame bits, round counts), permutation inputs, absorbed / emitted bit provenance, state after
  LEN     length out-parameter
  PREFIX  key unpacking and setup/absorb calls before the data loop
  ADVANCE cursors and remaining length move in lock-step; loop guard
  TAGPOS  where the tag is written / read
  INPLACE load-before-store per byte (exact aliasing c == m)
  OUTRANGE nothing is written outside the documented output range on any path
  INRANGE nothing is read beyond the declared input (memory safety only: C06)
  SENS    decrypt: every ciphertext bit reaches the recovered plaintext and (AEAD) the authenticated state (C03: tampering is noticed)
  NONCE2  SIV second-pass nonce composition
  WIPESTART check_tag receives the start of the plaintext buffer (C04's R-C04-ARGS decides it; listed for C02/C09 conformance only)
  RT      decrypt returns check_tag's verdict on the tag just generated; no unresolved access (needed by the round trip whatever the cipher is)
"""
import re
from ..build import Broken
from ..facts import relpath
from .. import gf2, irx, mode, ir
from ..irx import Lf, is_word
from ..mode import KR, P640

VREM = {}
FN_RE = re.compile(r"tinyjambu_(128|192|256)_(aead|siv)_(encrypt|decrypt)$")


def W(c):
    return gf2.const_word(c, 32)


class Ctx:
    def __init__(self, ck, f, label, rulemap):
        self.ck, self.f, self.label, self.rulemap = ck, f, label, rulemap
        self.where = relpath("%s:%d" % (f.file, f.line))

        self.pending = None

    def defer(self):
        """structure first: obligations are held back until the whole function has been recognised (flush); a shape that is
        not recognised (Broken) then leaves no verdicts behind that were computed under a wrong reading of the code"""
        self.pending = []

    def flush(self):
        pend, self.pending = self.pending or [], None
        for a in pend:
            self.ck.ob(*a[0], **a[1])

    def ob(self, cond, rule, construct, ok, bad, where=None):
        r = self.rulemap.get(rule)
        if r is None:
            return cond
        if self.pending is not None:
            self.pending.append(((cond, r, self.f.name, "%s[%s]" % (construct, self.label), ok, bad), {"where": where or self.where}))
            return cond
        return self.ck.ob(cond, r, self.f.name, "%s[%s]" % (construct, self.label), ok, bad, where=where or self.where)


def _index_exit_value(f, ps):
    """index-based data loop `for (X = 0; X < B; X += s)` with B a multiple of s: when the loop is left, X == B (X stays a multiple of s
    and never passes B).  Returns {header: (phi id, B)} so that the paths after the loop can be analysed with that value, or {}"""
    heads = {p.end[1] for p in ps if p.end[0] in ("loop-entry", "backedge")}
    out = {}
    for h in heads:
        ptrs, ints = hd_syms(f, h)
        if ptrs or len(ints) != 1:
            continue
        X = ("hd", ints[0].id)
        ent = [p for p in ps if p.end[0] == "loop-entry" and p.end[1] == h and p.blocks and p.blocks[0] == 0]
        back = [p for p in ps if p.end[0] == "backedge" and p.end[1] == h]
        if not ent or not back:
            continue
        if any(is_word(p.env.get(("init", ints[0].id))) or p.env.get(("init", ints[0].id)) is None or p.env.get(("init", ints[0].id)).const() != 0 for p in ent):
            continue
        Bs = set()
        okb = True
        for p in back:
            bn = p.env.get(("back", ints[0].id))
            step = bn.add(Lf.s(X), -1).const() if bn is not None and not is_word(bn) else None
            g = [cc for cc in p.conds if cc[0] == "ult" and cc[2] and cc[1] is not None and cc[1].get(X) == 1]
            if not step or step < 1 or len(g) != 1:
                okb = False
                break
            B = Lf.s(X).add(g[0][1], -1)                 # X < B  <=>  (X - B) <u 0 ... recorded as d = X - B
            if X in B or any(c_ % step for s_, c_ in B.items()):
                okb = False
                break
            Bs.add(repr(B))
            Bv = B
        if okb and len(Bs) == 1:
            out[h] = (ints[0].id, Bv)
    return out


AUX = {}        # (function name, loop head) -> ids of loop-carried helper integers whose finite orbit is enumerated (see _aux_orbit)


def _aux_orbit(f, klen, word_args, ex, ps):
    """a data loop that carries, besides its cursors and the remaining length, a helper integer that starts at a constant and whose value
    at the next visit of the head is again a constant on every iteration path (a fill index of a staging buffer that is - or is not -
    reset per round): its values form a finite orbit {v0, v1, ...}, each of them reachable.  The generic iteration is evaluated once per
    orbit value.  Returns (ex, ps) with the iteration paths of all orbit values, or None when the function has no such integer."""
    heads = sorted({p.end[1] for p in ps if p.end[0] in ("loop-entry", "backedge")})
    for h in heads:
        AUX.pop((f.name, h), None)
    found = None
    for h in heads:
        ptrs, ints = hd_syms(f, h)
        if len(ints) < 2 or not ptrs:
            continue
        ent = [p for p in ps if p.end[0] == "loop-entry" and p.end[1] == h]
        if not ent:
            continue
        aux = []
        for I in ints:
            vals = {repr(p.env.get(("init", I.id))) for p in ent}
            v0 = ent[0].env.get(("init", I.id))
            if len(vals) == 1 and v0 is not None and not is_word(v0) and v0.const() is not None:
                aux.append((I, v0.const()))
        if len(aux) != 1 or len(ints) - len(aux) != 1 or found is not None:
            return None
        found = (h, aux[0][0], aux[0][1])
    if found is None:
        return None
    h, I, v0 = found
    orbit, todo, runs = [], [v0], {}
    while todo:
        v = todo.pop(0)
        if v in orbit:
            continue
        if len(orbit) >= 6:
            raise Broken("%s: the helper integer carried by the data loop takes more than 6 values: not enumerated" % f.name)
        orbit.append(v)
        ex_v = irx.Exec(f, mode.Handler(klen), mode.havoc_state(klen // 32), word_args=word_args, auto=True, unrotate=True, split_max=32, head_consts={I.id: v}, endptr=True)
        ps_v = ex_v.run()
        runs[v] = (ex_v, ps_v)
        for p in ps_v:
            if p.end[0] == "backedge" and p.end[1] == h and p.blocks and p.blocks[0] == h:
                b_ = p.env.get(("back", I.id))
                if b_ is None or is_word(b_) or ex_v.subst(p, b_).const() is None:
                    raise Broken("%s: the helper integer carried by the data loop does not come back as a constant (%s): not enumerated" % (f.name, b_))
                todo.append(ex_v.subst(p, b_).const())
    AUX[(f.name, h)] = {I.id}
    ex0, ps0 = runs[v0]
    out = [p for p in ps0 if not (p.blocks and p.blocks[0] == h)]
    for v in orbit:
        for p in runs[v][1]:
            if p.blocks and p.blocks[0] == h:
                p.aux = (I.id, v)
                out.append(p)
    ex0.aux_orbit = (h, I.id, orbit)
    return ex0, out


def _congruences(f, ps):
    """loop-carried integers that start at a linear form E of the parameters and move by multiples of g > 1 on every back edge:
    {("hd", id): (E, g)}.  (A remaining length counted down by 4 keeps the message length's residue modulo 4.)"""
    from math import gcd
    out = {}
    heads = sorted({p.end[1] for p in ps if p.end[0] in ("loop-entry", "backedge")})
    for h in heads:
        _ptrs, ints = hd_syms(f, h)
        for X in ints:
            ent = [p for p in ps if p.end[0] == "loop-entry" and p.end[1] == h]
            back = [p for p in ps if p.end[0] == "backedge" and p.end[1] == h]
            if not ent or not back:
                continue
            inits = {repr(p.env.get(("init", X.id))) for p in ent}
            i0 = ent[0].env.get(("init", X.id))
            if len(inits) != 1 or i0 is None or is_word(i0) or i0.const() is not None:
                continue
            g = 0
            ok = True
            for p in back:
                b_ = p.env.get(("back", X.id))
                d_ = b_.add(Lf.s(("hd", X.id)), -1).const() if (b_ is not None and not is_word(b_)) else None
                if d_ is None or d_ == 0:
                    ok = False
                    break
                g = gcd(g, abs(d_))
            if ok and g > 1:
                out[("hd", X.id)] = (i0, g)
    return out


def run_paths(f, klen, word_args=()):
    ex = irx.Exec(f, mode.Handler(klen), mode.havoc_state(klen // 32), word_args=word_args, auto=True, unrotate=True, split_max=32, endptr=True)
    ps = ex.run()
    cg = _congruences(f, ps)
    if cg:
        ex = irx.Exec(f, mode.Handler(klen), mode.havoc_state(klen // 32), word_args=word_args, auto=True, unrotate=True, split_max=32, congr=cg, endptr=True)
        ps = ex.run()
    eq = _index_exit_value(f, ps)
    if eq:
        ex = irx.Exec(f, mode.Handler(klen), mode.havoc_state(klen // 32), word_args=word_args, auto=True, exit_eq=eq, unrotate=True, split_max=32, congr=cg, endptr=True)
        ps = ex.run()
    else:
        ao = _aux_orbit(f, klen, word_args, ex, ps)
        if ao is not None:
            ex, ps = ao
    for k_ in [k_ for k_ in VREM if k_[0] == f.name]:
        del VREM[k_]
    for h_, vr_ in getattr(ex, "vrem", {}).items():
        VREM[(f.name, h_)] = (vr_[0], vr_[1])         # a loop driven by a cursor and an end pointer: (virtual remaining length, the cursor it belongs to)
    for p in ps:
        if any(e[0] == "cond-data" for e in p.events):
            raise Broken("%s branches on data bits: path summaries are not comparable with the reference (constant-time rule C07 decides such code)" % f.name)
    return ex, ps


def calls_of(p, kinds=("P", "SETUP", "ABSORB", "GENTAG", "CHECK")):
    return [e for e in p.events if e[0] in kinds]


def pathname(p):
    r = None
    for s, v in p.eqs.items():
        if isinstance(s, tuple) and s[0] == "hd":
            r = v
    return r


def hd_syms(f, header):
    """loop-head phis: (pointer phis, int phis)"""
    ptrs, ints = [], []
    for iid in f.blocks[header].insts:
        I = f.insts[iid]
        if I.op != "phi":
            break
        if I.id in AUX.get((f.name, header), ()):
            continue
        (ptrs if (I.get("ty") or "").endswith("*") else ints).append(I)
    if not ints and (f.name, header) in VREM:
        import types
        ints = [types.SimpleNamespace(id=VREM[(f.name, header)][0])]
    return ptrs, ints


def data_chains(f, ps):
    """the loops whose trip count depends on the data length, as chains in program order (a bulk loop processing several words per
    iteration may precede the word loop).  Code that tests the alignment of its buffers (or the size of the message) may enter
    different loops: one chain per first loop, each with the paths that belong to it"""
    entry = [p for p in ps if p.end[0] == "loop-entry" and p.blocks and p.blocks[0] == 0]
    if not entry:
        raise Broken("%s: no path from the function entry reaches a data loop: unrecognised shape" % f.name)
    firsts = []
    for p in entry:
        if p.end[1] not in firsts:
            firsts.append(p.end[1])
    chains = []
    covered = set()
    for h0 in firsts:
        heads = []
        cur = h0
        while cur is not None and cur not in heads:
            heads.append(cur)
            nxt = {p.end[1] for p in ps if p.end[0] == "loop-entry" and p.blocks and p.blocks[0] == cur and p.end[1] != cur}
            if len(nxt) > 1:
                raise Broken("%s: a data loop is followed by %d alternative loops: unrecognised shape" % (f.name, len(nxt)))
            cur = next(iter(nxt)) if nxt else None
        covered |= set(heads)
        sub = [p for p in ps if (p.blocks and p.blocks[0] in heads) or (p.blocks and p.blocks[0] == 0 and (p.end[0] != "loop-entry" or p.end[1] == h0)) or not p.blocks]
        chains.append({"heads": heads, "ps": sub})
    allh = {p.end[1] for p in ps if p.end[0] in ("loop-entry", "backedge")}
    if allh != covered:
        raise Broken("%s: the loops that depend on the data length do not form chains from the function entry (%d found, %d chained): unrecognised shape" % (f.name, len(allh), len(covered)))
    return chains


def data_loops(f, ps):
    """heads of the single chain of data loops (callers that do not handle alternatives)"""
    ch = data_chains(f, ps)
    if len(ch) != 1:
        raise Broken("%s: %d alternative chains of data loops: unrecognised shape" % (f.name, len(ch)))
    return ch[0]["heads"]


def word_steps(r):
    """the 4-byte steps of a segment of r bytes (r < 4: one partial step)"""
    if r < 4:
        return [(0, r)] if r else []
    return [(4 * k, 4) for k in range(r // 4)] + ([(4 * (r // 4), r % 4)] if r % 4 else [])


def main_loop(f, ps):
    """the data loop: the only loop the path executor could not simply follow (its trip count depends on the message length);
    helper loops with a trip count decided by the path (copying the 1..3 left-over bytes ...) are followed and do not count"""
    heads = {p.end[1] for p in ps if p.end[0] in ("loop-entry", "backedge")}
    if len(heads) != 1:
        raise Broken("%s: expected exactly one loop whose trip count depends on the data length, found %d (of %d loops): unrecognised shape" % (f.name, len(heads), len(f.loops)))
    return next(iter(heads))


def residue_cases(ex, p, rem, fname, top=3):
    """the residues 0..top a tail path stands for: the one its conditions fix, or - when the code does not branch on every
    residue - each value its conditions leave possible (the path is then checked once per value)"""
    r = p.eqs.get(rem)
    if r is not None:
        return [r]
    lo, hi, excl = ex._range(p, Lf({rem: 1}))
    if hi is None or lo is None or lo < 0 or hi > top:
        raise Broken("%s: a path leaves the data loop with the remaining length not bounded to 0..%d by its conditions: unrecognised shape" % (fname, top))
    return [x for x in range(lo, hi + 1) if x not in excl]


def problems(p):
    return [e for e in p.events if e[0] in ("load-unknown", "store-unknown", "read-uninit")]


def narrowed_lengths(f, ps):
    """instructions that truncate a length-derived value without a bound on the path - except where only the length handed to check_tag
    is narrowed (the wipe extent is C04's R-C04-ARGS, not a mode matter)"""
    out = {}
    for p in ps:
        for e in p.events:
            if e[0] == "narrowing" and e[1] not in out:
                I = f.insts[e[1]]
                users = [J for J in f.insts if any(tuple(o) == ("i", I.id) for o in J.ops if isinstance(o, (list, tuple)))]
                if users and all(J.op == "call" and (J.callee or "") == "tinyjambu_aead_check_tag" for J in users):
                    continue
                if len(e) > 4 and e[4]:
                    raise Broken("%s: a length-derived value (%s) is truncated to %d bits inside a loop; whether it is bounded there depends on conditions established "
                                 "before the loop, which the per-iteration summary does not carry: not decided" % (f.name, e[3], e[2]))
                out[e[1]] = e
    return out


def narrowings(c, f, ps):
    """a length-derived value truncated to a narrower integer without a bound on the path: wrong for large lengths"""
    seen = set()
    for p in ps:
        for e in p.events:
            if e[0] == "narrowing" and e[1] not in seen:
                I = f.insts[e[1]]
                users = [J for J in f.insts if any(tuple(o) == ("i", I.id) for o in J.ops if isinstance(o, (list, tuple)))]
                if users and all(J.op == "call" and (J.callee or "") == "tinyjambu_aead_check_tag" for J in users):
                    continue        # only the length handed to check_tag is narrowed: the wipe extent is C04's (R-C04-ARGS), not a mode matter
                if len(e) > 4 and e[4]:
                    raise Broken("%s: a length-derived value (%s) is truncated to %d bits inside a loop; whether it is bounded there depends on conditions established "
                                 "before the loop, which the per-iteration summary does not carry: not decided" % (f.name, e[3], e[2]))
                seen.add(e[1])
                c.ob(False, "NARROW" if "NARROW" in c.rulemap else "ADVANCE", "length-narrowed#%s" % I.id, "",
                     "the length-derived value %s is truncated to %d bits with no bound on this path: for lengths >= 2^%d the number of blocks processed is wrong"
                     % (e[3], e[2], e[2]), where=relpath(I.where))
    return len(seen)


# ---------------------------------------------------------------------------
def check_setup(ck, mod, ks, label, rulemap):
    klen = int(ks)
    f = mod.fn("tinyjambu_setup_%s" % ks)
    c = Ctx(ck, f, label, rulemap)
    pass  # (single straight path: the shape is checked before any obligation is recorded)
    di = f.param_index("domain")
    ex, ps = run_paths(f, klen, word_args=[di] if di is not None else [])
    rets = [p for p in ps if p.end[0] == "ret"]
    if len(rets) != len(ps) or not rets:
        raise Broken("%s: expected straight paths, found %d paths of which %d return (a loop over data of unknown length?)" % (f.name, len(ps), len(rets)))
    n = 0
    for i_, p in enumerate(rets):
        # (one path per class the code distinguishes - e.g. the alignment of the nonce pointer: every class must conform)
        cc_ = c if len(rets) == 1 else Ctx(ck, f, "%s/path-class-%d-of-%d" % (label, i_ + 1, len(rets)), rulemap)
        n += _check_setup_path(cc_, f, ex, p, klen, di)
    return n


def check_setup_function(ck, mod, ks, label, rulemap):
    """RELATIONAL premise of the round trip (nothing is compared with the specification): the shared setup function computes the same
    state from (key words, domain, the twelve nonce BYTES) on every path class it distinguishes (alignment of the nonce pointer ...),
    so that encrypt and decrypt - called with the same nonce at different addresses - start from the same state; and (SETUPSENS) every
    nonce bit enters that state, a necessary condition for a modified nonce to be rejected"""
    klen = int(ks)
    f = mod.fn("tinyjambu_setup_%s" % ks)
    c = Ctx(ck, f, label, rulemap)
    di = f.param_index("domain")
    ex, ps = run_paths(f, klen, word_args=[di] if di is not None else [])
    rets = [p for p in ps if p.end[0] == "ret"]
    if len(rets) != len(ps) or not rets:
        raise Broken("%s: expected straight paths, found %d paths of which %d return" % (f.name, len(ps), len(rets)))
    st = ("arg", 0)

    def sig(p):
        P = [e for e in p.events if e[0] == "P"]
        fin = mode.state_obj_words(ex, p, st, 4)
        words = [w for e in P for w in e[3]] + [tuple(w) for w in fin]
        if any(b is gf2.TOP for w in words for b in w):
            raise Broken("%s: a path computes state bits the bit-provenance domain cannot represent" % f.name)
        return tuple((e[6], e[2], e[3], e[4]) for e in P), tuple(tuple(w) for w in fin)
    sigs = [sig(p) for p in rets]
    bad = [i for i, s_ in enumerate(sigs) if s_ != sigs[0]]
    c.ob(not bad, "SETUPFN", "setup-paths-agree", "all %d path class(es) of the setup function run the same permutation calls on the same inputs and leave the same state, as terms over key, domain "
         "and nonce bytes" % len(rets), "path class(es) %s of %d compute a different state from the same nonce bytes than class 1 (the result depends on where the nonce is stored): %s"
         % ([i + 1 for i in bad], len(rets), mode.first_diff([list(w) for w in sigs[bad[0]][1]], [list(w) for w in sigs[0][1]]) if bad else ""))
    nonce = ("arg", f.param_index("nonce"))
    n = 1
    for i, (pe, fin) in enumerate(sigs):
        memo = {}
        sup = set()
        for (_nm, _r, sin, _k) in pe:
            for w in sin:
                for b in w:
                    sup |= gf2.support(b, memo)
        for w in fin:
            for b in w:
                sup |= gf2.support(b, memo)
        miss = [(k, b) for k in range(12) for b in range(8) if (("mem", nonce, k), b) not in sup]
        c.ob(not miss, "SETUPSENS", "setup-nonce-sensitive#%d" % (i + 1), "every bit of the 12 nonce bytes enters the state (path class %d)" % (i + 1),
             "nonce byte/bit %s never enter the state on path class %d of %d: a nonce modified there is accepted" % (miss[:3], i + 1, len(rets)))
        n += 1
    return n


def _check_setup_path(c, f, ex, p, klen, di):
    D = gf2.wzext(gf2.sym_word(("argw", di), 8), 32)
    P = [e for e in p.events if e[0] == "P"]
    n = 0
    c.ob(len(P) == 4, "MODE", "setup-permutations", "four permutation calls (key setup + 3 nonce words)", "%d permutation calls instead of 4" % len(P))
    if len(P) != 4:
        return 1
    S = [W(0)] * 4
    nonce = ("arg", f.param_index("nonce"))
    for i, e in enumerate(P):
        want_r = KR[klen] if i == 0 else P640
        want_in = S if i == 0 else [S[0], gf2.wxor(S[1], D), S[2], S[3]]
        got_in = [list(w) for w in e[3]]
        c.ob(e[2] == want_r, "MODE", "setup-rounds#%d" % i, "permutation %d runs %d rounds (%d steps)" % (i, want_r, 128 * want_r),
             "permutation %d of setup runs %s rounds, specification says %d" % (i, e[2], want_r), where=relpath(f.insts[e[5]].where))
        c.ob(mode.words_eq(got_in, want_in), "MODE", "setup-input#%d" % i,
             "state entering permutation %d is %s" % (i, "all-zero" if i == 0 else "previous state with the domain in word 1"),
             "state entering permutation %d differs from the specification: %s" % (i, mode.first_diff(got_in, want_in)), where=relpath(f.insts[e[5]].where))
        S = mode.Pw(e[1])
        if i >= 1:
            nb = [mode.inbyte(nonce, 4 * (i - 1) + b) for b in range(4)]
            S = [S[0], S[1], S[2], gf2.wxor(S[3], mode.le_bytes(nb, 4))]
        n += 2
    st = ("arg", 0)
    final = mode.state_obj_words(ex, p, st, 4)
    c.ob(mode.words_eq(final, S), "MODE", "setup-final", "final state = last permutation output with nonce word 3 absorbed into word 3 (LE32 of nonce[8..11])",
         "final state differs: %s" % mode.first_diff(final, S))
    c.ob(not problems(p), "MODE", "setup-clean", "no unknown access", "unexpected accesses: %s" % problems(p)[:2])
    return n + 2


def check_gentag(ck, mod, ks, label, rulemap):
    klen = int(ks)
    f = mod.fn("tinyjambu_generate_tag_%s" % ks)
    c = Ctx(ck, f, label, rulemap)
    ex, ps = run_paths(f, klen)
    if len(ps) != 1 or ps[0].end[0] != "ret":
        raise Broken("%s: expected a single straight path" % f.name)
    p = ps[0]
    st = ("arg", 0)
    S = [gf2.sym_word(("mem", st, 4 * i), 8) + gf2.sym_word(("mem", st, 4 * i + 1), 8) + gf2.sym_word(("mem", st, 4 * i + 2), 8) + gf2.sym_word(("mem", st, 4 * i + 3), 8) for i in range(4)]
    P = [e for e in p.events if e[0] == "P"]
    c.ob(len(P) == 2, "MODE", "tag-permutations", "two permutation calls", "%d permutation calls instead of 2" % len(P))
    if len(P) != 2:
        return 1
    tagobj = ("arg", 1)
    outs = mode.outs_of(p)
    n = 0
    for i, e in enumerate(P):
        want_r = KR[klen] if i == 0 else P640
        want_in = mode.fb(S, 0x70)
        got_in = [list(w) for w in e[3]]
        c.ob(e[2] == want_r, "MODE", "tag-rounds#%d" % i, "tag permutation %d runs %d rounds" % (i, want_r),
             "tag permutation %d runs %s rounds, specification says %d" % (i, e[2], want_r), where=relpath(f.insts[e[5]].where))
        c.ob(mode.words_eq(got_in, want_in), "MODE", "tag-input#%d" % i, "frame bits 0x70 added to word 1 before permutation %d" % i,
             "state entering tag permutation %d differs: %s" % (i, mode.first_diff(got_in, want_in)), where=relpath(f.insts[e[5]].where))
        S = mode.Pw(e[1])
        for b in range(4):
            got = outs.get((tagobj, 4 * i + b))
            want = S[2][8 * b: 8 * b + 8]
            c.ob(got == want, "MODE", "tag-byte#%d" % (4 * i + b), "tag[%d] = byte %d of state word 2" % (4 * i + b, b),
                 "tag[%d] is %s, specification says byte %d of word 2" % (4 * i + b, gf2.describe(got[0]) if got else "not written", b))
        n += 6
    extra = [k for k in outs if k[0] == tagobj and not (0 <= k[1] < 8)]
    c.ob(not extra, "OUTRANGE", "tag-range", "exactly tag[0..7] written", "writes outside tag[0..7]: %s" % extra)
    return n + 1


def injective_in(words, inbytes):
    """is the list of words (terms) an injective function of the symbolic input bytes, everything else held fixed?
    -> (True, None) proven; (False, witness text) refuted with two concrete inputs; (None, why) not decided.
    Linear terms (XOR of input bits and of terms free of input bits): rank over GF(2).  Otherwise evaluation of the terms on a
    structured family of input pairs (a collision found is a genuine one; none found decides nothing)."""
    vars_ = [next(iter(b))[1:] for byte in inbytes for b in byte]          # (sym, i) of every input bit
    vset = set(vars_)
    if not vars_:
        return True, None
    rows = []
    linear = True
    for w in words:
        for bit in w:
            if bit is gf2.TOP:
                return None, "a bit of the absorbed word is not representable"
            m = 0
            for a in bit:
                if a[0] == "v" and (a[1], a[2]) in vset:
                    m |= 1 << vars_.index((a[1], a[2]))
                elif a[0] in ("&", "|") and gf2.support(frozenset([a])) & vset:
                    linear = False
            if m:
                rows.append(m)
    if linear:
        rank = 0
        rows = list(rows)
        for col in range(len(vars_)):
            piv = None
            for i_ in range(rank, len(rows)):
                if rows[i_] >> col & 1:
                    piv = i_
                    break
            if piv is None:
                return False, "input bit %d of byte %d never reaches the state on its own (rank %d of %d): two inputs that differ there are absorbed alike" % (col % 8, col // 8, rank, len(vars_))
            rows[rank], rows[piv] = rows[piv], rows[rank]
            for i_ in range(len(rows)):
                if i_ != rank and rows[i_] >> col & 1:
                    rows[i_] ^= rows[rank]
            rank += 1
        return True, None
    nb = len(inbytes)

    def val(assign_bytes):
        asg = {}
        for k_, byte in enumerate(inbytes):
            for j_, b in enumerate(byte):
                v_ = next(iter(b))
                asg[(v_[1], v_[2])] = (assign_bytes[k_] >> j_) & 1
        out = []
        memo = {}
        for w in words:
            for bit in w:
                out.append(gf2.evaluate(bit, asg, memo))
        return tuple(out)
    bases = [[0] * nb, [0xFF] * nb, [0x80] * nb, [0x7F] * nb]
    for k_ in range(nb):
        for v_ in (0x80, 0xFF, 0x01):
            b_ = [0] * nb
            b_[k_] = v_
            bases.append(b_)
    for base in bases:
        v0 = val(base)
        if None in v0:
            return None, "the absorbed word cannot be evaluated"
        for k_ in range(nb):
            for j_ in range(8):
                other = list(base)
                other[k_] ^= 1 << j_
                if val(other) == v0:
                    return False, "data bytes %s and %s are absorbed alike" % (" ".join("%02x" % x_ for x_ in base), " ".join("%02x" % x_ for x_ in other))
    return None, "the absorbed word is not a linear function of the data and no collision was found among the inputs tried"



def absorb_injective_rule(ck, mod, label, rule):
    """premise of 'modified associated data (SIV: or plaintext) is rejected': the shared absorb function leaves a state that is an injective
    function of the bytes of every segment.  Decided where the absorb function has a recognised shape (per path class) and for every
    size up to 24 as straight paths; a shape that is not recognised is noted, not failed (the conformance checks C02/C09 own that function)"""
    n = 0
    for ks in ("128", "192", "256"):
        for fn_, kw in ((check_absorb_small, {"maxlen": 24}), (check_absorb, {})):
            snap = ck.snapshot()
            try:
                n += fn_(ck, mod, ks, label, {"INJ": rule, "NARROW": rule}, **kw)
            except Broken as e:
                ck.rollback(snap)
                ck.note("injectivity of tinyjambu_absorb_%s not decided by %s: %s" % (ks, fn_.__name__, str(e)[:160]))
    return n



def check_absorb(ck, mod, ks, label, rulemap):
    klen = int(ks)
    f = mod.fn("tinyjambu_absorb_%s" % ks)
    di = f.param_index("domain")
    ri = f.param_index("rounds")
    ex, ps = run_paths(f, klen, word_args=[di])
    if narrowings(Ctx(ck, f, label, rulemap), f, ps):
        return 1
    chains = data_chains(f, ps)
    n = 0
    for i_, ch_ in enumerate(chains):
        # (alternative loops chosen by a test of the data pointer's alignment: each is checked on its own)
        c = Ctx(ck, f, label if len(chains) == 1 else "%s/loop-%d-of-%d" % (label, i_ + 1, len(chains)), rulemap)
        if len(ch_["heads"]) == 1:
            n += _check_absorb_loop(c, f, ex, ch_["ps"], ch_["heads"][0], klen, di, ri)
        else:
            n += _check_absorb_chain(c, f, ex, ch_["ps"], ch_["heads"], klen, di, ri)
    return n


def _check_absorb_chain(c, f, ex, ps, heads, klen, di, ri):
    """several data loops in a row (a bulk loop that absorbs 16 words per round, then the word loop): every loop is driven by the same
    (cursor, remaining size) pair handed on unchanged, an iteration that consumes r bytes absorbs r/4 consecutive words, the tails follow
    the last loop"""
    c.defer()
    D = gf2.wzext(gf2.sym_word(("argw", di), 8), 32)
    S0 = [gf2.sym_word(("S", i), 32) for i in range(4)]
    st = ("arg", 0)
    DATA = ("arg", f.param_index("data"))
    SIZE = Lf.s(("n", f.param_index("size")))
    LI = {}
    for h in heads:
        ptrs, ints = hd_syms(f, h)
        if len(ptrs) != 1 or len(ints) != 1:
            raise Broken("%s: expected one cursor and one remaining length at the head of each of its %d data loops: unrecognised shape" % (f.name, len(heads)))
        LI[h] = (("hdp", ptrs[0].id), ("hd", ints[0].id), ptrs[0].id, ints[0].id)
    n = 0
    seen = set()
    for p in ps:
        ev = calls_of(p)
        h0 = p.blocks[0] if p.blocks else None
        if p.end[0] == "loop-entry" and h0 == 0:
            cur, rem, pid, iid = LI[p.end[1]]
            ini_p, ini_n = p.env.get(("init", pid)), p.env.get(("init", iid))
            okp = ini_p is not None and not is_word(ini_p) and ini_p == Lf.s(DATA) and ini_n == SIZE
            c.ob(okp and not ev and p.end[1] == heads[0], "ADVANCE", "absorb-init", "cursor starts at data, remaining length at size; nothing happens before the first loop",
                 "the first loop starts with cursor=%s remaining=%s / events %s" % (ini_p, ini_n, [e[0] for e in ev]))
            n += 1
            continue
        if h0 not in LI:
            raise Broken("%s: a path class does not start at a data loop head: unrecognised shape" % f.name)
        cur, rem, pid, iid = LI[h0]
        if p.end[0] == "loop-entry":
            c2, r2, pid2, iid2 = LI[p.end[1]]
            ini_p, ini_n = p.env.get(("init", pid2)), p.env.get(("init", iid2))
            c.ob(ini_p == Lf.s(cur) and ini_n == Lf.s(rem) and not ev and not mode.outs_of(p), "ADVANCE", "absorb-handover", "the next loop continues with the same cursor and remaining length; nothing is absorbed in between",
                 "between two loops: cursor %s remaining %s calls %s" % (ini_p, ini_n, [e[0] for e in ev]))
            n += 1
            continue
        P = [e for e in ev if e[0] == "P"]
        if p.end[0] == "backedge":
            if p.end[1] != h0:
                raise Broken("%s: nested data loops: unrecognised shape" % f.name)
            bp, bn = p.env.get(("back", pid)), p.env.get(("back", iid))
            adv = bn.add(Lf.s(rem), -1).const() if bn is not None and not is_word(bn) else None
            if adv is None or adv >= 0 or (-adv) % 4 or -adv > 256:
                raise Broken("%s: an iteration does not consume a whole number of words (remaining changes by %s): unrecognised shape" % (f.name, adv))
            r = -adv
            name = "block%d" % r
            okg = any(cc[0] == "uge" and cc[2] and cc[1] == Lf({rem: 1, 1: -r}) for cc in p.conds) or ex._range(p, Lf({rem: 1}))[0] >= r
            c.ob(okg, "ADVANCE", "absorb-guard(%s)" % name, "%d bytes are absorbed only when at least %d remain" % (r, r), "loop guard is not 'remaining >= %d'" % r)
            c.ob(bp == Lf({cur: 1, 1: r}) and bn == Lf({rem: 1, 1: -r}), "ADVANCE", "absorb-advance(%s)" % name, "cursor += %d and remaining -= %d per iteration" % (r, r),
                 "after an iteration cursor=%s remaining=%s (lock-step broken)" % (bp, bn))
            seen.add(("iter", h0))
            n += 2
        elif p.end[0] == "ret":
            if h0 != heads[-1]:
                raise Broken("%s: the function returns from a loop that is not the last of its data loops: unrecognised shape" % f.name)
            r = p.eqs.get(rem)
            if r is None:
                rc = residue_cases(ex, p, rem, f.name)
                if len(rc) != 1:
                    raise Broken("%s: a tail path does not fix the number of left-over bytes: unrecognised shape" % f.name)
                r = rc[0]
            name = "tail%d" % r
            seen.add(r)
        else:
            continue
        steps = word_steps(r)
        c.ob(len(P) == len(steps), "MODE", "absorb-%s-permutations" % name, "one permutation per word (%d)" % len(steps), "%d permutation(s) where %d word(s) are absorbed" % (len(P), len(steps)))
        if len(P) != len(steps):
            continue
        S = S0
        okin = okr = True
        for e, (off, nb) in zip(P, steps):
            okin = okin and mode.words_eq([list(w) for w in e[3]], [S[0], gf2.wxor(S[1], D), S[2], S[3]])
            okr = okr and e[2] == repr(Lf.s(("n", ri)))
            Q = mode.Pw(e[1])
            x = mode.le_bytes([mode.inbyte(cur, off + j) for j in range(nb)], nb)
            S = [Q[0], Q[1] if nb == 4 else gf2.wxor(Q[1], W(nb)), Q[2], gf2.wxor(Q[3], x)]
        c.ob(okin, "MODE", "absorb-%s-input" % name, "domain added to word 1 before every permutation, on the state the previous word left", "state entering a permutation of the %s differs from the specification" % name)
        c.ob(okr, "MODE", "absorb-%s-rounds" % name, "every permutation runs the caller's round count", "a permutation of the %s does not run the caller's round count" % name)
        final = mode.state_obj_words(ex, p, st, 4)
        c.ob(mode.words_eq(final, S), "MODE", "absorb-%s-state" % name, "the %d byte(s) are xored into word 3 word by word, little-endian%s" % (r, "" if r % 4 == 0 else ", length of the partial word injected into word 1"),
             "state after the %s differs from the specification: %s" % (name, mode.first_diff(final, S)))
        ins = {k for (o, k) in mode.ins_of(p) if o == cur}
        c.ob(ins <= set(range(r)), "INRANGE", "absorb-%s-reads" % name, "reads exactly bytes [0,%d) at the cursor" % r, "reads offsets %s with only %d byte(s) in this segment" % (sorted(ins), r))
        c.ob(not problems(p), "MODE", "absorb-%s-clean" % name, "no unknown access", "unexpected accesses: %s" % problems(p)[:2])
        n += 6
    if seen != {0, 1, 2, 3} | {("iter", h) for h in heads}:
        raise Broken("%s: the path classes found (%s) are not the residues 0..3 plus one generic iteration per loop: unrecognised shape" % (f.name, sorted(seen, key=repr)))
    c.ob(True, "ADVANCE", "absorb-classes", "all residue classes 0..3 and the generic iteration of each of the %d loops are handled" % len(heads), "")
    c.flush()
    return n + 1


def check_absorb_small(ck, mod, ks, label, rulemap, maxlen=100):
    """tinyjambu_absorb_N for EVERY size 0..maxlen as straight path(s) (size concrete, data symbolic): whatever the loop structure"""
    klen = int(ks)
    f = mod.fn("tinyjambu_absorb_%s" % ks)
    c = Ctx(ck, f, label, rulemap)
    di, ri, si = f.param_index("domain"), f.param_index("rounds"), f.param_index("size")
    DATA = ("arg", f.param_index("data"))
    st = ("arg", 0)
    D = gf2.wzext(gf2.sym_word(("argw", di), 8), 32)
    bad = badr = badinj = injund = None
    npaths = 0
    for L in range(maxlen + 1):
        ex = irx.Exec(f, mode.Handler(klen), mode.havoc_state(klen // 32), word_args=[di], auto=True, unrotate=True, split_max=32, arg_consts={si: L})
        for p in ex.run():
            if p.end[0] != "ret" or any(e[0] == "cond-data" for e in p.events) or problems(p):
                raise Broken("%s: with size %d a path does not run straight through to the return: not decided by the small-length rule" % (f.name, L))
            npaths += 1
            S = [gf2.sym_word(("mem", st, 4 * i), 8) + gf2.sym_word(("mem", st, 4 * i + 1), 8) + gf2.sym_word(("mem", st, 4 * i + 2), 8) + gf2.sym_word(("mem", st, 4 * i + 3), 8) for i in range(4)]
            P = [e for e in p.events if e[0] == "P"]
            steps = word_steps(L)
            why = None
            if len(P) != len(steps):
                why = "%d permutation(s) where the data has %d word(s)" % (len(P), len(steps))
            else:
                for e, (off, nb) in zip(P, steps):
                    if not mode.words_eq([list(w) for w in e[3]], [S[0], gf2.wxor(S[1], D), S[2], S[3]]):
                        why = why or "state entering the permutation of the word at offset %d: %s" % (off, mode.first_diff([list(w) for w in e[3]], [S[0], gf2.wxor(S[1], D), S[2], S[3]]))
                    if e[2] != repr(Lf.s(("n", ri))):
                        why = why or "the permutation at offset %d runs %s rounds, not the caller's round count" % (off, e[2])
                    Q = mode.Pw(e[1])
                    x = mode.le_bytes([mode.inbyte(DATA, off + j) for j in range(nb)], nb)
                    S = [Q[0], Q[1] if nb == 4 else gf2.wxor(Q[1], W(nb)), Q[2], gf2.wxor(Q[3], x)]
                final = mode.state_obj_words(ex, p, st, 4)
                if why is None and not mode.words_eq(final, S):
                    why = "state after absorbing: %s" % mode.first_diff(final, S)
                if "INJ" in rulemap and badinj is None and L <= 24:
                    # what each word leaves in the state beyond the permutation's output: the input of the next permutation (less the domain) or the final state
                    absorbed = []
                    for k_, e in enumerate(P):
                        nxt = [list(w) for w in P[k_ + 1][3]] if k_ + 1 < len(P) else final
                        absorbed += [gf2.wxor(list(a_), list(q_)) for a_, q_ in zip(nxt, mode.Pw(e[1]))]
                    inj, why_ = injective_in(absorbed, [mode.inbyte(DATA, j) for j in range(L)])
                    if inj is None:
                        injund = injund or (L, why_)
                    elif not inj:
                        badinj = (L, why_)
            ins = {k_ for (o_, k_) in mode.ins_of(p) if o_ == DATA}
            if badr is None and not ins <= set(range(L)):
                badr = (L, "reads data offsets %s with a size of %d" % (sorted(ins - set(range(L)))[:4], L))
            if why and bad is None:
                bad = (L, why)
    c.ob(bad is None, "SMALL", "absorb-whole(size 0..%d)" % maxlen, "for every size 0..%d (%d straight paths): one permutation per 4-byte word with the domain in word 1, the word xored into word 3, "
         "the length of a partial last word injected into word 1" % (maxlen, npaths), "with size = %s: %s" % (bad[0] if bad else "?", bad[1] if bad else ""))
    if "INJ" in rulemap:
        if badinj is None and injund is not None:
            raise Broken("%s: with size %d: %s: injectivity of the absorption is not decided by the small-length rule" % (f.name, injund[0], injund[1]))
        c.ob(badinj is None, "INJ", "absorb-injective(size 0..24)", "for every size 0..24 the state after absorbing is an injective function of the data bytes (rank of the linear map they enter by)",
             "with size = %s: %s - a modified input authenticates under the same tag" % (badinj[0] if badinj else "?", badinj[1] if badinj else ""))
    c.ob(badr is None, "SMALLMEM", "absorb-reads(size 0..%d)" % maxlen, "for every size 0..%d only data[0, size) is read" % maxlen, "with size = %s: %s" % (badr[0] if badr else "?", badr[1] if badr else ""))
    return 2


def _check_absorb_loop(c, f, ex, ps, hdr, klen, di, ri):
    c.defer()
    D = gf2.wzext(gf2.sym_word(("argw", di), 8), 32)
    S = [gf2.sym_word(("S", i), 32) for i in range(4)]
    st = ("arg", 0)
    ptrs, ints = hd_syms(f, hdr)
    idx_style = not ptrs and len(ints) == 1
    if not idx_style and (len(ptrs) != 1 or len(ints) != 1):
        raise Broken("%s: expected one cursor and one remaining-length phi (or one index) at the loop head" % f.name)
    DATA = ("arg", f.param_index("data"))
    SIZE = Lf.s(("n", f.param_index("size")))
    cur, rem = (("hdp", ptrs[0].id) if ptrs else None), ("hd", ints[0].id)
    n = 0
    seen = set()
    lenmark = {}
    expanded = []
    for p in ps:
        if idx_style and p.end[0] == "ret" and p.blocks and p.blocks[0] == hdr:
            dv = [d_ for d_ in p.divs.values() if d_[3] == 4 and d_[2] == SIZE]
            if len(dv) != 1:
                raise Broken("%s: index-based loop without a division of the size by 4: unrecognised shape" % f.name)
            expanded += [(p, r_) for r_ in residue_cases(ex, p, dv[0][1], f.name)]
        elif p.end[0] == "ret" and p.blocks and p.blocks[0] == hdr and p.eqs.get(rem) is None:
            expanded += [(p, r_) for r_ in residue_cases(ex, p, rem, f.name)]
        else:
            expanded.append((p, None))
    for p, rforced in expanded:
        if idx_style and p.end[0] == "loop-entry":
            ini_n = p.env.get(("init", ints[0].id))
            if is_word(ini_n) or ini_n.const() is None:
                raise Broken("%s: the loop carries one integer that does not start at a constant (%s): unrecognised shape" % (f.name, ini_n))
            c.ob(ini_n.const() == 0 and not calls_of(p), "ADVANCE", "absorb-init", "the index starts at 0; nothing happens before the loop", "loop starts with index %s / events %s" % (ini_n, calls_of(p)))
            n += 1
            continue
        if idx_style and p.end[0] in ("backedge", "ret"):
            ins_s = {e_[2] for e_ in p.events if e_[0] == "in-sym" and e_[1] == DATA}
            dv = [d_ for d_ in p.divs.values() if d_[3] == 4 and d_[2] == SIZE]
            if len(ins_s) > 1 or len(dv) > 1:
                raise Broken("%s: a path reads the data at several unrelated symbolic offsets: unrecognised shape" % f.name)
            cur = ("idx", DATA, next(iter(ins_s)) if ins_s else None)
        if p.end[0] == "loop-entry":
            ini_p, ini_n = p.env.get(("init", ptrs[0].id)), p.env.get(("init", ints[0].id))
            okp = (not is_word(ini_p)) and ini_p == Lf.s(("arg", f.param_index("data"))) and ini_n == Lf.s(("n", f.param_index("size")))
            if not okp and (is_word(ini_p) or is_word(ini_n) or set(k_ for k_ in ini_p if k_ != 1) != {("arg", f.param_index("data"))} or set(k_ for k_ in ini_n if k_ != 1) != {("n", f.param_index("size"))}):
                raise Broken("%s: the loop is not driven by (data cursor, remaining size) but by %s / %s: unrecognised shape" % (f.name, ini_p, ini_n))
            c.ob(okp and not calls_of(p), "ADVANCE", "absorb-init", "cursor starts at data, remaining length at size; nothing happens before the loop",
                 "loop starts with cursor=%s remaining=%s / events %s" % (ini_p, ini_n, calls_of(p)))
            n += 1
            continue
        P = [e for e in p.events if e[0] == "P"]
        if idx_style and p.end[0] == "backedge":
            r, name = 4, "block"
            bn = p.env.get(("back", ints[0].id))
            step = bn.add(Lf.s(rem), -1).const() if bn is not None and not is_word(bn) else None
            if step not in (1, 4) or len(dv) != 1:
                raise Broken("%s: index-based loop whose index does not advance by one word per iteration (step %s): unrecognised shape" % (f.name, step))
            okg = any(cc[0] == "ult" and cc[2] and cc[1] == (Lf({rem: 1, dv[0][0]: -4}) if step == 4 else Lf({rem: 1, dv[0][0]: -1})) for cc in p.conds)
            c.ob(okg, "ADVANCE", "absorb-guard", "a full word is absorbed only while the index is below the number of full words", "loop guard is not 'index < full words': %s" % [(x[0], repr(x[1]), x[2]) for x in p.conds][:3])
            c.ob(cur[2] == repr(Lf({rem: 4 // step})), "ADVANCE", "absorb-advance", "the data is read at the loop index, which advances by one word per iteration",
                 "an iteration reads at offset %s with the index at %s" % (cur[2], repr(Lf({rem: 4 // step}))))
            n += 2
        elif idx_style and p.end[0] == "ret":
            r = rforced
            if r is None:
                raise Broken("%s: a path returns without a determined number of left-over bytes: unrecognised shape" % f.name)
            name = "tail%d" % r
            if r:
                c.ob(cur[2] == repr(Lf({dv[0][0]: 4})), "ADVANCE", "absorb-%s-position" % name, "the left-over bytes are read right after the full words", "the left-over bytes are read at offset %s" % cur[2])
                n += 1
        elif p.end[0] == "backedge":
            r, name = 4, "block"
            okg = any(cc[0] == "uge" and cc[2] and cc[1] == Lf({rem: 1, 1: -4}) for cc in p.conds)
            c.ob(okg, "ADVANCE", "absorb-guard", "a full word is absorbed only when at least 4 bytes remain", "loop guard is not 'remaining >= 4': %s" % [(x[0], repr(x[1]), x[2]) for x in p.conds])
            bp, bn = p.env.get(("back", ptrs[0].id)), p.env.get(("back", ints[0].id))
            c.ob(bp == Lf({cur: 1, 1: 4}) and bn == Lf({rem: 1, 1: -4}), "ADVANCE", "absorb-advance", "cursor += 4 and remaining -= 4 per block",
                 "after a block cursor=%s remaining=%s (lock-step broken)" % (bp, bn))
            n += 2
        elif p.end[0] == "ret":
            r = rforced if rforced is not None else pathname(p)
            if r is None:
                raise Broken("%s: a path returns without passing the data loop: unrecognised shape" % f.name)
            name = "tail%d" % r
        else:
            continue
        seen.add(r)
        if r == 0:
            final = mode.state_obj_words(ex, p, st, 4)
            c.ob(not P and mode.words_eq(final, S), "MODE", "absorb-%s" % name, "nothing is absorbed when no bytes remain", "state changes with 0 bytes remaining")
            n += 1
            continue
        c.ob(len(P) == 1, "MODE", "absorb-%s-one-permutation" % name, "one permutation per %s" % name, "%d permutations in %s" % (len(P), name))
        if len(P) != 1:
            continue
        e = P[0]
        got_in = [list(w) for w in e[3]]
        want_in = [S[0], gf2.wxor(S[1], D), S[2], S[3]]
        c.ob(mode.words_eq(got_in, want_in), "MODE", "absorb-%s-input" % name, "domain added to word 1 before the permutation",
             "state entering the permutation differs: %s" % mode.first_diff(got_in, want_in), where=relpath(f.insts[e[5]].where))
        c.ob(e[2] == repr(Lf.s(("n", ri))), "MODE", "absorb-%s-rounds" % name, "permutation runs the caller's round count", "round count passed is %s, not the rounds parameter" % (e[2],))
        Q = mode.Pw(e[1])
        inb = [mode.inbyte(cur, k) for k in range(r)]
        x = mode.le_bytes(inb, r)
        want = [Q[0], Q[1] if r == 4 else gf2.wxor(Q[1], W(r)), Q[2], gf2.wxor(Q[3], x)]
        final = mode.state_obj_words(ex, p, st, 4)
        c.ob(mode.words_eq(final, want), "MODE", "absorb-%s-state" % name,
             "%d byte(s) zero-extended little-endian xored into word 3%s" % (r, "" if r == 4 else ", length %d injected into word 1" % r),
             "state after %s differs from the specification: %s" % (name, mode.first_diff(final, want)))
        ins = {k for (o, k) in mode.ins_of(p) if o == cur}
        c.ob(ins <= set(range(r)), "INRANGE", "absorb-%s-reads" % name, "reads exactly bytes [0,%d) at the cursor" % r, "reads offsets %s with only %d byte(s) remaining" % (sorted(ins), r))
        c.ob(not problems(p), "MODE", "absorb-%s-clean" % name, "no unknown access", "unexpected accesses: %s" % problems(p)[:2])
        if "INJ" in c.rulemap:
            inj, why_ = injective_in([gf2.wxor(list(w_), list(q_)) for w_, q_ in zip(final, Q)], inb)
            if inj is None:
                raise Broken("%s: %s: whether the %s absorbs its bytes injectively is not decided" % (f.name, why_, name))
            c.ob(inj, "INJ", "absorb-%s-injective" % name, "the state after the %s is an injective function of its %d data byte(s): two different inputs never leave the same state behind" % (name, r),
                 "the %s does not absorb its bytes injectively: %s - a modified input authenticates under the same tag" % (name, why_))
            if r < 4:
                # what tells a partial last word of r bytes from r + 1 bytes ending in a zero byte: the constant injected beside the data
                lenmark[r] = tuple(gf2.is_const(gf2.wxor(list(final[i_]), list(Q[i_]))) for i_ in (0, 1, 2))
        n += 6
    if seen != {0, 1, 2, 3, 4}:
        raise Broken("%s: the path classes found (%s) are not the residues 0..3 plus the full block: unrecognised shape" % (f.name, sorted(seen)))
    if "INJ" in c.rulemap and len(lenmark) == 3:
        marks = [lenmark[r_] for r_ in (1, 2, 3)]
        okm = all(None not in m_ and any(m_) for m_ in marks) and len(set(marks)) == 3
        c.ob(okm, "INJ", "absorb-length-marks", "a partial last word of 1, 2 and 3 bytes injects three different non-zero constants beside the data: `ab` and `ab 00` are absorbed differently",
             "the constants injected for partial words of 1, 2, 3 bytes are %s: inputs that differ only in trailing zero bytes are absorbed alike" % (marks,))
    c.ob(True, "ADVANCE", "absorb-classes", "all residue classes 0..3 and the full block are handled", "")
    c.flush()
    return n + 1


# ---------------------------------------------------------------------------
def spec_names(ks, kind):
    return {"setup": "tinyjambu_setup_%s" % ks, "absorb": "tinyjambu_absorb_%s" % ks, "gentag": "tinyjambu_generate_tag_%s" % ks,
            "perm": "tinyjambu_permutation_%s" % ks}


def check_cipher(ck, mod, f, label, rulemap):
    m = FN_RE.match(f.name)
    ks, kind, direction = m.group(1), m.group(2), m.group(3)
    klen = int(ks)
    nk = klen // 32
    c = Ctx(ck, f, label, rulemap)
    ex, ps = run_paths(f, klen)
    if narrowings(c, f, ps):
        return 1
    chains = data_chains(f, ps)
    n = 0
    for i_, ch_ in enumerate(chains):
        # (code that tests buffer alignment or message size may choose between alternative loops: each alternative is checked on its own)
        cc_ = c if len(chains) == 1 else Ctx(ck, f, "%s/loops-%d-of-%d" % (label, i_ + 1, len(chains)), rulemap)
        n += _check_chain(cc_, mod, f, ex, ch_["ps"], ch_["heads"], ks, kind, direction)
    return n


def _check_chain(c, mod, f, ex, ps, heads, ks, kind, direction):
    klen = int(ks)
    nk = klen // 32
    names = spec_names(ks, kind)
    c.defer()
    LI = {}
    idx_style = False
    for h_ in heads:
        pt_, in_ = hd_syms(f, h_)
        isidx = False
        if not pt_ and len(in_) == 1 and (len(heads) == 1 or h_ == heads[0]):
            isidx = True              # index-based: m[posn + j] / c[posn + j] with one loop-carried index, the buffers addressed from their start
            if len(heads) == 1:
                idx_style = True
        elif len(pt_) > 2 or len(in_) != 1 or not pt_:
            raise Broken("%s: expected one or two pointer cursors and one remaining length (or one index) carried by the data loop (found %d pointer, %d integer values): "
                         "unrecognised loop shape" % (f.name, len(pt_), len(in_)))
        LI[h_] = {"ptrs": pt_, "ints": in_, "rem": ("hd", in_[0].id), "in": None, "out": None, "idx": isidx}
    idx_first = LI[heads[0]]["idx"]
    hdr = heads[0]
    ptrs, ints = LI[hdr]["ptrs"], LI[hdr]["ints"]
    rem = LI[hdr]["rem"]
    A = {nm: irx.argsym(f, f.param_index(nm)) for nm in ("c", "m", "ad", "npub", "k", "clen", "mlen", "adlen")}
    enc = direction == "encrypt"
    in_name, out_name, len_name = ("m", "c", "mlen") if enc else ("c", "m", "clen")
    st = mode.find_state_obj(f)
    S = [gf2.sym_word(("S", i), 32) for i in range(4)]
    dom_msg = 0x50 if kind == "aead" else 0xD0
    n = 0
    seen = set()
    iter_sizes = {}
    in_cur = out_cur = None
    first_setup_dom = 0x10 if kind == "aead" else (0x90 if enc else 0xB0)
    for p in ps:
        ev = calls_of(p)
        # ------------------------------------------------------------ guard path (decrypt)
        if p.end[0] == "ret" and not any(isinstance(s, tuple) and s[0] == "hd" for s in p.eqs) and not any(e[0] in ("P", "GENTAG") for e in ev) and not enc:
            # refused: C03 decides its details; here only: nothing written
            outs = mode.outs_of(p)
            c.ob(not outs and not ev, "OUTRANGE", "refused-writes-nothing", "short input: nothing written, nothing called", "refused path writes %s / calls %s" % (list(outs)[:3], [e[0] for e in ev]))
            n += 1
            continue
        # ------------------------------------------------------------ prefix
        if p.end[0] == "loop-entry" and p.blocks and p.blocks[0] != 0:
            continue        # hand-over from one data loop to the next: below
        if p.end[0] == "loop-entry":
            # length out-parameter
            lf = [e for e in p.events if e[0] == "store-lf"]
            lenptr = A["clen"] if enc else A["mlen"]
            want_len = Lf({A[len_name]: 1, 1: 8 if enc else -8})
            oklen = [e for e in lf if e[2] == repr(Lf.s(lenptr))]
            c.ob(len(oklen) == 1 and oklen[0][3] == repr(want_len) and len(lf) == 1, "LEN", "length-out",
                 "*%s = %s %s 8 is the only length store" % ("clen" if enc else "mlen", len_name, "+" if enc else "-"),
                 "length out-parameter stores: %s (expected exactly *%s = %s)" % ([(e[2], e[3]) for e in lf], "clen" if enc else "mlen", want_len))
            # key words
            kw = mode.state_obj_words(ex, p, st, nk, 16)
            want_k = []
            for i in range(nk):
                want_k.append(gf2.wnot(mode.le_bytes([mode.inbyte(A["k"], 4 * i + b) for b in range(4)], 4)))
            c.ob(mode.words_eq(kw, want_k), "PREFIX", "key-words", "key word i = NOT LE32(k[4i..4i+3]) for all %d words" % nk,
                 "key schedule differs from the specification: %s" % (mode.first_diff(kw, want_k)))
            if "KEYINJ" in c.rulemap:
                inj, why_ = injective_in(kw, [mode.inbyte(A["k"], j_) for j_ in range(4 * nk)])
                if inj is None:
                    raise Broken("%s: %s: whether the key words are an injective function of the key bytes is not decided" % (f.name, why_))
                c.ob(inj, "KEYINJ", "key-injective", "the %d key words are an injective function of the %d key bytes: two different keys never run the same cipher" % (nk, 4 * nk),
                     "the key words do not determine the key: %s - a packet made under one key is accepted under another" % why_)
            # calls
            if kind == "aead" or enc:
                su = [e for e in ev if e[0] == "SETUP"]
                ab = [e for e in ev if e[0] == "ABSORB"]
                want_absorbs = [(0x30, P640, A["ad"], A["adlen"])] + ([(0x50, KR[klen], A["m"], A["mlen"])] if kind == "siv" else [])
                # (premise of 'a modified nonce is rejected', not relational: the set-up of the authentication pass is handed the caller's nonce)
                c.ob(len(su) >= 1 and su[0][7] == repr(Lf.s(A["npub"])), "NONCEARG", "setup-nonce-argument", "the set-up of the authentication pass is given the caller's nonce (npub)",
                     "the set-up of the authentication pass is given %s, not the caller's nonce: nonce bytes that do not reach the state can be modified freely" % (su[0][7] if su else "nothing"))
                c.ob(len(su) >= 1 and su[0][2] == first_setup_dom and su[0][7] == repr(Lf.s(A["npub"])) and su[0][6] == names["setup"], "PREFIX", "setup-call",
                     "setup_%s(state, npub, 0x%02X)" % (ks, first_setup_dom), "first setup call is %s" % ([(e[6], hex(e[2] or 0), e[7]) for e in su[:1]],))
                c.ob(len(su) >= 1 and mode.words_eq([list(w) for w in su[0][4]], want_k), "PREFIX", "setup-key", "setup sees the unpacked key", "key words are not in place when setup is called")
                okab = len(ab) == len(want_absorbs)
                prev = mode.__dict__  # placeholder to keep linters quiet
                if okab:
                    src = ("SETUP", su[0][1])
                    for e, (wd, wr, wp, wl) in zip(ab, want_absorbs):
                        want_in = [gf2.sym_word((src[0], src[1], i), 32) for i in range(4)]
                        if not (e[2] == wd and e[3] == wr and e[5] == repr(Lf.s(wp)) and e[6] == repr(Lf.s(wl)) and e[8] == names["absorb"]
                                and mode.words_eq([list(w) for w in e[4]], want_in)):
                            okab = False
                        src = ("ABSORB", e[1])
                c.ob(okab, "PREFIX", "absorb-calls", "absorb calls: %s" % ["0x%02X/%d rounds" % (a[0], a[1]) for a in want_absorbs],
                     "absorb calls before the data pass are %s, specification says %s with chained state"
                     % ([(hex(e[2] or 0), e[3], e[5], e[6]) for e in ab], [(hex(a[0]), a[1]) for a in want_absorbs]))
                n += 3
            if kind == "siv":
                n += check_siv_nonce2(c, ex, p, f, A, enc, ev, ks, klen)
            # cursor initialisation
            inits = {I.id: p.env.get(("init", I.id)) for I in ptrs + ints}
            want_n = Lf.s(A["mlen"]) if enc else Lf({A["clen"]: 1, 1: -8})
            ini_n = inits[ints[0].id]
            if idx_first:
                if is_word(ini_n) or ini_n.const() is None:
                    raise Broken("%s: the data loop carries one integer that does not start at a constant (%s): neither a remaining length nor an index: unrecognised shape" % (f.name, ini_n))
                c.ob(ini_n.const() == 0, "ADVANCE", "cursor-init", "the loop index starts at 0 (the buffers are addressed from their start)", "the loop index starts at %s: the first bytes are skipped" % ini_n)
                n += 3
                continue
            if not is_word(ini_n) and any(isinstance(s_, tuple) and s_[0] in ("quo", "rem", "trunc", "mod") for s_ in ini_n):
                raise Broken("%s: the data loop counts blocks with a derived counter (%s) instead of the remaining length: loop shape not supported by the lock-step rule" % (f.name, ini_n))
            okc = set(repr(inits[I.id]) for I in ptrs) == {repr(Lf.s(A["m"])), repr(Lf.s(A["c"]))} and inits[ints[0].id] == want_n

            def _pform(v, syms):
                return v is not None and not is_word(v) and len([k_ for k_ in v if k_ != 1]) == 1 and [k_ for k_ in v if k_ != 1][0] in syms and v[[k_ for k_ in v if k_ != 1][0]] == 1
            if not okc and not (all(_pform(inits[I.id], (A["m"], A["c"])) for I in ptrs) and _pform(ini_n, (A["mlen"], A["clen"]))):
                raise Broken("%s: the data loop is not driven by cursors into m / c and a remaining length (loop-carried values start at %s / %s): unrecognised shape"
                             % (f.name, [repr(inits[I.id]) for I in ptrs], ini_n))
            c.ob(okc, "ADVANCE", "cursor-init", "cursors start at m and c, remaining length at %s" % want_n,
                 "loop-carried cursors are %s and remaining %s; expected cursors starting at m and c that advance with the data (a cursor that is not loop-carried never advances)"
                 % ([repr(inits[I.id]) for I in ptrs], inits[ints[0].id]))
            for I in ptrs:
                if inits[I.id] == Lf.s(A[in_name]):
                    in_cur = ("hdp", I.id)
                if inits[I.id] == Lf.s(A[out_name]):
                    out_cur = ("hdp", I.id)
            n += 3
            continue
    # a cursor that is not loop-carried: the parameter object itself (its missing advance was reported above)
    static_in = in_cur is None
    static_out = out_cur is None
    if in_cur is None:
        in_cur = A[in_name]
    if out_cur is None:
        out_cur = A[out_name]
    LI[hdr]["in"], LI[hdr]["out"] = in_cur, out_cur
    # hand-over between consecutive data loops: nothing happens in between and the next loop continues with the same
    # cursors and the same remaining length
    total_ = Lf.s(A["mlen"]) if enc else Lf({A["clen"]: 1, 1: -8})
    for h1, h2 in zip(heads, heads[1:]):
        tr = [p for p in ps if p.end[0] == "loop-entry" and p.end[1] == h2 and p.blocks and p.blocks[0] == h1]
        if LI[h1]["idx"]:
            # an index loop over the full words (an aligned fast path, say) followed by a cursor loop: the cursors must continue right behind the
            # full words (buffer + 4 * (length / 4)) with the left-over length (length % 4)
            for p in tr:
                dv_ = [d_ for d_ in p.divs.values() if d_[3] == 4 and d_[2] == total_]
                if len(dv_) != 1:
                    raise Broken("%s: index-based data loop without a division of the data length by 4: unrecognised shape" % f.name)
                qs_, rs_ = dv_[0][0], dv_[0][1]
                inits = {I.id: p.env.get(("init", I.id)) for I in LI[h2]["ptrs"] + LI[h2]["ints"]}
                for I in LI[h2]["ptrs"]:
                    if inits[I.id] == Lf({A[in_name]: 1, qs_: 4}):
                        LI[h2]["in"] = ("hdp", I.id)
                    if inits[I.id] == Lf({A[out_name]: 1, qs_: 4}):
                        LI[h2]["out"] = ("hdp", I.id)
                ir_ = inits[LI[h2]["ints"][0].id]
                okr_ = ir_ is not None and not is_word(ir_) and (ir_ == Lf.s(rs_) or ir_ == total_.add(Lf({qs_: 4}), -1))
                okh = LI[h2]["in"] is not None and LI[h2]["out"] is not None and okr_ and not calls_of(p) and not mode.outs_of(p) and p.eqs.get(LI[h1]["rem"]) is None
                xq_ = ex._range(p, Lf({LI[h1]["rem"]: 1, qs_: -1}))
                c.ob(okh, "ADVANCE", "loop-handover", "after the full words the cursors continue at buffer + 4 * (length / 4) with length % 4 bytes left; nothing is processed in between",
                     "after the index loop: cursors %s remaining %s calls %s" % ([repr(v) for k_, v in inits.items()], ir_, [e[0] for e in calls_of(p)]))
                n += 1
            if LI[h2]["in"] is None or LI[h2]["out"] is None:
                raise Broken("%s: cursors of the second data loop cannot be related to the index loop before it: unrecognised shape" % f.name)
            continue
        for p in tr:
            inits = {I.id: p.env.get(("init", I.id)) for I in LI[h2]["ptrs"] + LI[h2]["ints"]}
            for I in LI[h2]["ptrs"]:
                if inits[I.id] == Lf.s(LI[h1]["in"]):
                    LI[h2]["in"] = ("hdp", I.id)
                if inits[I.id] == Lf.s(LI[h1]["out"]):
                    LI[h2]["out"] = ("hdp", I.id)
            okh = LI[h2]["in"] is not None and LI[h2]["out"] is not None and inits[LI[h2]["ints"][0].id] == Lf.s(LI[h1]["rem"]) \
                and not calls_of(p) and not mode.outs_of(p)
            c.ob(okh, "ADVANCE", "loop-handover", "the next data loop continues with the same cursors and remaining length; nothing is processed in between",
                 "between two data loops: cursors %s remaining %s calls %s" % ([repr(v) for k_, v in inits.items()], inits[LI[h2]["ints"][0].id], [e[0] for e in calls_of(p)]))
            n += 1
        if LI[h2]["in"] is None or LI[h2]["out"] is None:
            raise Broken("%s: cursors of the second data loop cannot be related to the first: unrecognised shape" % f.name)
    expanded = []
    total = Lf.s(A["mlen"]) if enc else Lf({A["clen"]: 1, 1: -8})
    for p in ps:
        h_ = p.blocks[0] if p.blocks else None
        if h_ in LI and LI[h_]["idx"] and p.end[0] == "ret":
            dv = [d_ for d_ in p.divs.values() if d_[3] == 4 and d_[2] == total]
            if len(dv) != 1:
                raise Broken("%s: index-based data loop without a division of the data length by 4 (full words / left-over bytes): unrecognised shape" % f.name)
            expanded += [(p, r_) for r_ in residue_cases(ex, p, dv[0][1], f.name)]
        elif p.end[0] == "ret" and h_ in LI and p.eqs.get(LI[h_]["rem"]) is None:
            expanded += [(p, r_) for r_ in residue_cases(ex, p, LI[h_]["rem"], f.name)]
        else:
            expanded.append((p, None))
    for p, rforced in expanded:
        ev = calls_of(p)
        if p.end[0] == "loop-entry":
            continue
        if p.end[0] == "ret" and rforced is None and not any(isinstance(s, tuple) and s[0] == "hd" for s in p.eqs):
            continue
        h0 = p.blocks[0] if p.blocks else None
        if h0 not in LI:
            raise Broken("%s: a path class does not start at a data loop head: unrecognised shape" % f.name)
        in_cur, out_cur, rem, ints = LI[h0]["in"], LI[h0]["out"], LI[h0]["rem"], LI[h0]["ints"]
        s_in = static_in and h0 == hdr
        s_out = static_out and h0 == hdr
        P = [e for e in ev if e[0] == "P"]
        idx_style = LI[h0]["idx"]
        if idx_style:
            # cursors of this path: the one symbolic offset at which the input / output buffer is accessed
            X = rem                                     # the loop index
            dv = [d_ for d_ in p.divs.values() if d_[3] == 4 and d_[2] == total]
            tagso = repr(Lf.s(A["mlen"])) if enc else irx.symsplit(Lf({A["clen"]: 1, 1: -8}))[0]
            ins_s = {e_[2] for e_ in p.events if e_[0] == "in-sym" and e_[1] == A[in_name] and not (not enc and e_[2] == tagso and e_[3] < 0)}
            outs_s = {e_[2] for e_ in p.events if e_[0] == "out-sym" and e_[1] == A[out_name] and not (enc and e_[2] == tagso)}
            if len(ins_s) > 1 or len(outs_s) > 1 or len(dv) > 1:
                raise Broken("%s: a path accesses the buffers at several unrelated symbolic offsets (%s / %s): unrecognised shape" % (f.name, sorted(ins_s), sorted(outs_s)))
            in_cur = ("idx", A[in_name], next(iter(ins_s))) if ins_s else ("idx", A[in_name], None)
            out_cur = ("idx", A[out_name], next(iter(outs_s))) if outs_s else ("idx", A[out_name], None)
            if p.end[0] == "backedge":
                bn = p.env.get(("back", ints[0].id))
                step = bn.add(Lf.s(X), -1).const() if bn is not None and not is_word(bn) else None
                if step not in (1, 4) or len(dv) != 1:
                    raise Broken("%s: index-based data loop whose index does not advance by one word per iteration (step %s) or without a division of the length by 4: unrecognised shape" % (f.name, step))
                qs = dv[0][0]
                a_ = 4 // step                               # bytes per index unit
                r, name = 4, "block"
                want_so = repr(Lf({X: a_}))
                okg = any(cc[0] == "ult" and cc[2] and cc[1] == (Lf({X: 1, qs: -4}) if step == 4 else Lf({X: 1, qs: -1})) for cc in p.conds)
                c.ob(okg, "ADVANCE", "guard", "a word is processed only while the index is below the number of full words", "loop guard is not 'index < full words' (conditions %s)" % [(x_[0], repr(x_[1]), x_[2]) for x_ in p.conds][:3])
                c.ob(in_cur[2] == want_so and out_cur[2] == want_so, "ADVANCE", "advance", "input and output are both accessed at the loop index, which advances by one word per iteration",
                     "an iteration reads at offset %s and writes at offset %s with the index at %s: lock-step broken" % (in_cur[2], out_cur[2], want_so))
                n += 2
            else:
                r = rforced
                if r is None or len(dv) != 1:
                    raise Broken("%s: a path leaves the index-based data loop without a determined number of left-over bytes: unrecognised shape" % f.name)
                name = "tail%d" % r
                if r:
                    want_so = repr(Lf({dv[0][0]: 4}))
                    if in_cur[2] != want_so or out_cur[2] != want_so:
                        # only the symbolic base of the addresses is compared here (the constant offsets are checked with the bytes below): a
                        # different base - the left-over bytes addressed as length - left-over + i, say - is the same place only by
                        # n = 4*(n/4) + n%4, which this comparison of terms does not make
                        raise Broken("%s: the left-over bytes are addressed from another base (%s / %s) than the number of full words (%s): not decided" % (f.name, in_cur[2], out_cur[2], want_so))
                    c.ob(in_cur[2] == want_so and out_cur[2] == want_so, "ADVANCE", "%s-position" % name, "the left-over bytes are read and written right after the full words",
                         "the left-over bytes are read at offset %s and written at offset %s, expected %s for both" % (in_cur[2], out_cur[2], want_so))
                    n += 1
        elif p.end[0] == "backedge":
            if p.end[1] != h0:
                raise Broken("%s: nested data loops: unrecognised shape" % f.name)
            bi = p.env.get(("back", in_cur[1])) if not s_in else Lf.s(in_cur)
            bo = p.env.get(("back", out_cur[1])) if not s_out else Lf.s(out_cur)
            bn = p.env.get(("back", ints[0].id))
            adv = bn.add(Lf.s(rem), -1).const() if bn is not None and not is_word(bn) else None
            if adv is not None and adv < 0 and ((-adv) % 4 != 0 or -adv > 256):
                raise Broken("%s: an iteration of the data loop consumes %d bytes: chunked processing beyond 64 words per iteration is not analysed" % (f.name, -adv))
            r = -adv if adv is not None and adv < 0 else 4
            name = "block" if r == 4 and len(heads) == 1 else "block%d" % r
            okg = any(cc[0] == "uge" and cc[2] and cc[1] == Lf({rem: 1, 1: -r}) for cc in p.conds) or ex._range(p, Lf({rem: 1}))[0] >= r
            c.ob(okg, "ADVANCE", "guard" if name == "block" else "guard(%s)" % name, "%d bytes are processed only when at least %d remain" % (r, r), "loop guard is not 'remaining >= %d'" % r)
            c.ob(bi == Lf({in_cur: 1, 1: r}) and bo == Lf({out_cur: 1, 1: r}) and bn == Lf({rem: 1, 1: -r}), "ADVANCE", "advance" if name == "block" else "advance(%s)" % name,
                 "both cursors += %d and remaining -= %d per iteration" % (r, r), "after an iteration: input cursor %s, output cursor %s, remaining %s (lock-step broken)" % (bi, bo, bn))
            n += 2
        else:
            r = rforced if rforced is not None else p.eqs.get(rem)
            if r is None:
                raise Broken("%s: a path leaves the data loop with the remaining length not determined: unrecognised shape" % f.name)
            name = "tail%d" % r
        if rforced is not None and idx_style:
            # make the chosen residue visible to the term comparison (shift amounts, masks and helper loops depend on it)
            pass
        seen.add(r if p.end[0] != "backedge" else ("iter", h0))
        if p.end[0] == "backedge":
            iter_sizes[h0] = r
        if getattr(p, "aux", None) is not None:
            name = "%s{carried index = %d}" % (name, p.aux[1])      # one evaluation per value of the helper integer's orbit
        outs = mode.outs_of(p)
        # a store that writes back the value the location already holds (x ^= 0 ...) changes nothing the round trip or the
        # construction can observe; that it is a write at all (const input buffer) is C06's R-C06-CONST
        outs = {k_: v_ for k_, v_ in outs.items() if k_[0] == out_cur or list(v_) != mode.inbyte(k_[0], k_[1])}
        # ---- data segment
        data_ev = [e for e in P]
        segP = [e for e in P if True]
        first_call_after = [e for e in ev if e[0] in ("GENTAG", "SETUP")]
        # permutations belonging to the data segment = those before the first GENTAG/SETUP
        cut = min([e[1] for e in first_call_after] + [10 ** 9])
        segP = [e for e in P if e[1] < cut]
        if r == 0:
            c.ob(not segP, "MODE", "%s-nothing" % name, "no block is processed when no bytes remain", "a permutation runs with 0 bytes remaining")
            Safter = S
            n += 1
        else:
            steps = word_steps(r)
            c.ob(len(segP) == len(steps), "MODE", "%s-one-permutation" % name, "one permutation per 4-byte word of the %s (%d)" % (name, len(steps)),
                 "%d permutation(s) in the %s where %d are specified" % (len(segP), name, len(steps)))
            if len(segP) != len(steps):
                continue
            Scur = S
            for k_, (off_, nb) in enumerate(steps):
                e = segP[k_]
                sfx = "" if len(steps) == 1 else "@%d" % off_
                got_in = [list(w) for w in e[3]]
                want_in = mode.fb(Scur, dom_msg)
                c.ob(e[2] == KR[klen] and e[6] == names["perm"], "MODE", "%s-rounds%s" % (name, sfx), "message permutation runs %d rounds" % KR[klen],
                     "message permutation is %s with %s rounds, specification says %d" % (e[6], e[2], KR[klen]), where=relpath(f.insts[e[5]].where))
                c.ob(mode.words_eq(got_in, want_in), "MODE", "%s-frame%s" % (name, sfx), "frame bits 0x%02X in word 1 before the permutation, on the state left by the previous word" % dom_msg,
                     "state entering the message permutation differs: %s" % mode.first_diff(got_in, want_in), where=relpath(f.insts[e[5]].where))
                Q = mode.Pw(e[1])
                inb = [mode.inbyte(in_cur, off_ + j) for j in range(nb)]
                xin = mode.le_bytes(inb, nb)
                if enc:
                    absorbed = xin
                    outw = gf2.wxor(xin, Q[2])
                else:
                    outw = mode.mask_r(gf2.wxor(xin, Q[2]), nb)
                    absorbed = outw
                if kind == "aead":
                    Scur = [Q[0], Q[1] if nb == 4 else gf2.wxor(Q[1], W(nb)), Q[2], gf2.wxor(Q[3], absorbed)]
                else:
                    Scur = Q
                for j in range(nb):
                    got = outs.get((out_cur, off_ + j))
                    want = outw[8 * j: 8 * j + 8]
                    c.ob(got == want, "MODE", "%s-out%d" % (name, off_ + j), "output byte %d = input byte %d xor keystream byte %d" % (off_ + j, off_ + j, off_ + j),
                         "output byte %d of the %s is %s, specification says %s" % (off_ + j, name, gf2.describe(got[0]) if got else "not written", gf2.describe(want[0])))
                n += 2 + nb
            Safter = Scur
            # state right after the segment: at the next call event, else at path end
            nxt = [x for x in ev if x[0] in ("GENTAG",) and kind == "aead"]
            if nxt:
                got_state = [list(w) for w in nxt[0][2]]
            elif p.end[0] == "backedge" or kind == "siv":
                got_state = mode.state_obj_words(ex, p, st, 4) if p.end[0] == "backedge" else None
            else:
                got_state = None
            if got_state is not None:
                c.ob(mode.words_eq(got_state, Safter), "MODE", "%s-state" % name,
                     ("plaintext word absorbed into word 3%s" % ("" if r >= 4 else ", length %d injected into word 1" % r)) if kind == "aead" else "second pass does not absorb: state = permutation output",
                     "state after the %s differs from the specification: %s" % (name, mode.first_diff(got_state, Safter)))
                n += 1
            if not enc:
                # sensitivity: every ciphertext bit of the segment must be able to influence the verdict - it reaches the recovered plaintext
                # bit (which the SIV authentication pass re-absorbs) and, for the one-pass AEAD, the state the tag is generated from
                memo_s = {}
                inbits = {(("mem", in_cur, j_) if in_cur[0] != "idx" else ("mem", in_cur[1], (in_cur[2], j_)), b_) for j_ in range(r) for b_ in range(8)}
                miss_o = []
                for j_ in range(r):
                    got = outs.get((out_cur, j_))
                    for b_ in range(8):
                        var = (("mem", in_cur, j_) if in_cur[0] != "idx" else ("mem", in_cur[1], (in_cur[2], j_)), b_)
                        if got is None or got[b_] is gf2.TOP or var not in gf2.support(got[b_], memo_s):
                            miss_o.append((j_, b_))
                c.ob(not miss_o, "SENS", "%s-plaintext-sensitive" % name, "every ciphertext bit of the %s reaches the corresponding recovered plaintext bit" % name,
                     "recovered plaintext does not depend on ciphertext byte/bit %s: a modification there goes unnoticed by the authentication" % (miss_o[:3],))
                if kind == "aead" and got_state is not None:
                    # word k of the segment must enter the state that the next permutation (or, for the last word, the tag generation) starts from
                    miss_s = []
                    for k_, (off_, nb) in enumerate(steps):
                        nxt_state = [list(w_) for w_ in segP[k_ + 1][3]] if k_ + 1 < len(segP) else got_state
                        sup = set()
                        for w_ in nxt_state:
                            for bit_ in w_:
                                if bit_ is not gf2.TOP:
                                    sup |= gf2.support(bit_, memo_s)
                        want_bits = {(("mem", in_cur, off_ + j_) if in_cur[0] != "idx" else ("mem", in_cur[1], (in_cur[2], off_ + j_)), b_) for j_ in range(nb) for b_ in range(8)}
                        miss_s += sorted(want_bits - sup, key=repr)
                    c.ob(not miss_s, "SENS", "%s-state-sensitive" % name, "every ciphertext bit of the %s enters the state the tag is computed from" % name,
                         "the state after the %s does not depend on %d ciphertext bit(s), e.g. %s: tampering with them is accepted" % (name, len(miss_s), miss_s[:2]))
                n += 2
            okal, badj = mode.alias_order_ok(p, in_cur, out_cur)
            c.ob(okal, "INPLACE", "%s-load-before-store" % name, "every input byte is loaded before the output byte at the same offset is stored (c == m is safe)",
                 "input byte %s is loaded after output byte %s was stored: in-place use reads overwritten data" % (badj, badj))
            ins = {k for (o, k) in mode.ins_of(p) if o == in_cur}
            lim = r if enc else r + 8          # behind the last ciphertext byte the input still holds the 8 tag bytes
            c.ob(ins <= set(range(lim)), "INRANGE", "%s-reads" % name, "reads only input bytes [0,%d) at the cursor" % lim,
                 "reads input offsets %s with only %d byte(s) of input left" % (sorted(ins), lim))
            n += 2
        # ---- suffix (tails only)
        if p.end[0] == "backedge":
            ow = {k[1] for k in outs if k[0] == out_cur}
            c.ob(ow == set(range(r)) and not [k for k in outs if k[0] not in (out_cur,)], "OUTRANGE", "%s-writes" % name, "an iteration writes exactly output bytes [0,%d) at the cursor" % r,
                 "an iteration writes %s" % sorted(outs, key=repr)[:8])
            kw_now = mode.state_obj_words(ex, p, st, nk, 16)
            n += 1
            continue
        gt = [e for e in ev if e[0] == "GENTAG"]
        if kind == "aead":
            c.ob(len(gt) == 1 and gt[0][5] == names["gentag"] and mode.words_eq([list(w) for w in gt[0][2]], Safter), "MODE", "%s-tag-state" % name,
                 "the tag is generated from the state right after the last block", "generate_tag is not applied to the final message state (calls: %s)" % [(e[0]) for e in ev])
            n += 1
            if enc and gt:
                want_ptr = repr(Lf({out_cur: 1, 1: r}) if r else Lf.s(out_cur))
                abs_tag = gt[0][3] == repr(Lf({A["c"]: 1, A["mlen"]: 1}))
                if abs_tag:
                    want_ptr = gt[0][3]        # addressed from the entry values: c + mlen is the tag position by definition
                elif idx_style:
                    raise Broken("%s: index-based encryption that does not address the tag as c + mlen: this shape is not analysed" % f.name)
                c.ob(gt[0][3] == want_ptr, "TAGPOS", "%s-tag-position" % name, "tag written right after the %d ciphertext byte(s) of this tail" % r,
                     "tag is written at %s, expected %s" % (gt[0][3], want_ptr))
                wr = {k[1] for k in outs if k[0] == out_cur}
                if abs_tag:
                    # the tag goes to c + mlen addressed from the entry values: the cursor sees the r ciphertext bytes only, and the
                    # only stores at symbolic offsets of c are the 8 tag bytes
                    so = repr(Lf.s(A["mlen"]))
                    symw = [(e_[2], e_[3]) for e_ in p.events if e_[0] == "out-sym"]
                    tagcur = ("idx", A["c"], so)
                    c.ob(wr == set(range(r)) and all(k[0] in (out_cur, tagcur) for k in outs) and sorted(set(symw) - {(out_cur[2], j_) for j_ in range(r) if out_cur[0] == "idx"}) == [(so, b_) for b_ in range(8)]
                         and all(e_[1] == A["c"] for e_ in p.events if e_[0] == "out-sym"), "OUTRANGE", "%s-writes" % name,
                         "exactly %d ciphertext byte(s) at the cursor and the 8 tag bytes at c + mlen are written" % r, "the tail writes cursor offsets %s and symbolic offsets %s" % (sorted(wr), sorted(set(symw))[:10]))
                    for b in range(8):
                        got = p.mem.get((A["c"], (so, b)))
                        c.ob(got is not None and list(got) == gf2.sym_word(("TAG", gt[0][1], b), 8), "TAGPOS", "%s-tag-byte%d" % (name, b), "tag byte %d survives at c + mlen + %d" % (b, b),
                             "c + mlen + %d does not hold tag byte %d at return" % (b, b))
                else:
                    c.ob(wr == set(range(r + 8)) and all(k[0] == out_cur for k in outs), "OUTRANGE", "%s-writes" % name,
                         "exactly output bytes [0,%d) written: %d ciphertext + 8 tag" % (r + 8, r), "the tail writes output offsets %s (expected exactly [0,%d))" % (sorted(wr), r + 8))
                    for b in range(8):
                        got = outs.get((out_cur, r + b))
                        c.ob(got == gf2.sym_word(("TAG", gt[0][1], b), 8), "TAGPOS", "%s-tag-byte%d" % (name, b), "tag byte %d survives at offset %d" % (b, r + b),
                             "offset %d does not hold tag byte %d at return" % (r + b, b))
                n += 10
        if not enc:
            ch = [e for e in ev if e[0] == "CHECK"]
            c.ob(len(ch) == 1 and isinstance(p.end[1], Lf) and p.end[1] == Lf.s(("verdict", ch[0][1])) if ch else False, "RT", "%s-verdict" % name,
                 "the function returns check_tag's verdict", "the function does not return check_tag's verdict on this path")
            if ch and gt:
                want_t1 = tuple(b for kk in range(8) for b in gf2.sym_word(("TAG", gt[-1][1], kk), 8))
                c.ob(tuple(ch[0][4]) == want_t1, "RT", "%s-computed-tag" % name, "check_tag compares the tag just generated", "tag1 passed to check_tag is not the generated tag")
                want_ptr = repr(Lf({in_cur: 1, 1: r}) if r else Lf.s(in_cur))
                if ch[0][5] == repr(Lf({A["c"]: 1, A["clen"]: 1, 1: -8})):
                    want_ptr = ch[0][5]        # addressed from the entry values: c + clen - 8 is the tag position by definition
                elif idx_style and dv:
                    # index style: c + 4*(full words) + left-over bytes is the same position
                    alts = {repr(Lf({A["c"]: 1, dv[0][0]: 4}).add(Lf.c(r))), repr(Lf({A["c"]: 1, dv[0][0]: 4, dv[0][1]: 1}))}
                    want_ptr = ch[0][5] if ch[0][5] in alts else sorted(alts)[0]
                c.ob(ch[0][5] == want_ptr and ch[0][6] == 8, "TAGPOS", "%s-received-tag" % name, "received tag read right after the %d ciphertext byte(s) of this tail (8 bytes)" % r,
                     "received tag is read at %s (%s bytes), expected %s" % (ch[0][5], ch[0][6], want_ptr))
                c.ob(ch[0][2] == repr(Lf.s(A["m"])), "WIPESTART", "%s-wipe-start" % name, "check_tag gets the start of the plaintext buffer", "check_tag gets %s as plaintext pointer" % ch[0][2])
            wr = {k[1] for k in outs if k[0] == out_cur}
            c.ob(wr == set(range(r)) and all(k[0] == out_cur for k in outs), "OUTRANGE", "%s-writes" % name, "exactly plaintext bytes [0,%d) written in the tail" % r,
                 "the tail writes output %s (expected exactly [0,%d) at the cursor)" % (sorted(outs, key=repr)[:6], r))
            n += 5
            if kind == "siv":
                n += check_siv_auth(c, ex, p, f, A, ev, ks, klen, name)
        if kind == "siv" and enc:
            wr = {k[1] for k in outs if k[0] == out_cur}
            c.ob(wr == set(range(r)) and all(k[0] == out_cur for k in outs), "OUTRANGE", "%s-writes" % name, "exactly ciphertext bytes [0,%d) written in the tail" % r,
                 "the tail writes output offsets %s (expected exactly [0,%d))" % (sorted(wr), r))
            c.ob(not [e for e in ev if e[0] in ("GENTAG", "SETUP", "ABSORB")], "MODE", "%s-no-more-calls" % name, "nothing after the keystream pass", "unexpected calls after the second pass")
            n += 2
        c.ob(not problems(p), "RT", "%s-clean" % name, "no unknown access", "unexpected accesses: %s" % problems(p)[:2])
        n += 1
    # the left-over classes are the lengths below the smallest amount an iteration consumes (4 for a word loop; 32 for a loop that
    # works through a 32-byte staging buffer and handles the rest in its last, shorter round)
    rmin = min(iter_sizes.values()) if iter_sizes else 4
    if seen != set(range(rmin)) | {("iter", h_) for h_ in heads}:
        raise Broken("%s: the path classes found (%s) are not the left-over lengths below the iteration size plus one generic iteration per data loop: unrecognised shape" % (f.name, sorted(seen, key=repr)))
    c.ob(True, "ADVANCE", "classes", "all residues 0..3 and the generic iteration of every data loop are handled", "")
    c.flush()
    return n + 1


def check_siv_nonce2(c, ex, p, f, A, enc, ev, ks, klen):
    """prefix of SIV: first pass (encrypt) and composition of the second-pass nonce"""
    n = 0
    su = [e for e in ev if e[0] == "SETUP"]
    gt = [e for e in ev if e[0] == "GENTAG"]
    lenlf = Lf.s(A["mlen"]) if enc else Lf({A["clen"]: 1, 1: -8})
    tagpos = repr(Lf.s(A["c"]).add(lenlf))
    if enc:
        ab = [e for e in ev if e[0] == "ABSORB"]
        okt = len(gt) == 1 and gt[0][3] == tagpos and bool(ab) and mode.words_eq([list(w) for w in gt[0][2]], [gf2.sym_word(("ABSORB", ab[-1][1], i), 32) for i in range(4)])
        c.ob(okt, "TAGPOS", "siv-tag-position", "pass 1 writes the tag at c + mlen from the state after absorbing AD and plaintext",
             "pass-1 tag: %s (expected generate_tag(state after absorbs, c + mlen))" % [(e[3]) for e in gt])
        n += 1
        s2 = su[1] if len(su) > 1 else None
        tagbytes = [gf2.sym_word(("TAG", gt[0][1], k), 8) for k in range(8)] if gt else None
    else:
        s2 = su[0] if su else None
        off = repr(lenlf)
        so_, k0_ = irx.symsplit(lenlf)
        tagbytes = [gf2.sym_word(("mem", A["c"], (so_, k0_ + k)), 8) for k in range(8)]
    want = []
    for k in range(4):
        want.extend(mode.inbyte(A["npub"], k))
    if tagbytes:
        for k in range(8):
            want.extend(tagbytes[k])
    ok = s2 is not None and s2[2] == 0xB0 and tuple(s2[3]) == tuple(want)
    desc = "?"
    if s2 is not None and tagbytes and tuple(s2[3]) != tuple(want):
        for i, (g, w) in enumerate(zip(s2[3], want)):
            if g != w:
                desc = "nonce' bit %d is %s, specification says %s" % (i, gf2.describe(g), gf2.describe(w))
                break
    c.ob(ok, "NONCE2", "siv-nonce2", "second pass: setup(nonce[0..3] || tag, 0xB0)",
         "second-pass setup is not setup(npub[0..3] || tag, 0xB0): domain %s; %s" % (hex(s2[2]) if s2 is not None and s2[2] is not None else s2, desc))
    return n + 1


def check_siv_auth(c, ex, p, f, A, ev, ks, klen, name):
    """SIV decrypt: after the keystream pass, the MAC is recomputed over (npub, ad, recovered plaintext)"""
    su = [e for e in ev if e[0] == "SETUP"]
    ab = [e for e in ev if e[0] == "ABSORB"]
    gt = [e for e in ev if e[0] == "GENTAG"]
    lenlf = repr(Lf({A["clen"]: 1, 1: -8}))
    ok = len(su) == 1 and su[0][2] == 0x90 and su[0][7] == repr(Lf.s(A["npub"])) and len(ab) == 2 \
        and (ab[0][2], ab[0][3], ab[0][5], ab[0][6]) == (0x30, P640, repr(Lf.s(A["ad"])), repr(Lf.s(A["adlen"]))) \
        and (ab[1][2], ab[1][3], ab[1][5]) == (0x50, KR[klen], repr(Lf.s(A["m"]))) and ab[1][6] in (lenlf,) and len(gt) == 1
    if ok:
        ok = mode.words_eq([list(w) for w in ab[0][4]], [gf2.sym_word(("SETUP", su[0][1], i), 32) for i in range(4)]) and \
            mode.words_eq([list(w) for w in ab[1][4]], [gf2.sym_word(("ABSORB", ab[0][1], i), 32) for i in range(4)]) and \
            mode.words_eq([list(w) for w in gt[0][2]], [gf2.sym_word(("ABSORB", ab[1][1], i), 32) for i in range(4)])
    c.ob(ok, "MODE", "%s-siv-mac" % name, "MAC recomputed: setup(npub,0x90); absorb(ad,0x30,5 rounds); absorb(recovered plaintext, clen-8, 0x50, keyed rounds); tag",
         "authentication pass differs from the specification: setups %s absorbs %s" % ([(hex(e[2] or 0), e[7]) for e in su], [(hex(e[2] or 0), e[3], e[5], e[6]) for e in ab]))
    return 1


def _le64(v):
    return [gf2.const_word((v >> (8 * i)) & 0xFF, 8) for i in range(8)]


def _small_path(ex, p, f, A, kind, enc, L, klen, names, st):
    """one straight path of a cipher function for a concrete message length: -> (conformance finding, i/o-discipline finding), None = fine.
    Conformance: the calls, the permutation inputs and every output byte are those of the documented mode, word by word.
    I/O discipline (independent of the mode's constants): length stored, exactly the output bytes written, tag position, load before
    store per offset, reads inside the input"""
    nk = klen // 32
    n = L if enc else L - 8
    ev = calls_of(p)
    outs = mode.outs_of(p)
    in_name, out_name = ("m", "c") if enc else ("c", "m")
    IN, OUT = A[in_name], A[out_name]
    conf = io = memd = None

    def C(msg):
        nonlocal conf
        conf = conf or msg

    def IO(msg):
        nonlocal io
        io = io or msg

    def MEM(msg):
        nonlocal memd
        memd = memd or msg
    if problems(p):
        raise Broken("%s: with length %d the path has accesses the evaluation does not resolve (%s)" % (f.name, L, problems(p)[:2]))
    rv = p.end[1]
    if not enc and L < 8:
        k = ex.subst(p, rv).const() if (rv is not None and not is_word(rv)) else None
        if ev or outs or k is None or (k & 0xFFFFFFFF) != 0xFFFFFFFF:
            IO("an input of %d byte(s) (shorter than a tag) is not refused with -1 before anything is called or written (calls %s, writes %s, returns %s)" % (L, [e[0] for e in ev], list(outs)[:2], k))
        return conf, io, memd
    want_k = [gf2.wnot(mode.le_bytes([mode.inbyte(A["k"], 4 * i + b) for b in range(4)], 4)) for i in range(nk)]
    steps = word_steps(n)
    pos = [0]

    def nxt(kindname):
        if pos[0] >= len(ev) or ev[pos[0]][0] != kindname:
            C("call %d is %s where the mode has %s (calls: %s)" % (pos[0], ev[pos[0]][0] if pos[0] < len(ev) else "nothing", kindname, [e[0] for e in ev]))
            return None
        e = ev[pos[0]]
        pos[0] += 1
        return e

    def syms(tag, e):
        return [gf2.sym_word((tag, e[1], i), 32) for i in range(4)]

    def setup(dom, nonce_bits, ptr):
        e = nxt("SETUP")
        if e is None:
            return None
        if e[2] != dom or e[6] != names["setup"]:
            C("setup call is %s with domain %s, the mode has %s with 0x%02X" % (e[6], hex(e[2]) if e[2] is not None else e[2], names["setup"], dom))
        if ptr is not None and e[7] != ptr:
            C("setup reads the nonce at %s, expected %s" % (e[7], ptr))
        if nonce_bits is not None and tuple(e[3]) != tuple(nonce_bits):
            C("the 12 nonce bytes handed to setup (domain 0x%02X) are not the ones the mode composes" % dom)
        if not mode.words_eq([list(w) for w in e[4]], want_k):
            C("key words are not NOT LE32(k) when setup is called: %s" % mode.first_diff([list(w) for w in e[4]], want_k))
        return syms("SETUP", e)

    def absorb(S, dom, rounds, ptr, ln):
        e = nxt("ABSORB")
        if e is None:
            return None
        if (e[2], e[3], e[5], e[6], e[8]) != (dom, rounds, ptr, ln, names["absorb"]):
            C("absorb call is %s(domain %s, %s rounds, %s, %s), the mode has %s(0x%02X, %d, %s, %s)" % (e[8], hex(e[2] or 0), e[3], e[5], e[6], names["absorb"], dom, rounds, ptr, ln))
        if S is not None and not mode.words_eq([list(w) for w in e[4]], S):
            C("absorb (domain 0x%02X) does not continue from the state the previous call left" % dom)
        return syms("ABSORB", e)

    def data_pass(S, dom, absorbs):
        """keystream / message pass over n bytes from state S; returns the state after it"""
        exp = {}
        for (off, nb) in steps:
            e = nxt("P")
            if e is None or S is None:
                return None, exp
            if e[2] != KR[klen] or e[6] != names["perm"]:
                C("message permutation at offset %d is %s with %s rounds, the mode has %s with %d" % (off, e[6], e[2], names["perm"], KR[klen]))
            if not mode.words_eq([list(w) for w in e[3]], mode.fb(S, dom)):
                C("state entering the permutation of the word at offset %d: %s" % (off, mode.first_diff([list(w) for w in e[3]], mode.fb(S, dom))))
            if not mode.words_eq([list(w) for w in e[4]], want_k):
                C("key words changed before the permutation of the word at offset %d" % off)
            Q = mode.Pw(e[1])
            xin = mode.le_bytes([mode.inbyte(IN, off + j) for j in range(nb)], nb)
            if enc:
                absorbed = xin
                outw = gf2.wxor(xin, Q[2])
            else:
                outw = mode.mask_r(gf2.wxor(xin, Q[2]), nb)
                absorbed = outw
            for j in range(nb):
                exp[off + j] = outw[8 * j: 8 * j + 8]
            S = [Q[0], Q[1] if nb == 4 else gf2.wxor(Q[1], W(nb)), Q[2], gf2.wxor(Q[3], absorbed)] if absorbs else Q
        return S, exp
    npub_p, ad_p, adlen_p = repr(Lf.s(A["npub"])), repr(Lf.s(A["ad"])), repr(Lf.s(A["adlen"]))
    nonce1 = None
    tagpos = repr(Lf({A["c"]: 1, 1: n}) if n else Lf.s(A["c"]))
    gt = None
    if kind == "aead":
        S = setup(0x10, nonce1, npub_p)
        S = absorb(S, 0x30, P640, ad_p, adlen_p)
        S, exp = data_pass(S, 0x50, True)
        gt = nxt("GENTAG")
        if gt is not None and S is not None:
            if gt[5] != names["gentag"] or not mode.words_eq([list(w) for w in gt[2]], S):
                C("the tag is not generated by %s from the state after the last block" % names["gentag"])
    elif enc:
        S = setup(0x90, nonce1, npub_p)
        S = absorb(S, 0x30, P640, ad_p, adlen_p)
        S = absorb(S, 0x50, KR[klen], repr(Lf.s(A["m"])), repr(Lf.c(n)))
        gt = nxt("GENTAG")
        if gt is not None and S is not None and (gt[5] != names["gentag"] or not mode.words_eq([list(w) for w in gt[2]], S)):
            C("the synthetic IV is not generated from the state after absorbing AD and plaintext")
        n2 = []
        for k in range(4):
            n2.extend(mode.inbyte(A["npub"], k))
        if gt is not None:
            for k in range(8):
                n2.extend(gf2.sym_word(("TAG", gt[1], k), 8))
        S = setup(0xB0, n2 if gt is not None else None, None)
        S, exp = data_pass(S, 0xD0, False)
    else:
        n2 = []
        for k in range(4):
            n2.extend(mode.inbyte(A["npub"], k))
        for k in range(8):
            n2.extend(mode.inbyte(A["c"], n + k))
        S = setup(0xB0, n2, None)
        S, exp = data_pass(S, 0xD0, False)
        S = setup(0x90, nonce1, npub_p)
        S = absorb(S, 0x30, P640, ad_p, adlen_p)
        S = absorb(S, 0x50, KR[klen], repr(Lf.s(A["m"])), repr(Lf.c(n)))
        gt = nxt("GENTAG")
        if gt is not None and S is not None and (gt[5] != names["gentag"] or not mode.words_eq([list(w) for w in gt[2]], S)):
            C("the tag to compare is not generated from the state after absorbing AD and the recovered plaintext")
    # ---- outputs
    for j in range(n):
        got = outs.get((OUT, j))
        if got is None:
            IO("output byte %d of %d is never written" % (j, n))
        elif j in exp and got != exp[j]:
            if any(b_ is gf2.TOP for b_ in got):
                raise Broken("%s: with length %d output byte %d is not representable in the GF(2) term domain: not decided by the small-length rule" % (f.name, L, j))
            C("output byte %d is %s, the mode has %s" % (j, gf2.describe(got[0]), gf2.describe(exp[j][0])))
    lenobj = A["clen"] if enc else A["mlen"]
    lenval = n + 8 if enc else n
    gotlen = [outs.get((lenobj, b)) for b in range(8)]
    if gotlen != _le64(lenval):
        IO("*%s is not set to %d" % ("clen" if enc else "mlen", lenval))
    allowed = {(OUT, j) for j in range(n + (8 if enc else 0))} | {(lenobj, b) for b in range(8)}
    extra = [k_ for k_ in outs if k_ not in allowed and not (k_[0] == IN and outs[k_] == mode.inbyte(k_[0], k_[1]))]
    if extra:
        IO("writes outside the %d output bytes and the length: %s" % (n + (8 if enc else 0), sorted(extra, key=repr)[:4]))
    if enc:
        if gt is not None:
            if gt[3] != tagpos:
                IO("the tag is written at %s, expected c + %d" % (gt[3], n))
            for b in range(8):
                if outs.get((A["c"], n + b)) != gf2.sym_word(("TAG", gt[1], b), 8):
                    IO("c[%d] does not hold tag byte %d at return" % (n + b, b))
                    break
        if pos[0] != len(ev):
            C("calls after the mode is complete: %s" % [e[0] for e in ev[pos[0]:]])
    else:
        ch = nxt("CHECK")
        if ch is not None:
            if gt is not None and tuple(ch[4]) != tuple(b for kk in range(8) for b in gf2.sym_word(("TAG", gt[1], kk), 8)):
                IO("check_tag does not compare the tag just generated")
            if ch[5] != tagpos or ch[6] != 8:
                IO("the received tag is read at %s (%s bytes), expected c + %d (8 bytes)" % (ch[5], ch[6], n))
            if ch[2] != repr(Lf.s(A["m"])) or ch[3] != repr(Lf.c(n)):
                IO("check_tag is given (%s, %s) to wipe on rejection, expected (m, %d)" % (ch[2], ch[3], n))
            if not (isinstance(rv, Lf) and rv == Lf.s(("verdict", ch[1]))):
                IO("the function does not return check_tag's verdict")
        if pos[0] != len(ev):
            C("calls after the mode is complete: %s" % [e[0] for e in ev[pos[0]:]])
    okal, badj = mode.alias_order_ok(p, IN, OUT)
    if not okal:
        MEM("input byte %s is loaded after output byte %s was stored: wrong when both share one buffer" % (badj, badj))
    ins = {k_ for (o_, k_) in mode.ins_of(p) if o_ == IN}
    lim = n if enc else n + 8
    if not ins <= set(range(lim)):
        MEM("reads input offsets %s with an input of %d byte(s)" % (sorted(ins - set(range(lim)))[:4], lim))
    return conf, io, memd


def check_cipher_small(ck, mod, f, label, rulemap, maxlen=100):
    """every message length 0..maxlen, each evaluated as straight path(s) (length concrete, data symbolic; a test of buffer alignment gives
    one path per class): independent of how the loops are written.  Longer messages are the per-class rules' (generic iteration)"""
    m = FN_RE.match(f.name)
    ks, kind, direction = m.group(1), m.group(2), m.group(3)
    klen = int(ks)
    enc = direction == "encrypt"
    c = Ctx(ck, f, label, rulemap)
    names = spec_names(ks, kind)
    A = {nm: irx.argsym(f, f.param_index(nm)) for nm in ("c", "m", "ad", "npub", "k", "clen", "mlen", "adlen")}
    li = f.param_index("mlen" if enc else "clen")
    st = mode.find_state_obj(f)
    badc = badio = badmem = None
    npaths = 0
    top = maxlen if enc else maxlen + 8
    for L in range(top + 1):
        ex = irx.Exec(f, mode.Handler(klen), mode.havoc_state(klen // 32), auto=True, unrotate=True, split_max=32, arg_consts={li: L})
        ps = ex.run()
        for p in ps:
            if p.end[0] != "ret":
                raise Broken("%s: with length %d a path does not run through to the return (ends with %s): not decided by the small-length rule" % (f.name, L, p.end[0]))
            if any(e[0] == "cond-data" for e in p.events):
                raise Broken("%s branches on data bits: not decided by the small-length rule" % f.name)
            npaths += 1
            cf, io, mm = _small_path(ex, p, f, A, kind, enc, L, klen, names, st)
            if cf and badc is None:
                badc = (L, cf)
            if io and badio is None:
                badio = (L, io)
            if mm and badmem is None:
                badmem = (L, mm)
    what = "%s 0..%d" % ("mlen" if enc else "clen", top)
    c.ob(badc is None, "SMALL", "whole-message(%s)" % what, "for every length in %s (%d straight paths, data symbolic): the calls, every permutation input and every output byte are those of the "
         "documented mode, word by word, whatever the loop structure" % (what, npaths), "with %s = %s: %s" % ("mlen" if enc else "clen", badc[0] if badc else "?", badc[1] if badc else ""))
    c.ob(badio is None, "SMALLIO", "whole-message-io(%s)" % what, "for every length in %s: length stored, exactly the output bytes written, tag written / read right behind the message; "
         "decrypt returns check_tag's verdict and hands it (m, clen - 8); inputs shorter than a tag refused" % what,
         "with %s = %s: %s" % ("mlen" if enc else "clen", badio[0] if badio else "?", badio[1] if badio else ""))
    c.ob(badmem is None, "SMALLMEM", "whole-message-mem(%s)" % what, "for every length in %s: every input byte is loaded before the output byte at its offset is stored (in-place use), and nothing "
         "outside the input is read" % what, "with %s = %s: %s" % ("mlen" if enc else "clen", badmem[0] if badmem else "?", badmem[1] if badmem else ""))
    return 3


def cipher_fns(mod, kinds):
    out = []
    for f in mod.fns.values():
        m = FN_RE.match(f.name)
        if m and m.group(2) in kinds:
            out.append(f)
    return sorted(out, key=lambda f: f.name)
