"""C19 — reentrancy: no writable global/static state, no heap, imports within the
allow-list, pointer parameters do not escape (DESIGN 5/C19)."""
import os, re
from ..build import Broken, CLANG
from ..build import run as sh
from ..facts import Module, relpath
from .. import asmsrc

LEVEL = "other"

# pure functions of their arguments (no hidden state): harmless for reentrancy whatever else they are wrong for
PURE = {"memcmp", "bcmp", "memchr", "strlen", "strnlen", "strcmp", "strncmp", "abs", "labs"}
ALLOW_COMMON = {"memcpy", "memset", "memmove", "explicit_bzero", "__errno_location"} | PURE
# imports known to keep hidden process-wide state or to use the heap: a definite violation
STATEFUL = {"rand", "srand", "random", "srandom", "strtok", "localtime", "gmtime", "ctime", "asctime", "getenv", "setenv", "setlocale", "strerror",
            "printf", "fprintf", "puts", "fopen", "fclose", "fread", "fwrite", "atexit", "signal"}
ALLOW = {
    "H": ALLOW_COMMON | {"getrandom"},
    "T-getentropy": ALLOW_COMMON | {"getentropy"},
    "T-syscall": ALLOW_COMMON | {"syscall"},
    "T-urandom": ALLOW_COMMON | {"open", "read", "close"},
    "T-none": ALLOW_COMMON | {"clock_gettime", "gettimeofday", "time"},
    "Z-volatile": ALLOW_COMMON,
}
# intrinsics that are pure / memory helpers (no state, no heap)
INTRINSIC_OK = re.compile(r"^llvm\.(dbg\.|lifetime\.|memcpy\.|memset\.|memmove\.|fshl\.|fshr\.|bswap\.|umin\.|umax\.|smin\.|smax\.|"
                          r"vector\.reduce\.|ctpop\.|ctlz\.|cttz\.|abs\.|usub\.sat\.|uadd\.sat\.|experimental\.noalias|assume|expect|objectsize)")
# parameters that the API says are retained by the state object
ESCAPE_OK = {("tinyjambu_prng_init_user", "callback"), ("tinyjambu_prng_init_user", "user_data")}

HEAP = {"malloc", "calloc", "realloc", "free", "aligned_alloc", "posix_memalign", "strdup", "alloca", "mmap", "brk", "sbrk"}


def _library_fn_names(mod, all_defined):
    return all_defined


def check_module(ck, mod, defined_anywhere, label):
    v, form = mod.variant, mod.form
    # R-C19-GLOBALS
    n = 0
    for g in mod.globals:
        if g["declaration"]:
            # external data reference: not library state, but an import of data
            ck.ob(False, "R-C19-GLOBALS", g["scope"] or "(file scope)", "extern-data:" + g["name"],
                  "no external data object referenced",
                  "library references external data object '%s'" % g["name"], where="%s:%s" % (relpath(g["file"]), g["line"]))
            continue
        n += 1
        where = "%s:%s" % (relpath(g["file"]), g["line"]) if g["file"] else "(compiler generated)"
        ok = g["constant"] and not g["tls"]
        ck.ob(ok, "R-C19-GLOBALS", g["scope"] or "(file scope)", "global:%s[%s]" % (g["name"], label),
              "global '%s' is constant and not thread-local" % g["name"],
              "writable %s object '%s' (%d bytes, type %s)%s: library state shared between calls/threads"
              % ("thread-local" if g["tls"] else ("function-local static" if g["scope"] else "file-scope"),
                 g["name"], g["size"], g["type"], (" in function " + g["scope"]) if g["scope"] else ""),
              where=where)
    # no-globals is itself an obligation instance per module
    ck.ok("R-C19-GLOBALS", "(module)", "census[%s]" % label,
          "%d global variable definitions, all constant" % n if n else "module defines 0 global variables")
    # R-C19-IMPORTS
    allow = ALLOW.get(v, ALLOW_COMMON)
    ncall = 0
    for d in mod.declarations:
        name = d["name"]
        if d["intrinsic"]:
            ok = bool(INTRINSIC_OK.match(name))
            if d["uses"] == 0:
                continue
            ck.ob(ok, "R-C19-IMPORTS", "(module)", "intrinsic:%s[%s]" % (name.split(".p0")[0], label),
                  "intrinsic %s is stateless" % name, "unexpected intrinsic %s" % name)
            continue
        if d["uses"] == 0:
            continue
        if name in defined_anywhere:
            continue  # another TU of the library (partial-module variants)
        sites = []
        for f in mod.fns.values():
            for c in f.real_insts():
                if c.op == "call" and c.callee == name:
                    sites.append((f.name, c.where))
                elif c.op != "call" and any(o == ("f", name) for o in c.ops):
                    sites.append((f.name, c.where))
        ok = name in allow
        if not ok and name not in HEAP and name not in STATEFUL and not any(name in a_ for a_ in ALLOW.values()):
            raise Broken("import '%s' is neither in the allow-list of stateless imports nor in the list of known stateful / heap functions: its effect on reentrancy is not classified" % name)
        msg = "import '%s' is not in the allow-list for configuration %s%s" % (
            name, v, " (heap allocation)" if name in HEAP else "")
        if not sites:
            sites = [("(module)", "?")]
        for fn, wh in sites:
            ncall += 1
            ck.ob(ok, "R-C19-IMPORTS", fn, "import:%s[%s]" % (name, label),
                  "call to allowed stateless/thread-safe import %s" % name, msg, where=relpath(wh))
    # R-C19-IMPORTS: every call site resolves (direct, or the one callback field)
    for f in mod.fns.values():
        for c in f.real_insts():
            if c.op == "call" and c.callee is None:
                co = c.d.get("callee_op")
                ck.ok("R-C19-IMPORTS", f.name, "indirect-call@%s[%s]" % (f.name, label),
                      "indirect call (entropy callback supplied by the caller)", where=relpath(c.where))
            if c.op == "alloca" and not c.get("static", True):
                ck.bad("R-C19-IMPORTS", f.name, "vla[%s]" % label, "variable-length stack allocation", where=relpath(c.where))
    return n, ncall


def _helper_retention_ok(mod, g, pname, depth=0):
    """g is file-local: the pointer parameter `pname` it stores is, at every call site left in the module, a parameter of the caller whose
    retention is documented (or the caller is such a helper itself); no call site left = every call was inlined"""
    if depth > 4:
        return False
    idx = [i_ for i_, p_ in enumerate(g.params) if p_["name"] == pname]
    if len(idx) != 1:
        return False
    for c in mod.fns.values():
        for I in c.calls(g.name):
            a = tuple(I.call_args()[idx[0]])
            if a[0] != "a":
                return False
            q = c.params[a[1]]["name"]
            if (c.name, q) in ESCAPE_OK:
                continue
            if c.internal and _helper_retention_ok(mod, c, q, depth + 1):
                continue
            return False
    return True


def check_escape(ck, mod, label):
    """R-C19-ESCAPE: no pointer derived from a parameter is stored anywhere but the
    callee's own frame, except the documented callback/user_data retention."""
    n = 0
    for f in mod.fns.values():
        # pointer-typed values derived from params (through gep/bitcast/phi/select)
        derived = {}
        for idx, p in enumerate(f.params):
            if p["ty"].endswith("*"):
                derived[("a", idx)] = p["name"]
        changed = True
        while changed:
            changed = False
            for i in f.insts:
                if ("i", i.id) in derived:
                    continue
                if i.op in ("getelementptr", "bitcast"):
                    srcs = i.ops[:1]
                elif i.op in ("phi", "select"):
                    srcs = [o for o in i.ops if o[0] in ("i", "a")]
                    if i.op == "select":
                        srcs = [o for o in i.ops[1:] if o[0] in ("i", "a")]
                else:
                    continue
                for s in srcs:
                    if s in derived and i.get("ty", "").endswith("*"):
                        derived[("i", i.id)] = derived[s]
                        changed = True
                        break
        allocas = {("i", i.id) for i in f.insts if i.op == "alloca"}

        def root_is_alloca(v, depth=0):
            if v in allocas:
                return True
            I = f.inst(v)
            if I is None or depth > 20:
                return False
            if I.op in ("getelementptr", "bitcast"):
                return root_is_alloca(I.ops[0], depth + 1)
            return False

        for s in f.insts:
            if s.op != "store":
                continue
            val, ptr = s.ops[0], s.ops[1]
            if val in derived:
                n += 1
                pname = derived[val]
                if root_is_alloca(ptr):
                    ck.ok("R-C19-ESCAPE", f.name, "store-ptr:%s->frame[%s]" % (pname, label),
                          "pointer from '%s' stored only into the function's own frame" % pname, where=relpath(s.where))
                elif (f.name, pname) in ESCAPE_OK:
                    ck.ok("R-C19-ESCAPE", f.name, "store-ptr:%s->state[%s]" % (pname, label),
                          "'%s' is retained in the PRNG state object as the API documents" % pname, where=relpath(s.where))
                elif f.internal and _helper_retention_ok(mod, f, pname):
                    # a file-local helper: its stores are its callers' (an inlined copy is checked in the caller's own body)
                    ck.ok("R-C19-ESCAPE", f.name, "store-ptr:%s->state-via-helper[%s]" % (pname, label),
                          "file-local helper: no call site left in the module, or every call site hands it a parameter whose retention the API documents", where=relpath(s.where))
                else:
                    ck.bad("R-C19-ESCAPE", f.name, "store-ptr:%s[%s]" % (pname, label),
                           "pointer derived from parameter '%s' is stored to memory outside the frame: it outlives the call" % pname,
                           where=relpath(s.where))
    return n


def check_asm(ck, build):
    bad = re.compile(r"^\s*\.(data|bss|comm|lcomm|local|tbss|tdata)\b")
    sect = re.compile(r"^\s*\.section\s+([^,\s]+)(?:\s*,\s*\"([^\"]*)\")?")
    progs = asmsrc.programs(build)
    n = 0
    for tid, ks, rel in progs:
        lines = asmsrc.preprocess(build, rel, asmsrc.TARGETS[tid][2])
        body = [l for l in lines if l[0].endswith(os.path.basename(rel))]
        if len(body) < 20:
            ck.note("assembly program %s/%s preprocesses to %d lines under its target macros (see C05 R-C05-SELECT); nothing to scan" % (tid, rel, len(body)))
            n += 1
            continue
        viol = None
        for fl, ln, t in body:
            if bad.match(t):
                viol = (ln, t)
                break
            m = sect.match(t)
            if m:
                flags = m.group(2) or ""
                name = m.group(1)
                if "w" in flags or name.startswith((".data", ".bss")):
                    viol = (ln, t)
                    break
        n += 1
        ck.ob(viol is None, "R-C19-GLOBALS", "tinyjambu_permutation_" + ks, "asm-sections:%s" % (tid + "/" + ks),
              "assembly program defines code only (%d lines, no writable section)" % len(body),
              "assembly file places data in a writable section: %s" % (viol[1] if viol else ""),
              where="%s:%s" % (rel, viol[0] if viol else 1))
    return n


def gcc_objects(ck, build):
    """thorough: symbol-level cross-check of gcc -O3 objects (no IR for gcc)."""
    import shutil
    if not shutil.which("gcc"):
        ck.note("gcc not present: object cross-check skipped")
        return
    outdir = os.path.join(build.dir, "gcc-objs")
    os.makedirs(outdir, exist_ok=True)
    vdir = build.variant_dir("H")
    allow = ALLOW["H"]
    for u in build.c_units():
        src = os.path.join(build.repo, u["file"])
        obj = os.path.join(outdir, u["file"].replace("/", "_") + ".o")
        p = sh(["gcc", "-I" + os.path.join(build.repo, "src"), "-I" + vdir, "-DHAVE_CONFIG_H", "-O3", "-std=gnu99", "-w", "-c", src, "-o", obj])
        if p.returncode != 0:
            raise Broken("gcc cannot compile %s: %s" % (u["file"], p.stderr[-500:]))
        nm = sh(["llvm-nm-14", obj]).stdout
        defined = set()
        for line in nm.splitlines():
            parts = line.split()
            if len(parts) < 2:
                continue
            kind, name = parts[-2], parts[-1]
            if kind in "BbDdCcSsGg":
                ck.bad("R-C19-GLOBALS", "(gcc object)", "gcc-data-symbol:%s" % name,
                       "gcc -O3 object of %s has writable data symbol %s (%s)" % (u["file"], name, kind), where=u["file"])
            elif kind == "U":
                if name.startswith("tinyjambu_") or name in allow or name == "_GLOBAL_OFFSET_TABLE_":
                    continue
                ck.bad("R-C19-IMPORTS", "(gcc object)", "gcc-import:%s" % name,
                       "gcc -O3 object of %s imports %s, not in the allow-list" % (u["file"], name), where=u["file"])
        ck.ok("R-C19-GLOBALS", "(gcc object)", "gcc-nm:" + u["file"], "gcc -O3 object has no B/D/C symbols; undefined symbols within allow-list")


def full_inl(build):
    return Module(build.facts("H", "N0"))


def run_check(ck, build):
    pass


def run(ck, build):
    ck.rule("R-C19-GLOBALS", "every global variable definition in every linked configuration (N0 and -O3 IR) is constant and not thread-local; "
            "assembly programs define no writable section")
    ck.rule("R-C19-IMPORTS", "every external symbol called is in the per-configuration allow-list of stateless/thread-safe imports; no heap, no VLA")
    ck.rule("R-C19-FRESH", "the PRNG initialisers and reseed leave no byte that they later hash to whatever an earlier use of that memory left there: the seed buffer is defined (all zero, or the "
            "old V in reseed) when the entropy source is asked, so a short or failed delivery gives a state that is independent of what the memory - the caller's object or the stack - was "
            "used for before")
    ck.rule("R-C19-ESCAPE", "no pointer derived from a parameter is stored outside the callee's frame except callback/user_data in the PRNG state")
    ck.not_decided += ["thread-safety of the allow-listed libc functions themselves (trusted)", "gcc builds below symbol level"]
    ck.assume("libc functions in the allow-list are thread-safe; errno is per-thread")
    # names defined somewhere in the library (for partial-module variants)
    full = Module(build.facts("H", "N0", inline=False))
    defined = set(full.fns)
    nfn = 0
    nglob = ncall = nesc = 0
    variants = ["H", "T-getentropy", "T-syscall", "T-urandom", "T-none", "Z-volatile"]
    forms = ["N0", "R3"]
    for v in variants:
        for form in forms:
            if form == "R3" and v != "H" and ck.tier == "quick":
                continue
            mod = full if (v == "H" and form == "N0") else Module(build.facts(v, form, inline=False))
            ck.config(v, form)
            label = "%s/%s" % (v, form)
            g, c = check_module(ck, mod, defined | set(mod.fns), label)
            nglob += g
            ncall += c
            nfn += len(mod.fns)
            if form == "N0":
                nesc += check_escape(ck, mod, label)
    nasm = check_asm(ck, build)
    # "a call's result never depends on earlier unrelated calls": besides globals, the one other carrier is what the caller's object held
    # before an initialiser was called on it.  The PRNG initialisers hash the seed buffer inside that object whether or not the source
    # filled it, so it must be defined (zero) when the source is asked: the byte-provenance summary of the seeding functions (shared
    # with R-C15-DEP / R-C17-USABLE; here only the init-time obligations)
    from . import kdflib
    nfresh = [0]

    def _fresh_ob(cond, rule, fn, cons, ok_, bad_, where=None):
        base = cons.split("[")[0]
        if base.endswith("-prefill"):        # init(cb)-prefill, init(null)-prefill, reseed-prefill: what the buffer handed to the source holds before the request
            nfresh[0] += 1
            return ck.ob(cond, "R-C19-FRESH", fn, "object-history-" + cons, ok_,
                         "the seed buffer inside the caller's object is hashed with whatever an earlier, unrelated use of that memory left there when the source delivers fewer than 32 bytes: "
                         + bad_, where=where)
        return cond
    try:
        kdflib.check_prng(_fresh_ob, full_inl(build), "H/N0", generate=False)
        ck.floor("R-C19-FRESH", "initialiser variants (callback / NULL callback)", nfresh[0], 1)
    except Broken as e:
        # the seeding summary does not follow this code: the clause is then not decided here (C15 / C17 report exit 2 for it); the
        # structural rules of this check stand on their own
        ck.not_decided.append("R-C19-FRESH (object history of the PRNG seed buffer): the seeding summary does not follow the code - %s" % str(e)[:160])
    ck.floor("R-C19-IMPORTS", "import call sites analysed", ncall, 10)
    ck.floor("R-C19-GLOBALS", "assembly programs scanned", nasm, 27)
    ck.floor("R-C19-ESCAPE", "pointer-parameter stores examined", nesc, 2)
    ck.floor("R-C19", "functions in H/N0 module", len(full.fns), 50)
    # positive control
    fx = Module(build.fixture_facts(os.path.join(os.path.dirname(os.path.dirname(os.path.dirname(__file__))), "fixtures", "c19_bad.c")))
    sub = type(ck)("C19-fixture")
    check_module(sub, fx, set(fx.fns), "fixture")
    check_escape(sub, fx, "fixture")
    keys = {v["construct"].split("[")[0] for v in sub.violations}
    for want in ("global:fx_scratch.buf", "global:fx_cached_key", "import:malloc", "import:rand", "store-ptr:p", "global:fx_tls"):
        ck.control("c19_bad.c:" + want, any(k.startswith(want) for k in keys), "violations seen: %s" % sorted(keys))
    if ck.tier == "thorough":
        gcc_objects(ck, build)
    ck.coverage_extra.update({"functions_analysed": nfn, "globals_seen": nglob, "import_call_sites": ncall,
                              "asm_programs": nasm, "pointer_stores_examined": nesc,
                              "exhaustive": True,
                              "exhaustive_over": "all global definitions, all external call sites and all stores of parameter-derived pointers in every buildable configuration"})
