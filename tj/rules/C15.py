"""C15 — the PRNG is the documented Hash_DRBG (SP 800-90A 10.1.1 over TinyJAMBU-Hash, V advanced after every block): construction conformance."""
import os
from ..build import Broken
from ..facts import Module
from . import kdflib

LEVEL = "other"
MAP = {"SEQ": "R-C15-SEQ", "DEP": "R-C15-DEP"}


def run(ck, build):
    ck.rule("R-C15-SEQ", "per entry point, on every path: instantiate = entropy request (32 bytes into V); V = Hash_df(header {1,0,0,1,0} | V | custom); C = Hash_df({1,0,0,1,0,0x00} | V); counter = 1.  "
            "reseed = entropy request into C; V = Hash_df({..,0x01} | V | C); C = Hash_df(0x00 | V); counter = 1.  feed = the same with the caller's data, counter + 1.  generate, one generic loop "
            "iteration with and without the automatic reseed and for every block length 1..32: output = first len bytes of Hash(V); H = Hash(0x03 | V); counter + 1.  prng_init forwards to init_user "
            "with the system source.  Hash calls are uninterpreted events whose outputs are fresh symbols; header bytes are checked as constants")
    ck.rule("R-C15-DEP", "the value hashed as V is, byte for byte, the value V holds at that point (old V for reseed/feed, the entropy for instantiate, the previous digest for C); the additional input is "
            "the entropy just delivered (reseed) or the caller's buffer (feed); in generate the new V is V + Hash(3|V) + C + counter as a 256-bit big-endian sum: per-byte support sets are exactly "
            "{V,H,C bytes i..31, counter} and the bit-level terms evaluate to the integer sum on carry-chain corner cases and pseudo-random assignments (counter < 2^31); C is untouched by generate")
    ck.rule("R-C15-HASH", "premise: the hash underneath is the documented TinyJAMBU-Hash and streams (all rules of C10/C11 re-run on the same IR)")
    ck.not_decided += ["output values (the hash is C10/C11); where automatic reseeds fall in a history is C16; short entropy deliveries only change the bytes called ENTROPY here "
                       "(the zero-fill before the request is not checked)", "counter values >= 2^32 - 765, where the implementation's 32-bit carry would wrap (unreachable: C16 bounds the counter)"]
    mod = Module(build.facts("H", "N0"))
    ck.config("H", "N0")

    def ob(cond, rule, fn, cons, ok, bad, where=None):
        return ck.ob(cond, MAP[rule], fn, cons, ok, bad, where=where)
    kdflib.check_prng(ob, mod, "H/N0")
    from . import hashlib
    hashlib.premises(ck, mod, "R-C15-HASH")
    # premise: where the automatic reseeds fall and what limit a set_reseed_limit request leaves behind (all rules of C16, re-run on the same IR)
    ck.rule("R-C15-RESEED", "premise: the limit a set_reseed_limit request stores is the documented clamp/rounding for every request, every write to the counter and limit fields is one of the "
            "documented ones, and generate tests the counter against the limit before every block (all rules of C16 re-run on the same IR): the clause 'where automatic reseeds fall'")
    from . import C16

    class _AsPremise:
        def __init__(self, ck):
            self._ck = ck

        def ob(self, cond, rule, *a, **k):
            return self._ck.ob(cond, "R-C15-RESEED", *a, **k)

        def ok(self, rule, *a, **k):
            self._ck.ok("R-C15-RESEED", *a, **k)

        def bad(self, rule, *a, **k):
            self._ck.bad("R-C15-RESEED", *a, **k)

        def __getattr__(self, n):
            return getattr(self._ck, n)
    C16.add_udiv_to_fin()
    pk = _AsPremise(ck)
    snap_ = ck.snapshot()
    try:
        _nc, _nl, offs_, incs_ = C16.census(pk, mod, "H/N0")
        C16.guard_rule(pk, mod, offs_, incs_, "H/N0")
    except Broken as e:
        # C16's rules do not follow this code: the premise is then not decided here (C16 itself says so); this check's own rules stand
        ck.rollback(snap_)
        ck.not_decided.append("R-C15-RESEED (where automatic reseeds fall): C16's rules do not follow the code - %s" % str(e)[:160])
    ck.floor("R-C15", "obligations over entry points / block-length classes", len(ck.obligations), 400)
    fx = Module(build.fixture_facts(os.path.join(os.path.dirname(os.path.dirname(os.path.dirname(__file__))), "fixtures", "c15_bad.c")))
    sub = type(ck)("C15-fixture")

    def ob2(cond, rule, fn, cons, ok, bad, where=None):
        return sub.ob(cond, MAP[rule], fn, cons, ok, bad, where=where)
    try:
        kdflib.check_prng(ob2, fx, "fixture")
    except Broken as e:
        sub.bad("BROKEN", "fixture", "broken", str(e))
    got = {(v["rule"], v["construct"].split("[")[0].split("(")[0]) for v in sub.violations}
    need = {("R-C15-DEP", "reseed-V-V"), ("R-C15-SEQ", "block-advance-hash"), ("R-C15-DEP", "block-add")}
    ck.control("c15_bad.c", need <= got, "fixture violations: %s" % sorted(got))
    ck.coverage_extra.update({"exhaustive": True, "exhaustive_over": "all paths of init_user/reseed/feed; generate: one generic iteration x {automatic reseed, none} x block length 1..32"})
