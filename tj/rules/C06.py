"""C06 — memory safety and exact buffer contract (clauses named; DESIGN 5/C06)."""
import os
from ..build import Broken, CLANG
from ..build import run as sh
from ..facts import Module, relpath, const_val
from .. import dep, bounds, ir, aff
from ..aff import Lin
from . import aeadlib, C03

LEVEL = "other"
BYTE_TYPES = {"unsigned char", "char", "signed char", "void", "uint8_t", "const unsigned char"}


def bounds_rule(ck, mod, label):
    n = {"proven": 0, "unknown": 0, "refuted": 0}
    unknown = []
    covmemo = {}
    for f in sorted(mod.fns.values(), key=lambda f: f.name):
        fb = bounds.FnBounds(mod, f)
        if fb.c is None:
            raise Broken("no size contract for function %s (tj/bounds.py CONTRACTS): new function?" % f.name)
        for I, what, verdict, detail in fb.run():
            n[verdict] += 1
            cons = "%s#%s[%s]" % (what.split("(")[0].replace(" ", "-"), _an(f, I), label)
            if verdict == "proven":
                ck.ok("R-C06-BOUNDS", f.name, cons, str(detail), where=relpath(I.where))
            elif verdict == "refuted":
                ck.bad("R-C06-BOUNDS", f.name, cons, "%s out of bounds: %s" % (what, detail), where=relpath(I.where))
            elif _cov_in_range(f, I, fb, covmemo):
                # the affine analysis has no trip count for a loop that tests the cursor's alignment; D-COV's residue classes do
                ck.ok("R-C06-BOUNDS", f.name, cons, "inside the buffer in every (alignment mod 8, length) class: all reads and writes of this buffer stay within [0, length) (D-COV, lengths 0..63 "
                      "individually, residues mod 8 beyond)", where=relpath(I.where))
                n["proven"] += 1
                n["unknown"] -= 1
            else:
                unknown.append("%s %s %s: %s" % (f.name, relpath(I.loc), what, detail))
        # inter-call invariants are re-established by every store to the field
        for S in f.insts:
            if S.op != "store":
                continue
            b, o = ir.ptr_base(f, S.ops[1])
            if b[0] == "a" and b[1] in fb.inv and o in fb.inv[b[1]]:
                size, (lo, hi) = fb.inv[b[1]][o]
                v = fb.A.value(S.ops[0])
                oklo = fb.prove_nonneg_cases(v.add(Lin.const(-lo)), S.b)
                okhi = fb.prove_nonneg_cases(v.scale(-1).add(Lin.const(hi)), S.b)
                if oklo and okhi:
                    ck.ok("R-C06-INV", f.name, "field-invariant@+%d#%s[%s]" % (o, _an(f, S), label),
                          "value stored into the buffer-position field stays within [%d,%d]" % (lo, hi), where=relpath(S.where))
                elif fb.prove_nonneg_cases(v.add(Lin.const(-hi - 1)), S.b):
                    ck.bad("R-C06-INV", f.name, "field-invariant@+%d#%s[%s]" % (o, _an(f, S), label),
                           "value %s stored into the buffer-position field always exceeds %d here: later calls index the block buffer out of bounds" % (fb.A.names(v), hi),
                           where=relpath(S.where))
                elif _transient_ok(mod, fb, f, S, b[1], o, size, lo, hi, v):
                    ck.ok("R-C06-INV", f.name, "field-invariant@+%d#%s[%s]" % (o, _an(f, S), label),
                          "value stored into the buffer-position field is either within [%d,%d] at every return it reaches or overwritten before (no callee sees the field in between)" % (lo, hi), where=relpath(S.where))
                else:
                    unknown.append("%s %s: value %s stored into the buffer-position field not shown to stay within [%d,%d]" % (f.name, relpath(S.loc), fb.A.names(v), lo, hi))
    return n, unknown


def _cov_in_range(f, I, fb, memo):
    """fallback for an access the affine analysis leaves undecided: does D-COV show, class by class, that every read and every write of the
    caller buffer this access goes to stays inside [0, length)?  Only for byte buffers whose contract is (buffer, length parameter)"""
    from .. import cov
    if I.op not in ("load", "store"):
        return False
    ptr = I.ops[0] if I.op == "load" else I.ops[1]
    ai = _local_root(f, ptr)
    if ai is None or fb.c is None:
        return False
    spec = fb.c.get(f.params[ai]["name"])
    if not (isinstance(spec, tuple) and spec[0] == "len" and spec[2] == 0):
        return False
    li = f.param_index(spec[1])
    if li is None:
        return False
    key = (f.name, ai)
    if key not in memo:
        memo[key] = set()
        fixed = {i_: 8 for i_, p_ in enumerate(f.params) if f.name == "tinyjambu_aead_check_tag" and (p_["name"] or "") == "size"}
        try:
            ids = set()
            okall = True
            for mode_ in ("write", "read"):
                _n, bad, used = cov.coverage(f, ai, li, fixed_args=fixed, mode=mode_, only_over=True)
                okall = okall and bad is None
                ids |= used
            if okall:
                memo[key] = ids
        except Broken:
            pass
    return I.id in memo[key]


def _transient_ok(mod, fb, f, S, argidx, o, size, lo, hi, v):
    """the invariant of a state field has to hold when the function returns, not at every store: a stored value that may leave the range is
    accepted when on every path from the store either the field is stored again, or a return is reached under conditions that put the value
    into the range; and no callee that is handed a pointer covering the field runs in between"""
    from ..aff import Lin

    def scan(bid, start):
        """-> 'covered' | 'fail' | 'go on'"""
        blk = f.blocks[bid]
        for iid in blk.insts[start:]:
            I = f.insts[iid]
            if I.op == "store" and I.id != S.id:
                bb, oo = ir.ptr_base(f, I.ops[1])
                if bb[0] == "a" and bb[1] == argidx and oo == o:
                    return "covered"
                if bb[0] == "a" and bb[1] == argidx and oo is None:
                    return "fail"
            elif I.op == "call" and I.callee and not I.is_dbg() and not I.is_lifetime():
                g = mod.fns.get(I.callee)
                for ai, a in enumerate(I.ops):
                    try:
                        av = fb.A.value(tuple(a))
                    except Exception:
                        continue
                    base, off = fb.base_and_offset(av)
                    if base != ("a", argidx):
                        continue
                    if g is None or off is None or off.constant() is None or ai >= len(g.params):
                        return "fail"
                    ext = fb.param_size(g, ai)
                    if ext is None or ext.constant() is None:
                        return "fail"
                    if not (o >= off.constant() + ext.constant() or o + size <= off.constant()):
                        return "fail"
            elif I.op == "ret":
                if fb.prove_nonneg_cases(v.add(Lin.const(-lo)), bid) and fb.prove_nonneg_cases(v.scale(-1).add(Lin.const(hi)), bid):
                    return "covered"
                return "fail"
        return "go on"
    pos = f.blocks[S.b].insts.index(S.id) + 1
    r = scan(S.b, pos)
    if r != "go on":
        return r == "covered"
    seen, todo = set(), list(f.blocks[S.b].succs)
    while todo:
        x = todo.pop()
        if x in seen:
            continue
        seen.add(x)
        if x == S.b:
            return False        # back at the store through a loop without a covering store: not decided here
        r = scan(x, 0)
        if r == "fail":
            return False
        if r == "go on":
            todo.extend(f.blocks[x].succs)
    return True


def nowrap_rule(ck, mod, label):
    """R-C06-NOWRAP: side condition of the bounds proof - the integer (non-wrapping) model of size_t arithmetic is exact.
    For every 64-bit add/sub whose affine value has a negative part: proven non-negative from the dominating comparisons
    (consistent case splits), or REFUTED by a witness: parameter values that satisfy every dominating condition of the
    block (which is inevitably reached under them) and make the value negative, i.e. the length wraps to ~2^64 and the
    accesses it bounds leave the buffers.  Anything else is listed as not decided (no verdict)."""
    import itertools
    n = {"proven": 0, "refuted": 0, "unknown": 0}
    notes = []
    for f in sorted(mod.fns.values(), key=lambda f: f.name):
        if not f.blocks:
            continue
        fb = bounds.FnBounds(mod, f)
        for I in f.insts:
            if I.op not in ("sub", "add") or I.bits != 64:
                continue
            lin = fb.A.value(("i", I.id))
            if fb._trivially_nonneg(lin):
                continue
            cons = "length-arith#%s[%s]" % (_an(f, I), label)
            if fb.prove_nonneg_cases(lin, I.b):
                n["proven"] += 1
                ck.ok("R-C06-NOWRAP", f.name, cons, "%s cannot wrap below zero here" % fb.A.names(lin), where=relpath(I.where))
                continue
            wit = _wrap_witness(f, fb, lin, I.b)
            if wit:
                n["refuted"] += 1
                ck.bad("R-C06-NOWRAP", f.name, cons, "the length %s wraps below zero for %s, which satisfies every check made before this point: the value becomes ~2^64 and the accesses it bounds "
                       "run past the caller's buffers" % (fb.A.names(lin), wit), where=relpath(I.where))
            else:
                n["unknown"] += 1
                notes.append("%s %s: %s not shown non-negative" % (f.name, relpath(I.loc), fb.A.names(lin)))
    return n, notes


def _inevitable(f, b):
    """is block b reached on every execution that satisfies the branch conditions ir.conditions_at(f, b) reports?
    (walk up the dominator tree: each step is either unconditional (post-dominance) or one recorded conditional edge)"""
    cur = b
    seen = set()
    while cur not in seen:
        seen.add(cur)
        d = f.blocks[cur].idom
        if d == -1:
            return True
        if f.postdominates_block(cur, d):
            cur = d
            continue
        ok = False
        for s_ in f.blocks[d].succs:
            if f.dominates_block(s_, cur) and (s_ == cur or f.postdominates_block(cur, s_)):
                others = [p for p in f.blocks[s_].preds if p != d and not f.dominates_block(s_, p)]
                if not others and f.blocks[d].succs.count(s_) == 1 and ir.edge_cond(f, d, s_):
                    ok = True
        if not ok:
            return False
        cur = d
    return False


def _wrap_witness(f, fb, lin, block):
    import itertools
    if not _inevitable(f, block):
        return None
    taut = fb.and_facts()                      # unconditional truths about masked values: they cannot constrain the parameters
    facts = [g for g in fb.ineqs_at(block) if not any(g is t_ for t_ in taut)]
    eqs = list(fb.A.facts_at(block))
    syms = set(s_ for s_ in lin if s_ != 1)
    for g in facts + eqs:
        syms |= set(s_ for s_ in g if s_ != 1)
    if not syms or any(not (isinstance(s_, tuple) and s_[0] == "a") for s_ in syms):
        return None
    syms = sorted(syms)
    if len(syms) > 3:
        return None
    cand = sorted({0, 1, 2, 3, 4, 5, 6, 7, 8, 9, 15, 16, 17, 31, 32, 33, 63, 64, 65} | {abs(int(g.get(1, 0))) + d_ for g in facts + eqs + [lin] for d_ in (-1, 0, 1) if abs(int(g.get(1, 0))) + d_ >= 0})

    def ev(g, asg):
        return sum(c * (asg[s_] if s_ != 1 else 1) for s_, c in g.items())
    for vals in itertools.product(cand, repeat=len(syms)):
        asg = dict(zip(syms, vals))
        if all(ev(g, asg) >= 0 for g in facts) and all(ev(g, asg) == 0 for g in eqs) and ev(lin, asg) < 0:
            return ", ".join("%s = %d" % (f.params[s_[1]]["name"], v) for s_, v in asg.items())
    return None


def _an(f, I):
    return "%s%d" % (I.op, sum(1 for J in f.insts[:I.id] if J.op == I.op))


def _alignment_guarded(mod, f, I, ptr, argidx, w):
    """is the access I (through ptr, into the buffer of parameter argidx of f) dominated by a test that the parameter's address is a
    multiple of w, and is ptr that parameter plus multiples of w?"""
    if w not in (2, 4, 8):
        return False
    A = aff.Aff(f)
    v = A.value(tuple(ptr))
    if argidx is None:
        # the buffer belongs to a caller: the test must be on the parameter of f through which the pointer arrived
        roots = [s_ for s_ in v if isinstance(s_, tuple) and s_[0] == "a" and v[s_] == 1 and (f.params[s_[1]]["ty"] or "").endswith("*")]
        if len(roots) != 1:
            return False
        argidx = roots[0][1]
    base = ("a", argidx)
    if v.get(base, 0) != 1:
        return False
    off = aff.Lin(v)
    del off[base]
    fb = bounds.FnBounds(mod, f)
    if off.get(1, 0) % w or (any(s_ != 1 for s_ in off) and fb._term_gcd(off) % w):
        return False

    def addr_terms(val, depth=0):
        """parameters whose addresses are OR-ed into val"""
        J = f.inst(tuple(val))
        if J is None or depth > 6:
            return set()
        if J.op == "ptrtoint":
            b_, o_ = ir.ptr_base(f, J.ops[0])
            return {b_} if (b_[0] == "a" and o_ == 0) else set()
        if J.op == "or":
            return addr_terms(J.ops[0], depth + 1) | addr_terms(J.ops[1], depth + 1)
        if J.op in ("zext", "trunc"):
            return addr_terms(J.ops[0], depth + 1)
        return set()
    for c, truth in ir.conditions_at(f, I.b):
        C = f.inst(c)
        if C is None or C.op != "icmp" or C.get("pred") not in ("eq", "ne"):
            continue
        if (C.get("pred") == "eq") != truth:
            continue
        x, z = C.ops[0], C.ops[1]
        if not (z[0] == "c" and int(z[1]) == 0):
            continue
        M = f.inst(tuple(x))
        if M is None or M.op != "and":
            continue
        for val, msk in ((M.ops[0], M.ops[1]), (M.ops[1], M.ops[0])):
            if msk[0] == "c" and (int(msk[1]) & (w - 1)) == (w - 1) and base in addr_terms(val):
                return True
    return False


def _srcline(I):
    """file:line of the statement an access stems from (innermost inlining frame)"""
    return (relpath(I.where) or "").split(" (inlined")[0]


def _local_root(f, ptr):
    """the pointer parameter of f through which ptr was derived (a buffer of some caller), or None"""
    try:
        v = aff.Aff(f).value(tuple(ptr))
    except Exception:
        return None
    roots = [s_ for s_ in v if isinstance(s_, tuple) and s_[0] == "a" and v[s_] == 1 and (f.params[s_[1]]["ty"] or "").endswith("*")]
    return roots[0][1] if len(roots) == 1 else None


def _aligned_in_every_class(f, I, argidx, memo):
    if argidx is None:
        return False
    return _aligned_in_every_class_(f, I, argidx, memo)


def _aligned_in_every_class_(f, I, argidx, memo):
    """D-COV: is the wide access I into the buffer of parameter argidx at an aligned address in every class?  The length parameter is the
    one named after the buffer (`<buf>_len`, `<buf>len`) or the size parameter that follows it; anything D-COV cannot follow is 'no'"""
    from .. import cov
    key = (f.name, argidx)
    if key not in memo:
        memo[key] = (set(), {})
        bn = f.params[argidx]["name"] or ""
        li = None
        for i_, p_ in enumerate(f.params):
            if p_["ty"] == "i64" and (p_["name"] or "") in (bn + "_len", bn + "len", bn + "_size", bn + "size"):
                li = i_
        if li is None and argidx + 1 < len(f.params) and f.params[argidx + 1]["ty"] == "i64":
            li = argidx + 1
        if li is not None:
            fixed = {i_: 8 for i_, p_ in enumerate(f.params) if p_["ty"] == "i64" and i_ != li and (p_["name"] or "") == "size" and f.name == "tinyjambu_aead_check_tag"}
            try:
                memo[key] = cov.aligned_accesses(f, argidx, li, fixed_args=fixed)
            except Broken:
                pass
    return I.id in memo[key][0]


def bytewise_const_rule(ck, mod, label, width=True):
    """R-C06-BYTEWISE / R-C06-CONST through the points-to part of D-DEP"""
    d = dep.Dep(mod, [], {}, set())
    d.run()
    nacc = 0
    covmemo = {}
    for f in mod.fns.values():
        for I in f.insts:
            if I.op not in ("load", "store"):
                continue
            ptr = I.ops[0] if I.op == "load" else I.ops[1]
            av = d.val(f, ptr)
            for (obj, off, lo, hi) in av.p:
                if obj[0] != "arg":
                    continue
                g = mod.fns[obj[1]]
                prm = g.params[obj[2]]
                isbyte = prm["di"]["pointee"] in BYTE_TYPES
                if (I.get("align") or 1) > 8:
                    # no type of this library's interface is aligned beyond 8 bytes (its widest scalars are 64-bit): an access that claims more
                    # (an aligned vector load of the state words, say) is misaligned for objects the caller may legitimately pass
                    ck.bad("R-C06-ALIGN", f.name, "overaligned#%s[%s]" % (_an(f, I), label),
                           "%s of %d byte(s) through parameter '%s' of %s claims %d-byte alignment; the object's type guarantees at most 8: undefined (and faulting with aligned vector moves) "
                           "for a caller's object at an address that is not a multiple of %d" % (I.op, I.get("size"), prm["name"], g.name, I.get("align"), I.get("align")), where=relpath(I.where))
                    continue
                if isbyte:
                    nacc += 1
                    al = I.get("align") or 1
                    if (al > 1 or I.get("size") > 1) and _alignment_guarded(mod, f, I, ptr, obj[2] if obj[1] == f.name else None, max(al, I.get("size"))):
                        # a fast path behind a run-time test of the buffer's alignment: the wide access is never misaligned.  Whether its
                        # value is the little-endian one is checked where values are compared (C01/C02/C08/C09 on this host's IR); that the
                        # path is compiled for little-endian hosts only is a preprocessor matter this rule does not see
                        ck.ok("R-C06-BYTEWISE", f.name, "align#%s[%s]" % (_an(f, I), label),
                              "%d-byte access to caller byte buffer '%s' only behind a run-time alignment test of that buffer, at offsets that are multiples of %d"
                              % (I.get("size"), prm["name"], max(al, I.get("size"))), where=relpath(I.where))
                        ck.note("wide access to '%s' at %s behind an alignment test: byte-order dependence not decided here" % (prm["name"], relpath(I.where)))
                        continue
                    proven = getattr(ck, "aligned_where", None)
                    if proven is None:
                        proven = ck.aligned_where = {}
                    if not width and al > 1 and proven.get((f.name, _srcline(I))) is not None and al <= proven[(f.name, _srcline(I))]:
                        # optimised IR: the access stems from a source statement whose accesses were shown aligned on the source-shaped IR
                        ck.ok("R-C06-BYTEWISE", f.name, "align#%s[%s]" % (_an(f, I), label),
                              "access claiming %d-byte alignment stems from %s, whose accesses are at addresses that are multiples of %d in every class (shown on H/N0)"
                              % (al, relpath(I.where), proven[(f.name, _srcline(I))]), where=relpath(I.where))
                        continue
                    if (al > 1 or I.get("size") > 1) and _aligned_in_every_class(f, I, obj[2] if obj[1] == f.name else _local_root(f, ptr), covmemo):
                        proven[(f.name, _srcline(I))] = min(proven.get((f.name, _srcline(I)), 1 << 30), max(al, I.get("size")))
                        # the address is computed to be a multiple of the access width in every (alignment, length) class of the buffer
                        # (a byte loop up to the next boundary, then words): D-COV's residue analysis, the same one that proves the coverage
                        ck.ok("R-C06-BYTEWISE", f.name, "align#%s[%s]" % (_an(f, I), label),
                              "%d-byte access to caller byte buffer '%s' at an address that is a multiple of %d in every (alignment mod 8, length) class in which it executes"
                              % (I.get("size"), prm["name"], max(al, I.get("size"))), where=relpath(I.where))
                        ck.note("wide access to '%s' at %s at a computed aligned address: byte-order dependence not decided here" % (prm["name"], relpath(I.where)))
                        continue
                    ck.ob(al <= 1, "R-C06-BYTEWISE", f.name, "align#%s[%s]" % (_an(f, I), label),
                          "access to caller byte buffer '%s' of %s claims alignment 1" % (prm["name"], g.name),
                          "%s of %d byte(s) through caller byte buffer '%s' (of %s) claims %d-byte alignment: misaligned access for unaligned buffers"
                          % (I.op, I.get("size"), prm["name"], g.name, al), where=relpath(I.where))
                    if width:
                        ck.ob(I.get("size") == 1, "R-C06-BYTEWISE", f.name, "width#%s[%s]" % (_an(f, I), label),
                              "caller byte buffer '%s' accessed one byte at a time (no dependence on host byte order)" % prm["name"],
                              "%d-byte %s through caller byte buffer '%s' of %s: result depends on host byte order (and alignment)"
                              % (I.get("size"), I.op, prm["name"], g.name), where=relpath(I.where))
                if I.op == "store" and prm["di"]["const_pointee"]:
                    ck.bad("R-C06-CONST", f.name, "store-to-const#%s[%s]" % (_an(f, I), label),
                           "store through the pointer-to-const parameter '%s' of %s: an input buffer is modified" % (prm["name"], g.name), where=relpath(I.where))
        for I in f.calls():
            intr = I.get("intrinsic") or ""
            if intr.startswith(("llvm.memcpy", "llvm.memset", "llvm.memmove")):
                av = d.val(f, I.call_args()[0])
                for (obj, off, lo, hi) in av.p:
                    if obj[0] == "arg" and mod.fns[obj[1]].params[obj[2]]["di"]["const_pointee"]:
                        g = mod.fns[obj[1]]
                        ck.bad("R-C06-CONST", f.name, "mem-to-const#%s[%s]" % (_an(f, I), label),
                               "memcpy/memset into the pointer-to-const parameter '%s' of %s" % (g.params[obj[2]]["name"], g.name), where=relpath(I.where))
    ck.ok("R-C06-ALIGN", "(module)", "census[%s]" % label, "no access through a pointer parameter claims more than 8-byte alignment (points-to analysis over the whole module)")
    ck.ok("R-C06-CONST", "(module)", "census[%s]" % label, "no store or mem intrinsic writes through a pointer-to-const parameter (points-to analysis over the whole module)")
    return nacc


def shift_rule(ck, mod, label):
    """constant shift amounts must be below the operand width; a variable amount is accepted when its known-bits range is below
    the width, refuted when it is provably at or above it, and otherwise listed as not decided (no verdict)"""
    from .. import rng
    n = 0
    for f in mod.fns.values():
        kb = None
        for I in f.insts:
            if I.op in ("shl", "lshr", "ashr"):
                n += 1
                s = I.ops[1]
                w = I.bits or 64
                cons = "shift#%s[%s]" % (_an(f, I), label)
                if s[0] == "c":
                    ck.ob(const_val(s) < w, "R-C06-SHIFT", f.name, cons, "constant shift amount below the operand width",
                          "shift by the constant %s on a %s-bit value: out-of-range shift amount" % (const_val(s), w), where=relpath(I.where))
                    continue
                if kb is None:
                    kb = rng.known_bits(f)
                k = kb.get(tuple(s))
                if k is not None and k.umax() < w:
                    ck.ok("R-C06-SHIFT", f.name, cons, "variable shift amount within [%d,%d], below the operand width %d" % (k.umin(), k.umax(), w), where=relpath(I.where))
                elif k is not None and k.umin() >= w:
                    ck.bad("R-C06-SHIFT", f.name, cons, "shift amount is at least %d on a %d-bit value on every execution" % (k.umin(), w), where=relpath(I.where))
                else:
                    ck.note("variable shift amount at %s: range not derived by the known-bits domain: not decided" % relpath(I.where))
    return n


def nsw_rule(ck, mod, label):
    """signed arithmetic that clang marks nsw: operand ranges must exclude overflow - decided for the constant / small-range cases"""
    from .. import rng
    n = 0
    for f in mod.fns.values():
        kb = None
        for I in f.insts:
            if I.op in ("add", "sub", "mul") and I.get("nsw") and I.bits and I.bits <= 32:
                n += 1
                if kb is None:
                    kb = rng.known_bits(f)

                def rngof(v):
                    if v[0] == "c":
                        x = const_val(v, signed=True)
                        return x, x
                    k = kb.get(v)
                    J = f.inst(v)
                    if J is not None and J.op == "phi" and (J.get("scev") or {}).get("k") == "rec":
                        return None
                    if k is None:
                        return None
                    if k.umax() < (1 << (I.bits - 1)):
                        return k.umin(), k.umax()
                    return None
                a, b = rngof(I.ops[0]), rngof(I.ops[1])
                if a is None or b is None:
                    ck.note("nsw %s at %s: operand range not derived (loop counter / opaque): not decided" % (I.op, relpath(I.where)))
                    continue
                lo = {"add": a[0] + b[0], "sub": a[0] - b[1], "mul": min(a[0] * b[0], a[0] * b[1], a[1] * b[0], a[1] * b[1])}[I.op]
                hi = {"add": a[1] + b[1], "sub": a[1] - b[0], "mul": max(a[0] * b[0], a[0] * b[1], a[1] * b[0], a[1] * b[1])}[I.op]
                ok = -(1 << (I.bits - 1)) <= lo and hi < (1 << (I.bits - 1))
                ck.ob(ok, "R-C06-NSW", f.name, "nsw#%s[%s]" % (_an(f, I), label), "signed %s cannot overflow: operands in %s, %s" % (I.op, a, b),
                      "signed %s may overflow: operands in %s, %s" % (I.op, a, b), where=relpath(I.where))
    return n


def witness_rule(ck, build):
    """compile-fail witnesses: the library compiles cleanly with the cast/shift/VLA diagnostics promoted to errors"""
    # (cast-align is not among them: a byte pointer cast to a word pointer is decided where it is dereferenced - R-C06-BYTEWISE accepts
    # the access only behind a run-time alignment test of that buffer, and refutes it otherwise)
    flags = ["-fsyntax-only", "-Werror=cast-qual", "-Werror=incompatible-pointer-types-discards-qualifiers",
             "-Werror=shift-count-overflow", "-Werror=shift-count-negative", "-Werror=vla", "-Werror=array-bounds", "-Werror=uninitialized"]
    n = 0
    vdir = build.variant_dir("H")
    for u in build.c_units():
        src = os.path.join(build.repo, u["file"])
        p = sh([CLANG, "-I" + os.path.join(build.repo, "src"), "-I" + vdir, "-DHAVE_CONFIG_H", "-std=gnu99", "-O1"] + flags + [src])
        n += 1
        first = [l for l in p.stderr.splitlines() if "error:" in l][:1]
        ck.ob(p.returncode == 0, "R-C06-WITNESS", "(translation unit)", "witness:%s" % u["file"],
              "compiles with cast-qual / shift-count / vla / array-bounds / uninitialized as errors",
              "compile-fail witness: %s" % (first[0].replace(build.repo + "/", "") if first else p.stderr[-200:]), where=u["file"])
    return n


def run(ck, build):
    ck.rule("R-C06-BOUNDS", "every load, store, mem intrinsic and call argument of every library function stays inside the object it derives from: address = object + affine offset (SCEV "
            "recurrences, paired non-affine cursors), object sizes from the contract table (fixed sizes, paired length parameters, DWARF state sizes) and allocas; bounds follow from the "
            "dominating comparisons, with consistent case splits on merge phis; call sites are checked against the callee's contract (assume/guarantee)")
    ck.rule("R-C06-NOWRAP", "side condition of the bounds proof: every size_t subtraction whose affine value has a negative part is non-negative under the dominating comparisons (so the integer model "
            "of length arithmetic is exact: clen - 8 after the clen >= 8 guard, remaining - 4 under remaining >= 4, 16 - posn under the field invariant ...); refuted only by a witness - parameter values "
            "that pass every earlier check and make the length wrap to ~2^64")
    ck.rule("R-C06-INV", "the inter-call invariants the bounds proof assumes (hash block position <= 15, HKDF block position <= 32) are re-established by every store to those fields")
    ck.rule("R-C06-ALIGN", "no load or store whose address derives from a pointer parameter claims an alignment above 8 bytes (the widest alignment any type in the library's interface has): "
            "objects supplied by the caller are only as aligned as their types say (source-shaped and -O3 IR)")
    ck.rule("R-C06-BYTEWISE", "every load/store whose points-to set contains a caller byte buffer claims alignment 1 (N0 and -O3 IR) and is one byte wide (N0): no misaligned access, no host-endianness dependence")
    ck.rule("R-C06-CONST", "no store or mem intrinsic writes through a pointer-to-const parameter (whole-module points-to)")
    ck.rule("R-C06-SHIFT", "every shift has an amount below the operand width: constants checked exactly, variable amounts through their known-bits range (undecided ones are listed, not reported)")
    ck.rule("R-C06-NSW", "signed nsw arithmetic with derivable operand ranges cannot overflow (known-bits ranges); others are listed as not decided")
    ck.rule("R-C06-EXACT", "exact output ranges: AEAD/SIV functions write exactly [0,mlen+8) / [0,clen-8) (per path class, via the mode summaries), refused calls write nothing, "
            "generate_tag writes exactly 8 bytes; check_tag's wipe and tinyjambu_clean never write outside the requested bytes (D-COV; whether they cover all of them is C04's / C20's); "
            "HKDF expand writes the left-over bytes, whole and partial blocks at the cursor and zero-fills exactly the rest on refusal, PBKDF2 writes 32 bytes per whole block and exactly the "
            "requested bytes of the last one (from the HKDF / PBKDF2 stream summaries; the values are C13's / C14's)")
    ck.rule("R-C06-WITNESS", "compile-fail witnesses: all library units compile with cast-qual, shift-count, vla, array-bounds, uninitialized promoted to errors")
    ck.not_decided += ["reads of uninitialised local bytes beyond what clang's -Wuninitialized and the mode summaries see", "nsw arithmetic whose operands are loop counters / opaque (listed in notes)",
                       "optimised objects beyond the alignment claims of the -O3 IR; gcc", "zero-length pointers may still be passed to memcpy(…, 0) (defined in C2x; glibc does not touch them)"]
    ck.assume("contracts of tj/bounds.py (sizes of caller buffers as documented in TinyJAMBU.h); private state structs fit in and are no more aligned than the public ones (checked)")
    ck.assume("distinct parameters do not overlap except c == m; size_t additions of caller lengths do not exceed 2^64 (mlen + 8)")
    mod = Module(build.facts("H", "N0"))
    ck.config("H", "N0")
    label = "H/N0"
    n, unknown = bounds_rule(ck, mod, label)
    ck.floor("R-C06-BOUNDS", "accesses proven in bounds", n["proven"], 1000)
    for u in unknown:
        ck.note("bounds not decided: " + u)
    ck._c06_unknown = unknown
    # "outputs never depend on uninitialised memory", the one carrier the library has: the buffer the PRNG hands to the entropy source is hashed
    # whether or not the source filled it, so it must be defined when the source is asked (the byte-provenance summary of the seeding
    # functions shared with R-C15-DEP / R-C19-FRESH; here only those obligations)
    ck.rule("R-C06-DEFINED", "the buffer the PRNG initialisers and reseed hand to the entropy source is defined (all zero, or the old V in reseed) before the request: a short or failed "
            "delivery leaves no byte of the caller's object or of the stack in what is hashed into the generator")
    from . import kdflib

    def _defined_ob(cond, rule, fn, cons, ok_, bad_, where=None):
        if cons.split("[")[0].endswith("-prefill"):
            return ck.ob(cond, "R-C06-DEFINED", fn, "defined-" + cons, ok_, "the generator's output depends on memory the library never initialised: " + bad_, where=where)
        return cond
    try:
        kdflib.check_prng(_defined_ob, mod, label, generate=False)
    except Broken as e:
        ck.not_decided.append("R-C06-DEFINED (the PRNG seed buffer is defined before the entropy request): the seeding summary does not follow the code - %s" % str(e)[:160])
    # calls and definitions agree on the prototype (after linking, a call whose type differs from the definition's is a call through a cast:
    # undefined behaviour, and in practice an argument passed at the wrong width)
    ck.rule("R-C06-PROTO", "every direct call in the linked library has the function type its callee is defined with (a definition that drifts from the header's prototype is called "
            "through a cast: the argument registers are read at another width than they were written)")
    npro = 0
    for g_ in mod.fns.values():
        for I_ in g_.insts:
            if I_.op == "call" and I_.callee and not I_.is_dbg() and not I_.is_lifetime():
                npro += 1
                if I_.get("proto_mismatch"):
                    ck.bad("R-C06-PROTO", g_.name, "call-prototype:%s#%d[%s]" % (I_.callee, I_.id, label),
                           "call of %s with another function type than its definition (%s)" % (I_.callee, I_.get("proto_mismatch")), where=relpath(I_.where))
    ck.ok("R-C06-PROTO", "(module)", "call-prototypes[%s]" % label, "%d direct calls examined" % npro)
    nw, nwnotes = nowrap_rule(ck, mod, label)
    ck.floor("R-C06-NOWRAP", "length subtractions shown not to wrap", nw["proven"], 12)
    for u in nwnotes:
        ck.note("no-wrap side condition not decided: " + u)
    nacc = bytewise_const_rule(ck, mod, label)
    ck.floor("R-C06-BYTEWISE", "accesses to caller byte buffers examined (N0)", nacc, 300)
    ns = shift_rule(ck, mod, label)
    ck.floor("R-C06-SHIFT", "shift instructions", ns, 300)
    nsw_rule(ck, mod, label)
    # private state fits the public one
    for pub in ("tinyjambu_hash_state_t", "tinyjambu_hkdf_state_t", "tinyjambu_prng_state_t"):
        priv = pub[:-2] + "_p_t"
        cp, cq = mod.composites.get(pub), mod.composites.get(priv)
        if cp is None or cq is None:
            raise Broken("anchor vanished: %s / %s not in DWARF" % (pub, priv))

        def al(c):
            a = 1
            for m_ in c["members"]:
                a = max(a, m_["esize"] if m_["kind"] == "array" else (min(m_["size"], 8) if m_["kind"] in ("scalar", "pointer") else 4))
            return a
        ck.ob(cq["size"] <= cp["size"] and al(cq) <= al(cp), "R-C06-BYTEWISE", "(types)", "private-fits-public:%s" % pub,
              "sizeof/alignof(%s) = %d/%d <= %d/%d of the public type" % (priv, cq["size"], al(cq), cp["size"], al(cp)),
              "private state %s (size %d, align %d) does not fit the public type (size %d, align %d)" % (priv, cq["size"], al(cq), cp["size"], al(cp)))
    # -O3 alignment claims
    mod3 = Module(build.facts("H", "R3", inline=False))
    ck.config("H", "R3")
    bytewise_const_rule(ck, mod3, "H/R3", width=False)
    # exact output ranges from the mode summaries and D-COV
    rm = {"OUTRANGE": "R-C06-EXACT", "INRANGE": "R-C06-EXACT", "LEN": "R-C06-EXACT"}       # where the tag sits inside the range is C01/C03's
    # (this clause rides on the mode summaries: where they do not recognise a function's shape the clause is left undecided
    # for that function - memory safety itself is R-C06-BOUNDS' - instead of declaring the whole property unanalysable)
    def _exact(fn_, *a):
        snap = ck.snapshot()
        try:
            fn_(*a)
        except Broken as e:
            # (what the summary recorded before it gave up was computed under a reading of the code that turned out wrong)
            ck.rollback(snap)
            ck.note("exact output range not decided (shape not recognised by the mode summaries): %s" % str(e)[:200])
    for ks in ("128", "192", "256"):
        _exact(aeadlib.check_gentag, ck, mod, ks, label, rm)
        _exact(aeadlib.check_absorb, ck, mod, ks, label, rm)
    for f in aeadlib.cipher_fns(mod, ("aead", "siv")):
        _exact(aeadlib.check_cipher, ck, mod, f, label, rm)
    # the same clause for HKDF: which bytes of the caller's buffer a call writes (left-over bytes, whole and partial blocks, and the zero
    # fill of exactly the rest when the 255-block limit is hit) - taken from the HKDF stream summaries (C13 decides the values)
    from . import kdflib as _kdf
    _wr = ("refuse-zero-fill", "refuse-before-loop", "leftover-short", "leftover-all", "leftover-extent", "block-copy")

    def _hk(cond, rule, fn, cons, ok, bad, where=None):
        if cons.startswith(_wr):
            return ck.ob(cond, "R-C06-EXACT", fn, cons, ok, bad, where=where)
        return cond
    _exact(_kdf.check_hkdf, _hk, mod, label)
    # ... and for PBKDF2 (32 bytes per whole block, exactly the requested bytes of the last one)
    _wr2 = ("full-block-range", "last-block-range")         # (which bytes are written - what they hold is C14's / C15's)

    def _kd(cond, rule, fn, cons, ok, bad, where=None):
        if cons.startswith(_wr2):
            return ck.ob(cond, "R-C06-EXACT", fn, cons, ok, bad, where=where)
        return cond
    _exact(_kdf.check_pbkdf2, _kd, mod, label)

    class _W:
        def __init__(self, ck):
            self._ck = ck

        # only the extent of the wipe is a memory-safety matter; its value and its completeness are C04's
        def ob(self, cond, rule, fn, construct, *a, **k):
            return self._ck.ob(cond, "R-C06-EXACT", fn, construct, *a, **k) if rule == "R-C04-WIPE" and construct.startswith("wipe-coverage") else cond

        def ok(self, rule, *a, **k):
            pass

        def bad(self, rule, *a, **k):
            pass

        def __getattr__(self, n_):
            return getattr(self._ck, n_)
    C03.cmp_rule(_W(ck), mod, label, only_over=True)      # under-coverage of the wipe is C04's, not a memory-safety matter
    witness_rule(ck, build)
    # exact read set of the streaming hash input, per buffer-position class (D-COV in read mode)
    from .. import cov
    ck.rule("R-C06-READS", "tinyjambu_hash_update reads only inside in[0, inlen): for each of the 16 buffer-position classes and every (alignment, length) class the memcpy sources stay within [0, inlen) (bytes that are not read at all are a digest matter, C10/C11) "
            "(D-COV in read mode; trip counts from ScalarEvolution) - so no byte beyond the declared input can influence a digest")
    fu = mod.fn("tinyjambu_hash_update")
    posn_off = mod.field("tinyjambu_hash_state_p_t", "posn")["offset"]
    ncl = 0
    for pz in range(16):
        ncls, bad, used = cov.coverage(fu, fu.param_index("in"), fu.param_index("inlen"), W=16, Q0=4, mode="read", field_consts={(0, posn_off): pz}, only_over=True)
        ncl += ncls
        ck.ob(bad is None, "R-C06-READS", fu.name, "reads-exactly-input(posn=%d)[%s]" % (pz, label),
              "with %d byte(s) buffered, only bytes of in[0, inlen) are read in all %d (alignment, length) classes" % (pz, ncls),
              "with %d byte(s) buffered and %s: %s" % (pz, bad[0] if bad else "", bad[1] if bad else ""), where=relpath("%s:%d" % (fu.file, fu.line)))
    # assembly backends: stores only to the four state words / own frame, loads inside the structure (C05's machine)
    from . import C05
    from .. import asmsrc

    class _E:
        def __init__(self, ck):
            self._ck = ck

        def ob(self, cond, rule, *a, **k):
            return self._ck.ob(cond, "R-C06-ASM", *a, **k) if rule == "R-C05-EFFECT" else cond

        def ok(self, rule, *a, **k):
            if rule == "R-C05-EFFECT":
                self._ck.ok("R-C06-ASM", *a, **k)

        def bad(self, rule, *a, **k):
            if rule == "R-C05-EFFECT":
                self._ck.bad("R-C06-ASM", *a, **k)

        def __getattr__(self, n_):
            return getattr(self._ck, n_)
    ck.rule("R-C06-ASM", "in each of the 27 assembly programs every store targets state+{0,4,8,12} or the own frame and every load stays inside the state structure / frame (addresses base + constant)")
    for tid, ks, rel in asmsrc.programs(build):
        C05.analyse_program(_E(ck), build, tid, ks, rel, rules=("EFFECT",))
    if ck.tier == "thorough":
        for v in ("T-getentropy", "T-syscall", "T-urandom"):
            mv = Module(build.facts(v, "N0"))
            ck.config(v, "N0")
            f = mv.fn("tinyjambu_trng_generate")
            fb = bounds.FnBounds(mv, f)
            for I, what, verdict, detail in fb.run():
                if verdict == "refuted":
                    ck.bad("R-C06-BOUNDS", f.name, "%s#%s[%s]" % (what, _an(f, I), v), str(detail), where=relpath(I.where))
                elif verdict == "proven":
                    ck.ok("R-C06-BOUNDS", f.name, "%s#%s[%s]" % (what, _an(f, I), v), str(detail), where=relpath(I.where))
    # positive control
    fx = Module(build.fixture_facts(os.path.join(os.path.dirname(os.path.dirname(os.path.dirname(__file__))), "fixtures", "c06_bad.c")))
    sub = type(ck)("C06-fixture")
    try:
        bounds_rule(sub, fx, "fixture")
    except Broken:
        pass
    bytewise_const_rule(sub, fx, "fixture")
    shift_rule(sub, fx, "fixture")
    got = {v["rule"] for v in sub.violations}
    for want in ("R-C06-BOUNDS", "R-C06-BYTEWISE", "R-C06-CONST"):
        ck.control("c06_bad.c:" + want, want in got, "rules violated on fixture: %s" % sorted(got))
    # (a provably out-of-range shift never reaches the IR: clang folds it to poison and -Werror=shift-count-overflow in R-C06-WITNESS
    # rejects the constant case; the fixture's in-range variable shift is a negative control)
    ck.control("c06_bad.c:in-range variable shift stays silent", "R-C06-SHIFT" not in got, "rules violated on fixture: %s" % sorted(got))
    if getattr(ck, "_c06_unknown", None) and not ck.violations:
        # on the pinned tree every access is proven; an access the affine analysis can no longer bound is 'unknown', not a verdict
        raise Broken("memory safety of %d access(es) can no longer be established by the affine bounds analysis (neither proven nor refuted), first: %s"
                     % (len(ck._c06_unknown), ck._c06_unknown[0][:300]))
    ck.coverage_extra.update({"accesses_proven": n["proven"], "accesses_not_decided": n["unknown"], "byte_buffer_accesses": nacc, "shifts": ns,
                              "exhaustive": True, "exhaustive_over": "every load/store/mem intrinsic/call argument of every library function in the host configuration"})
