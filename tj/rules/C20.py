"""C20 — state erasure: free functions wipe the whole public state on every
non-null path; tinyjambu_clean wipes exactly n bytes; facts persist at -O3."""
import os
from ..build import Broken
from ..build import run as sh
from ..facts import Module, relpath, const_val
from .. import ir

LEVEL = "other"

FREE_FUNCS = ["tinyjambu_hash_free", "tinyjambu_hmac_free", "tinyjambu_hkdf_free", "tinyjambu_prng_free"]
# primitives: name -> (ptr arg index, size arg index)
PRIMS = {"tinyjambu_clean": (0, 1), "explicit_bzero": (0, 1), "memset_s": (0, 3), "SecureZeroMemory": (0, 1)}


def wipe_summary(ck, mod, fname, rule, label, depth=0, record=True):
    """Return list of (lo, hi) byte ranges of parameter 0 that fname wipes on every
    path where parameter 0 is non-null; records obligations for the must-pass rule."""
    f = mod.fn(fname)
    if depth > 4:
        raise Broken("free-function wrapper chain deeper than 4 at %s" % fname)
    wipes = []  # (inst id, lo, hi)
    for c in f.calls():
        callee = c.callee
        if callee in PRIMS:
            pi, si = PRIMS[callee]
            args = c.call_args()
            base, off = ir.ptr_base(f, args[pi])
            if base != ("a", 0) or off is None:
                continue
            sz, _ = ir.strip_int(f, args[si])
            if sz[0] != "c":
                if record:
                    ck.bad(rule, fname, "wipe-size[%s]" % label,
                           "wipe primitive %s is called with a non-constant size" % callee, where=relpath(c.where))
                continue
            wipes.append((c.id, off, off + const_val(sz)))
        elif (c.get("intrinsic") or "").startswith("llvm.memset"):
            # plain memset(state, 0, n): zeroes a caller-visible object, accepted as a wipe of the state
            args = c.call_args()
            base, off = ir.ptr_base(f, args[0])
            if base != ("a", 0) or off is None:
                continue
            if args[1][0] != "c" or const_val(args[1]) != 0 or args[2][0] != "c":
                continue
            wipes.append((c.id, off, off + const_val(args[2])))
        elif callee in mod.fns and callee in FREE_FUNCS + ["tinyjambu_clean"] and callee != fname:
            args = c.call_args()
            base, off = ir.ptr_base(f, args[0])
            if base != ("a", 0) or off is None:
                continue
            for lo, hi in wipe_summary(ck, mod, callee, rule, label, depth + 1, record=False):
                wipes.append((c.id, off + lo, off + hi))
        elif callee is not None and callee not in mod.fns and callee.endswith("_free") and callee.startswith("tinyjambu_"):
            raise Broken("%s calls %s which is not defined in this module" % (fname, callee))
    if not record:
        # summary only: require the must-pass property silently
        nulls = ir.null_test_edges(f, ("a", 0))
        esc = ir.rets_reachable_avoiding(f, [w[0] for w in wipes], nulls)
        return [] if esc else _merge([(lo, hi) for _, lo, hi in wipes])
    nulls = ir.null_test_edges(f, ("a", 0))
    esc = ir.rets_reachable_avoiding(f, [w[0] for w in wipes], nulls)
    if esc:
        r, path = esc[0]
        own = [i for i in f.insts if i.op == "store" and ir.ptr_base(f, i.ops[1])[0] == ("a", 0)]
        if own:
            raise Broken("%s writes the state with individual stores instead of a wipe call: unrecognised wiping idiom" % fname)
        ck.bad(rule, fname, "must-wipe[%s]" % label,
               "a path with a non-null state reaches the return without passing through a wipe of the state "
               "(%d wipe call(s) on parameter 0 found)" % len(wipes),
               where=relpath(r.where), path=ir.path_desc(f, path))
        return []
    # nothing may write the state again after it was wiped
    wipe_ids = {w[0] for w in wipes}
    for i in f.insts:
        tgt = None
        if i.op == "store":
            tgt = i.ops[1]
        elif i.op == "call" and not i.is_dbg() and not i.is_lifetime() and i.id not in wipe_ids:
            for a in i.call_args():
                if a[0] in ("i", "a") and ir.ptr_base(f, a)[0] == ("a", 0) and f.inst(a) is not None or a == ("a", 0):
                    tgt = a
        if tgt is None or ir.ptr_base(f, tgt)[0] != ("a", 0):
            continue
        after = [w for w in wipe_ids if f.can_reach(w, i.id)]
        if after:
            ck.bad(rule, fname, "write-after-wipe[%s]" % label,
                   "the state object is written again after it has been wiped", where=relpath(i.where))
    ck.ok(rule, fname, "must-wipe[%s]" % label,
          "every non-null path passes through %d wipe call(s) on the state parameter" % len(wipes),
          where=relpath(f.insts[wipes[0][0]].where) if wipes else None)
    return _merge([(lo, hi) for _, lo, hi in wipes])


def _merge(rs):
    rs = sorted(rs)
    out = []
    for lo, hi in rs:
        if out and lo <= out[-1][1]:
            out[-1] = (out[-1][0], max(out[-1][1], hi))
        else:
            out.append((lo, hi))
    return out


def public_size(mod, f):
    p = f.params[0]
    di = p["di"]
    if not di["ptr"]:
        raise Broken("%s parameter 0 is not a pointer" % f.name)
    name = di["pointee"]
    if name in mod.typedefs and mod.typedefs[name]["size"]:
        return name, mod.typedefs[name]["size"]
    if di["pointee_size"]:
        return name, di["pointee_size"]
    raise Broken("cannot determine size of public state type %s from DWARF" % name)


def check_free(ck, mod, label, rule="R-C20-FREE"):
    n = 0
    for fn in FREE_FUNCS:
        f = mod.fn(fn)
        tname, size = public_size(mod, f)
        rng = wipe_summary(ck, mod, fn, rule, label)
        n += 1
        covered = rng == [(0, size)]
        exact_or_over = bool(rng) and rng[0][0] <= 0 and rng[0][1] >= size and len(rng) == 1
        if not rng:
            continue  # must-wipe already refuted
        # erasure needs every byte of the object wiped; wiping MORE than the object is a memory-safety matter (C06), not an erasure one
        ck.ob(covered or exact_or_over, rule, fn, "wipe-range[%s]" % label,
              "wiped range covers [0,%d) = sizeof(%s)" % (size, tname),
              "wiped byte ranges %s of the state do not equal [0,%d) = sizeof(%s): %s"
              % (rng, size, tname, "bytes beyond the object are written" if exact_or_over else "part of the state survives free"),
              where=relpath("%s:%d" % (f.file, f.line)))
    return n


def check_clean(ck, mod, label, rule="R-C20-CLEAN"):
    f = mod.fn("tinyjambu_clean")
    if len(f.params) != 2:
        raise Broken("tinyjambu_clean no longer has (buf, size) parameters")
    prims = [c for c in f.calls() if c.callee in ("explicit_bzero", "memset_s", "SecureZeroMemory")]
    where = relpath("%s:%d" % (f.file, f.line))
    if prims:
        # forwarded-arguments shape
        # (a return taken only when size == 0 has nothing to wipe: edges on which the size parameter itself was compared equal to 0 are left out)
        zero_edges = []
        for bb in f.blocks:
            t_ = f.term(bb.id)
            if t_.op == "br" and t_.get("cond") and t_.ops[0][0] == "i":
                C_ = f.inst(t_.ops[0])
                if C_ is not None and C_.op == "icmp" and C_.get("pred") in ("eq", "ne"):
                    x_, y_ = tuple(C_.ops[0]), tuple(C_.ops[1])
                    if x_[0] != "c":
                        sv_, casts_ = ir.strip_int(f, x_)
                        x_ = tuple(sv_) if all(k_[0] == "zext" for k_ in casts_) else x_
                    if y_[0] != "c":
                        sv_, casts_ = ir.strip_int(f, y_)
                        y_ = tuple(sv_) if all(k_[0] == "zext" for k_ in casts_) else y_
                    if (x_ == ("a", 1) and y_[0] == "c" and int(y_[1]) == 0) or (y_ == ("a", 1) and x_[0] == "c" and int(x_[1]) == 0):
                        succ_ = t_.get("succ")
                        zero_edges.append((bb.id, succ_[0] if C_.get("pred") == "eq" else succ_[1]))
        esc = ir.rets_reachable_avoiding(f, [c.id for c in prims], pruned_edges=zero_edges)
        ck.ob(not esc, rule, "tinyjambu_clean", "must-call[%s]" % label,
              "every path with size != 0 calls the non-elidable zeroing primitive %s" % prims[0].callee,
              "a path returns without calling the zeroing primitive", where=where,
              path=ir.path_desc(f, esc[0][1]) if esc else None)
        for c in prims:
            args = c.call_args()
            base, off = ir.ptr_base(f, args[0])
            ck.ob(base == ("a", 0) and off == 0, rule, "tinyjambu_clean", "arg-buf[%s]" % label,
                  "%s receives buf unchanged" % c.callee, "%s does not receive the caller's buffer pointer unchanged" % c.callee,
                  where=relpath(c.where))
            si = PRIMS[c.callee][1]
            sizes = [args[si]] + ([args[1]] if c.callee == "memset_s" else [])
            for s in sizes:
                sv, casts = ir.strip_int(f, s)
                okc = all(k[0] == "zext" for k in casts)
                ck.ob(sv == ("a", 1) and okc, rule, "tinyjambu_clean", "arg-size[%s]" % label,
                      "%s receives size unchanged (zero-extended)" % c.callee,
                      "%s is called with a length that is not the caller's size (it is %s)" % (c.callee, _descr(f, s)),
                      where=relpath(c.where))
        # no other stores
        stores = [i for i in f.insts if i.op == "store"]
        ck.ob(not stores, rule, "tinyjambu_clean", "no-other-store[%s]" % label, "no other store in tinyjambu_clean",
              "unexpected store in tinyjambu_clean", where=where)
        return "call"
    # volatile loop shape
    stores = [i for i in f.insts if i.op == "store"]
    memi = [c for c in f.calls() if (c.get("intrinsic") or "").startswith("llvm.mem")]
    if not stores and not memi:
        ck.bad(rule, "tinyjambu_clean", "no-wipe[%s]" % label, "tinyjambu_clean neither calls a zeroing primitive nor stores anything", where=where)
        return "none"
    for c in memi:
        ck.ob(bool(c.get("volatile")), rule, "tinyjambu_clean", "plain-memset[%s]" % label, "volatile mem intrinsic",
              "plain (elidable) memset/memcpy used for wiping", where=relpath(c.where))
    for s in stores:
        ck.ob(bool(s.get("volatile")) and s.ops[0][0] in ("c", "n", "z") and (s.ops[0][0] != "c" or const_val(s.ops[0]) == 0),
              rule, "tinyjambu_clean", "volatile-zero-store[%s]#%d" % (label, s.id), "store is a volatile store of 0 (%d byte(s))" % s.get("size"),
              "store in the fallback wipe is not a volatile store of 0", where=relpath(s.where))
    if mod.form == "N0":
        # exact coverage for every size and alignment, whatever the loop structure (D-COV)
        from .. import cov
        n, bad, used = cov.coverage(f, 0, 1)
        ck.ob(bad is None, rule, "tinyjambu_clean", "coverage[%s]" % label,
              "the volatile stores cover exactly bytes [0, size) in all %d (alignment, size) classes (sizes 0..63 individually, residues mod 8 beyond; trip counts from ScalarEvolution)" % n,
              "for %s: %s - the wipe clears a different set of bytes than requested" % (bad[0] if bad else "", bad[1] if bad else ""), where=where)
        ck.ob(set(s.id for s in stores) <= used or not stores, rule, "tinyjambu_clean", "all-stores-on-buffer[%s]" % label, "every store of the function writes the buffer",
              "a store writes something other than the buffer", where=where)
    return "volatile"


def _descr(f, v):
    I = f.inst(v)
    if I is None:
        return str(v)
    return "%s %s" % (I.op, [str(o) for o in I.ops])


def gcc_reloc(ck, build):
    import shutil
    if not shutil.which("gcc"):
        ck.note("gcc not present: relocation cross-check skipped")
        return
    src = os.path.join(build.repo, "src/backend/tinyjambu-clean.c")
    obj = os.path.join(build.dir, "gcc-clean.o")
    p = sh(["gcc", "-I" + os.path.join(build.repo, "src"), "-I" + build.variant_dir("H"), "-DHAVE_CONFIG_H", "-O3", "-std=gnu99", "-w", "-c", src, "-o", obj])
    if p.returncode != 0:
        raise Broken("gcc cannot compile clean.c")
    nm = sh(["llvm-nm-14", "-u", obj]).stdout
    ck.ob("explicit_bzero" in nm, "R-C20-SURVIVE", "tinyjambu_clean", "gcc-O3-import",
          "gcc -O3 object of clean.c still references explicit_bzero", "gcc -O3 object of clean.c has no reference to a zeroing primitive", where="src/backend/tinyjambu-clean.c")


def run(ck, build):
    ck.rule("R-C20-FREE", "hash/hmac/hkdf/prng free: on every path with a non-null argument a wipe primitive (directly or via a sibling free) is called on the "
            "parameter itself; the union of wiped ranges equals [0, sizeof(public state type)) from DWARF")
    ck.rule("R-C20-CLEAN", "tinyjambu_clean: host config forwards (buf,size) unchanged to explicit_bzero on every path; volatile fallback: every store is a volatile store of 0 and the "
            "residue-affine coverage analysis (D-COV) shows the stores tile exactly [0,size) for every size and alignment class")
    ck.rule("R-C20-SURVIVE", "the same facts hold in the -O3 IR (wipe calls not elided; fallback stores all volatile, no plain memset)")
    ck.not_decided += ["memset_s / SecureZeroMemory variants of the primitive (not buildable on this image)",
                       "gcc beyond the relocation cross-check; wiping of temporaries other than the state object (not part of the statement)"]
    ck.assume("explicit_bzero zeroes exactly the bytes it is given and is not elided (its contract)")
    ck.assume("the compiler may not add or remove volatile accesses (C standard) — used for the -O3 volatile fallback")
    H = Module(build.facts("H", "N0"))
    ck.config("H", "N0")
    n = check_free(ck, H, "H/N0")
    shape = check_clean(ck, H, "H/N0")
    # the callers' view of tinyjambu_clean is the definition's: a size parameter of another width than the prototype the callers were compiled
    # against is read from a register half nobody wrote ("exactly n bytes" holds only if n arrives as it was sent)
    ncl = 0
    for g_ in H.fns.values():
        for I_ in g_.insts:
            if I_.op == "call" and I_.callee == "tinyjambu_clean":
                ncl += 1
                ck.ob(not I_.get("proto_mismatch"), "R-C20-CLEAN", g_.name, "clean-call-prototype#%d[H/N0]" % I_.id, "tinyjambu_clean is called with the function type it is defined with",
                      "tinyjambu_clean is called as %s: the size the callee reads is not the size the caller passed" % I_.get("proto_mismatch"), where=relpath(I_.where))
    H3 = Module(build.facts("H", "R3"))
    ck.config("H", "R3")
    n += check_free(ck, H3, "H/R3", rule="R-C20-SURVIVE")
    check_clean(ck, H3, "H/R3", rule="R-C20-SURVIVE")
    Z = Module(build.facts("Z-volatile", "N0"))
    ck.config("Z-volatile", "N0")
    zshape = check_clean(ck, Z, "Z-volatile/N0")
    Z3 = Module(build.facts("Z-volatile", "R3"))
    ck.config("Z-volatile", "R3")
    check_clean(ck, Z3, "Z-volatile/R3", rule="R-C20-SURVIVE")
    if zshape != "volatile":
        ck.note("Z-volatile configuration did not select the volatile fallback (shape=%s)" % zshape)
    ck.floor("R-C20-FREE", "free functions analysed (N0+R3)", n, 8)
    # positive control
    fx = Module(build.fixture_facts(os.path.join(os.path.dirname(os.path.dirname(os.path.dirname(__file__))), "fixtures", "c20_bad.c")))
    sub = type(ck)("C20-fixture")
    check_free(sub, fx, "fixture")
    check_clean(sub, fx, "fixture")
    got = {(v["function"], v["construct"].split("[")[0]) for v in sub.violations}
    for want in [("tinyjambu_hash_free", "wipe-range"), ("tinyjambu_hmac_free", "must-wipe"), ("tinyjambu_prng_free", "wipe-range"),
                 ("tinyjambu_hkdf_free", "must-wipe"), ("tinyjambu_clean", "coverage")]:
        ck.control("c20_bad.c:%s:%s" % want, want in got, "got %s" % sorted(got))
    # negative control: a correct word-at-a-time fallback must be proven
    nx = Module(build.fixture_facts(os.path.join(os.path.dirname(os.path.dirname(os.path.dirname(__file__))), "fixtures", "neutral_wordwise.c")))
    sub2 = type(ck)("C20-neutral")
    try:
        check_clean(sub2, nx, "neutral")
        bad2 = [v["construct"] for v in sub2.violations]
    except Broken as e:
        bad2 = ["BROKEN: %s" % e]
    if bad2:
        raise Broken("negative control neutral_wordwise.c (correct word-wise clean) is not proven: %s" % bad2[:3])
    ck.controls.append({"control": "neutral_wordwise.c (must be proven)", "fired": False, "detail": "correct head/words/tail clean: exact coverage proven"})
    if ck.tier == "thorough":
        gcc_reloc(ck, build)
    ck.coverage_extra.update({"free_functions": FREE_FUNCS, "clean_shapes": {"H": shape, "Z-volatile": zshape}})
