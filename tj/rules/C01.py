"""C01 — AEAD round trip: premises of the block-wise induction (DESIGN 5/C01)."""
from . import modecommon

LEVEL = "other"
RM = {"MODE": "R-C01-DUAL", "PREFIX": "R-C01-PREFIX", "LEN": "R-C01-LEN", "ADVANCE": "R-C01-LOCKSTEP", "TAGPOS": "R-C01-END", "INPLACE": "R-C01-INPLACE", "OUTRANGE": "R-C01-COVER"}


def run(ck, build):
    ck.rule("R-C01-LEN", "*clen = mlen + 8 / *mlen = clen - 8 is the only store to the length out-parameter")
    ck.rule("R-C01-PREFIX", "encrypt and decrypt unpack the key identically and make the same setup(npub,0x10) / absorb(ad,adlen,0x30,5) calls with chained state")
    ck.rule("R-C01-DUAL", "per path class, encrypt and decrypt each equal the reference block transformer bit for bit (absorbed word = the r plaintext bytes zero-extended, same frame bits, rounds, "
            "length injection); the reference decrypt block provably inverts the reference encrypt block and leaves the same state (checked symbolically), so equal states before a block "
            "give the original bytes and equal states after it")
    ck.rule("R-C01-LOCKSTEP", "both cursors advance by 4 and the remaining length drops by 4 per block under the guard remaining >= 4; residues 0..3 are each handled by exactly one tail")
    ck.rule("R-C01-COVER", "a block reads input bytes [0,4) and writes output bytes [0,4) at the cursors; tail r reads [0,r) and writes exactly [0,r) (decrypt) / [0,r+8) incl. tag (encrypt); a refused call writes nothing")
    ck.rule("R-C01-END", "the tag is written at / read from cursor + r, i.e. c + mlen resp. c + clen - 8, and the 8 tag bytes survive to the return")
    ck.rule("R-C01-INPLACE", "within every block and tail each input byte is loaded before the output byte at the same offset is stored (exact aliasing c == m is safe)")
    ck.not_decided += ["that setup/absorb/generate_tag/permutation are functions of their arguments (C19, C05)", "compilers other than clang 14; -O3 code shape (N0 IR analysed)",
                       "the 2^-64 accidental tag collision is not a code property", "alignment independence is C06's R-BYTEWISE"]
    ck.assume("induction over 4-byte blocks as stated in DESIGN.md 5/C01; the checker discharges its premises for every path class")
    modecommon.duality_selfcheck(ck, "R-C01-DUAL", "aead")
    mod, fns, n = modecommon.run_mode(ck, build, ("aead",), RM)
    modecommon.fixture_control(ck, build, ("aead",), RM, "c01_bad.c", ["R-C01-DUAL", "R-C01-LOCKSTEP", "R-C01-END"])
    ck.coverage_extra.update({"functions": [f.name for f in fns], "exhaustive": True,
                              "exhaustive_over": "every path class (prefix, generic iteration, residues 0..3, refusal) of the six AEAD functions and the nine helper functions"})
