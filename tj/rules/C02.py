"""C02 — AEAD output is bit-exact TinyJAMBU v2: construction conformance on every path."""
from . import modecommon, C05
from .. import asmsrc

LEVEL = "other"
RM = {"MODE": "R-C02-MODE", "RT": "R-C02-MODE", "WIPESTART": "R-C02-MODE", "PREFIX": "R-C02-MODE", "LEN": None, "ADVANCE": "R-C02-MODE", "TAGPOS": "R-C02-MODE", "INPLACE": None, "OUTRANGE": None, "NONCE2": None}
RM = {k: v for k, v in RM.items() if v}
RM.update({"SMALL": "R-C02-SMALL", "SMALLIO": "R-C02-SMALL"})


def run(ck, build):
    ck.rule("R-C02-MODE", "for setup_N, absorb_N, generate_tag_N and the six AEAD functions: one symbolic path summary per path class (prefix, generic loop iteration, residues 0..3) in the "
            "GF(2) term domain with the permutation uninterpreted; frame bits 0x10/0x30/0x50/0x70, 5 and 8/9/10 rounds, key word = NOT LE32, nonce words LE32(npub+0/4/8), absorbed and emitted "
            "bits, partial-block length injection and tag squeezes equal the reference model bit for bit; cursors advance in lock-step so the blocks are the consecutive 4-byte words of the input")
    ck.rule("R-C02-SMALL", "independent of the loop structure: each of the six AEAD functions for EVERY message length 0..100, evaluated as straight path(s) with the length concrete and the data symbolic "
            "(one path per alignment class if the code tests alignment): the calls (setup 0x10, absorb 0x30/5 rounds, tag), every permutation input (frame bits 0x50, keyed rounds, chained state), every "
            "output byte, the length injection of the partial block, the tag position and the stored length are those of the specification; longer messages are R-C02-MODE's generic iteration")
    ck.rule("R-C02-PERM", "the three C permutation backends equal the bit-serial NLFSR specification for every round count >= 1 (C05's STEP/SCHED rules on their N0 IR)")
    ck.not_decided += ["agreement with other implementations as values (no value is ever computed); the transcription of the specification in tj/mode.py and tj/asmx.py is trusted",
                       "gcc builds; shared vs static objects (same source; objects not compared)", "alignment/endianness independence of buffer accesses is C06's R-BYTEWISE"]
    ck.assume("setup/absorb/generate_tag/permutation are functions of their arguments only (C19: no hidden state)")
    if modecommon.nostate_rule(ck, build, "R-C02-NOSTATE", ("aead",), "the six AEAD entry points"):
        return
    mod, fns, n = modecommon.run_mode(ck, build, ("aead",), RM)
    nc = 0
    for ks in asmsrc.KEYSIZES:
        sub = _Ren(ck)
        nc += C05.c_backend_rule(sub, mod, ks, "H/N0")
    ck.floor("R-C02-PERM", "C backend obligations", nc, 15)
    modecommon.fixture_control(ck, build, ("aead",), RM, "c01_bad.c", ["R-C02-MODE"])
    ck.coverage_extra.update({"functions": [f.name for f in fns] + ["tinyjambu_setup_*", "tinyjambu_absorb_*", "tinyjambu_generate_tag_*", "tinyjambu_permutation_* (C)"],
                              "exhaustive": True, "exhaustive_over": "every path class (prefix, generic iteration, residues 0..3) of the 15 mode-level functions"})


class _Ren:
    def __init__(self, ck):
        self._ck = ck

    def ob(self, cond, rule, *a, **k):
        return self._ck.ob(cond, "R-C02-PERM", *a, **k)

    def ok(self, rule, *a, **k):
        self._ck.ok("R-C02-PERM", *a, **k)

    def bad(self, rule, *a, **k):
        self._ck.bad("R-C02-PERM", *a, **k)

    def __getattr__(self, n):
        return getattr(self._ck, n)
