"""C07 — constant-time: no secret-labelled value reaches a branch, select condition, memory address,
mem-intrinsic length, division operand, variable shift amount, indirect-call target or foreign call."""
import os, time
from ..build import Broken
from ..facts import Module, relpath
from .. import dep, secrets

LEVEL = "other"
TRUSTED_OUT = {"getrandom": [(0, 1)], "getentropy": [(0, 1)], "syscall": [(1, 2)], "read": [(1, 2)]}
BENIGN = {"explicit_bzero", "open", "close", "clock_gettime", "gettimeofday", "time", "memset_s"}
SINK_KINDS = ["branch", "switch", "select-condition", "load-address", "store-address", "mem-address", "mem-length",
              "division-operand", "shift-amount", "indirect-call-target"]


def analyse(ck, mod, label, rule="R-C07-FLOW", extra_sources=(), internal=()):
    srcs, nfn = secrets.sources(mod)
    srcs = list(srcs) + list(extra_sources)
    d = dep.Dep(mod, srcs, TRUSTED_OUT, BENIGN)
    d.internal_ext = set(internal)
    d.run()
    secret_mask = 0
    for i, n in enumerate(d.label_names):
        if n.startswith(("SECRET:", "ENTROPY:")):
            secret_mask |= 1 << i
    counts = {}
    nviol = 0
    for (fn, iid, kind), mask in sorted(d.sinks.items()):
        f = mod.fns[fn]
        I = f.insts[iid]
        k0 = kind.split(":")[0]
        counts[k0] = counts.get(k0, 0) + 1
        hit = mask & secret_mask
        cons = "%s@%s:%s[%s]" % (kind, _stable_pos(f, I), I.op, label)
        if hit and k0 == "select-condition" and label.endswith("/R3"):
            # a select the optimiser formed from branch-free source arithmetic (a source-level conditional is a branch or select in the N0 form
            # and reported there): a select is not a branch; its lowering by the backend is outside what is decided (see not_decided)
            residual = getattr(ck, "c07_residual", None)
            if residual is None:
                residual = ck.c07_residual = []
            residual.append("%s %s" % (fn, relpath(I.where)))
            ck.ok(rule, fn, "%s#%s[%s]" % (kind, _anchor(f, I), label), "select formed by the optimiser on a secret-dependent condition: not a branch (the source-shaped form has none here); lowering not decided",
                  where=relpath(I.where))
        elif hit:
            nviol += 1
            names = d.names(hit)
            bit = (hit & -hit).bit_length() - 1
            chain = d.trace(f, I, kind, bit)
            ck.bad(rule, fn, "%s#%s[%s]" % (kind, _anchor(f, I), label),
                   "%s depends on secret data %s" % (_kind_text(kind), names[:4]), where=relpath(I.where),
                   path=" <- ".join(relpath(c) for c in chain[:10]))
        else:
            ck.ok(rule, fn, "%s#%s[%s]" % (kind, _anchor(f, I), label), "%s depends on public values only" % _kind_text(kind), where=relpath(I.where))
    return d, counts, nfn, len(srcs)


def _anchor(f, I):
    """a construct id that survives unrelated edits: position of this sink among same-op instructions of the function"""
    n = 0
    for J in f.insts:
        if J.id == I.id:
            break
        if J.op == I.op:
            n += 1
    return "%s%d" % (I.op, n)


def _stable_pos(f, I):
    return _anchor(f, I)


def _kind_text(kind):
    return {"branch": "branch condition", "switch": "switch selector", "select-condition": "select condition", "load-address": "load address",
            "store-address": "store address", "mem-address": "memcpy/memset address", "mem-length": "memcpy/memset length",
            "division-operand": "division operand", "shift-amount": "variable shift amount",
            "indirect-call-target": "indirect call target"}.get(kind.split(":")[0], "argument of foreign call " + kind.split(":")[-1])


def run(ck, build):
    ck.rule("R-C07-FLOW", "whole-module dependency analysis (byte-granular fields, weak updates, context-insensitive): the label set of every branch/switch/select condition, "
            "load/store/mem-intrinsic address and length, division operand, variable shift amount, indirect-call target and foreign-call argument contains no SECRET/ENTROPY label; "
            "run on the source-shaped N0 IR and on the project's -O3 IR")
    ck.not_decided += ["lowering of -O3 IR to machine code by the x86 backend (assumed not to introduce secret-dependent branches)", "gcc builds",
                       "data-dependent timing of individual instructions"]
    ck.assume("distinct pointer parameters do not overlap except the documented c == m")
    ck.assume("a variable index stays inside the array field it was derived from (bounds are C06's business)")
    ck.assume("the entropy callback and the OS entropy primitives are trusted parties that may see the seed buffer")
    ck.assume("the accept/reject verdict returned by check_tag is public (stated in the property); it is never branched on inside the library")
    tot = {}
    libfns = set()
    for form in ("N0", "R3"):
        mod = Module(build.facts("H", form, inline=(form == "N0")))
        if form == "N0":
            libfns = {n for n, g in mod.fns.items() if g.insts}
        ck.config("H", form)
        d, counts, nfn, nsrc = analyse(ck, mod, "H/" + form)
        for k, v in counts.items():
            tot[k] = tot.get(k, 0) + v
        ck.floor("R-C07-FLOW", "external functions classified (%s)" % form, nfn, 45)
        ck.floor("R-C07-FLOW", "secret sources seeded (%s)" % form, nsrc, 40)
        ck.floor("R-C07-FLOW", "branch sinks examined (%s)" % form, counts.get("branch", 0), 50)
        ck.floor("R-C07-FLOW", "address sinks examined (%s)" % form, counts.get("load-address", 0) + counts.get("store-address", 0), 400)
    if ck.tier == "thorough":
        for v in ("T-getentropy", "T-syscall", "T-urandom", "T-none"):
            try:
                mod = Module(build.facts(v, "N0"))
            except Broken:
                raise
            ck.config(v, "N0")
            try:
                analyse(ck, mod, v + "/N0", internal=libfns)
            except Broken as e:
                ck.note("variant %s not analysed for C07: %s" % (v, e))
    # assembly backends: branches on the round counter only, addresses base + constant
    from . import C05
    from .. import asmsrc

    class _OnlyAsm:
        def __init__(self, ck):
            self._ck = ck

        def ob(self, cond, rule, *a, **k):
            return self._ck.ob(cond, rule, *a, **k) if rule == "R-C07-ASM" else cond

        def ok(self, rule, *a, **k):
            if rule == "R-C07-ASM":
                self._ck.ok(rule, *a, **k)

        def bad(self, rule, *a, **k):
            if rule == "R-C07-ASM":
                self._ck.bad(rule, *a, **k)

        def __getattr__(self, n):
            return getattr(self._ck, n)
    ck.rule("R-C07-ASM", "in each of the 27 assembly programs every conditional branch tests only the round counter (symbolic machine of C05) and every memory address is base/stack + constant")
    progs = asmsrc.programs(build)
    nasm = 0
    for tid, ks, rel in progs:
        n, _, _ = C05.analyse_program(_OnlyAsm(ck), build, tid, ks, rel, rules=("C07", "EFFECT"))
        nasm += 1
    ck.floor("R-C07-ASM", "assembly programs analysed", nasm, 27)
    sub = type(ck)("C07-asm-fixture")
    C05._fixture_program(sub, build, os.path.join(os.path.dirname(os.path.dirname(os.path.dirname(__file__))), "fixtures", "c05_bad_branch_riscv32i.S"))
    ck.control("c05_bad_branch_riscv32i.S:R-C07-ASM", any(v["rule"] == "R-C07-ASM" for v in sub.violations), "fixture violations: %s" % sorted({v["rule"] for v in sub.violations}))
    # positive controls
    fxp = os.path.join(os.path.dirname(os.path.dirname(os.path.dirname(__file__))), "fixtures", "c07_bad.c")
    for form in ("N0", "R3"):
        fx = Module(build.fixture_facts(fxp, form))
        sub = type(ck)("C07-fixture")
        analyse(sub, fx, "fixture")
        got = {(v["function"], v["construct"].split("#")[0].split(":")[0]) for v in sub.violations}
        wants = [("tinyjambu_aead_check_tag", "foreign-call-argument"), ("tinyjambu_permutation_128", "load-address"),
                 ("tinyjambu_hash_update", "branch"), ("tinyjambu_clean", "division-operand")]
        for w in wants:
            ck.control("c07_bad.c/%s:%s:%s" % (form, w[0], w[1]), w in got or (form == "R3" and any(g[0] == w[0] for g in got)), "got %s" % sorted(got))
    ck.coverage_extra.update({"sinks_by_kind": tot, "exhaustive": True,
                              "exhaustive_over": "every branch, select, memory access, mem intrinsic, division, variable shift, indirect and foreign call of the linked library in N0 and -O3 IR"})
