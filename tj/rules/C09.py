"""C09 — SIV output equals the documented two-pass construction (construction conformance + dependency shape)."""
from . import modecommon, C05
from .. import asmsrc

LEVEL = "other"
RM = {"SMALL": "R-C09-SMALL", "SMALLIO": "R-C09-SMALL", "MODE": "R-C09-CONSTR", "RT": "R-C09-CONSTR", "WIPESTART": "R-C09-CONSTR", "PREFIX": "R-C09-CONSTR", "NONCE2": "R-C09-DEP", "TAGPOS": "R-C09-CONSTR", "ADVANCE": "R-C09-CONSTR"}


def run(ck, build):
    ck.rule("R-C09-CONSTR", "the six SIV functions against the documented construction (src/tinyjambu-*-siv.c header comment, tools/sivref/README.md): pass 1 = TinyJAMBU MAC with nonce domain 0x90 over "
            "(nonce, AD 0x30/5 rounds, plaintext 0x50/keyed rounds); pass 2 = setup with domain 0xB0, blocks under 0xD0, keyed rounds, plaintext never absorbed; bit-level provenance of every emitted byte")
    ck.rule("R-C09-SMALL", "independent of the loop structure: each of the six SIV functions for EVERY message length 0..100 as straight path(s) (length concrete, data symbolic): pass 1 = setup(npub, 0x90), "
            "absorb(ad, 0x30, 5 rounds), absorb(plaintext, 0x50, keyed rounds), tag at c + mlen; pass 2 = setup(npub[0..3] || tag, 0xB0) and one keyed permutation with frame bits 0xD0 per word, output = "
            "input xor word 2, nothing absorbed; decrypt mirrors it and compares the regenerated tag; longer messages are R-C09-CONSTR's generic iteration")
    ck.rule("R-C09-DEP", "the second-pass state is derived from setup(key, npub[0..3] || tag) only and no pass-2 block absorbs anything: the keystream depends on key, first four nonce bytes and the tag, "
            "the message enters the body only through the final xor at the same offset; the tag depends on key, nonce, AD and message through pass 1")
    ck.not_decided += ["'two messages get unrelated bodies beyond chance coincidence' is a cryptographic property of the permutation, not of the code: declined",
                       "values (no output is computed)"]
    if modecommon.nostate_rule(ck, build, "R-C09-NOSTATE", ("siv",), "the six SIV entry points"):
        return
    mod, fns, n = modecommon.run_mode(ck, build, ("siv",), RM, helper_fns=True, floor_obl=200)
    class _Ren:
        def __init__(self, ck_):
            self._ck = ck_

        def ob(self, cond, rule, *a, **k):
            return self._ck.ob(cond, "R-C09-CONSTR", *a, **k)

        def ok(self, rule, *a, **k):
            self._ck.ok("R-C09-CONSTR", *a, **k)

        def bad(self, rule, *a, **k):
            self._ck.bad("R-C09-CONSTR", *a, **k)

        def __getattr__(self, n_):
            return getattr(self._ck, n_)
    for ks in asmsrc.KEYSIZES:
        C05.c_backend_rule(_Ren(ck), mod, ks, "H/N0")       # premise: the permutation under the construction is the specified one
    modecommon.fixture_control(ck, build, ("siv",), RM, "c08_bad.c", ["R-C09-CONSTR", "R-C09-DEP"])
    ck.coverage_extra.update({"functions": [f.name for f in fns], "exhaustive": True, "exhaustive_over": "every path class of the six SIV functions and nine helpers"})
