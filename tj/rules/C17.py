"""C17 — PRNG seeding: truthful status, NULL callback = system source, usable on failure."""
import os
from ..build import Broken
from ..facts import Module, relpath, const_val
from .. import ir, fin

LEVEL = "other"
PRIV = "tinyjambu_prng_state_p_t"


def nullcall_rule(ck, mod, label, rule="R-C17-NULLCALL"):
    """Engler contradiction rule: an indirect call through a value the same function
    compares with null must not be reachable from the null edge of such a test."""
    n = 0
    for f in mod.fns.values():
        for c in f.calls():
            if c.callee is not None:
                continue
            n += 1
            target = c.d["callee_op"]
            target = tuple(_t(target))
            edges = ir.null_test_edges(f, target)
            bad = None
            for (b, s) in edges:
                reach = ir.blocks_reachable(f, s)
                if c.b in reach:
                    bad = (b, s)
                    break
            tname = _name(f, target)
            if bad:
                ck.bad(rule, f.name, "indirect-call-through:%s" % tname,
                       "'%s' is tested against NULL at %s, yet the indirect call through it is reachable from the NULL edge: "
                       "the documented NULL-callback use calls through a null pointer" % (tname, relpath(f.term(bad[0]).where)),
                       where=relpath(c.where), path="%s -> ... -> %s" % (f.blocks[bad[1]].name, f.blocks[c.b].name))
            else:
                ck.ok(rule, f.name, "indirect-call-through:%s" % tname,
                      "indirect call target is never null-tested in this function, or the call is unreachable from every null edge (%d null edges)" % len(edges),
                      where=relpath(c.where))
    return n


def _t(o):
    return tuple(_t(x) if isinstance(x, (list, tuple)) else x for x in o)


def _name(f, v):
    if v[0] == "a":
        return f.params[v[1]]["name"]
    I = f.inst(v)
    if I is not None and I.op == "load":
        b, off = ir.ptr_base(f, I.ops[0])
        if b[0] == "a":
            return "%s->[+%s]" % (f.params[b[1]]["name"], off)
    return "%s" % (v,)


class TwoRequests(Exception):
    pass


def _block_reaches(f, a, b):
    seen, st = set(), list(f.blocks[a].succs)
    while st:
        x = st.pop()
        if x == b:
            return True
        if x in seen:
            continue
        seen.add(x)
        st.extend(f.blocks[x].succs)
    return False


def entropy_call(f):
    ics = [c for c in f.calls() if c.callee is None]
    if len(ics) == 2 and (ics[0].b == ics[1].b or _block_reaches(f, ics[0].b, ics[1].b) or _block_reaches(f, ics[1].b, ics[0].b)):
        # two requests on one path (a macro that evaluates its argument twice ...): status and mixing cannot both refer to "the" delivery
        raise TwoRequests("%s makes two entropy requests on one path (%s and %s): the status returned and the bytes mixed in are not those of one delivery"
                          % (f.name, relpath(ics[0].where), relpath(ics[1].where)))
    if len(ics) != 1:
        raise Broken("%s: expected exactly one indirect (entropy callback) call, found %d" % (f.name, len(ics)))
    return ics[0]


def status_rule(ck, mod, fname, label):
    f = mod.fn(fname)
    ec = entropy_call(f)
    args = ec.call_args()
    # requested size must be the 32-byte seed and equal the buffer field's size
    base, off = ir.ptr_base(f, args[1])
    fld = None
    for m in mod.composites[PRIV]["members"]:
        if m["offset"] == off:
            fld = m
    szv = args[2]
    ck.ob(base == ("a", 0) and fld is not None and fld["size"] == 32 and szv[0] == "c" and const_val(szv) == 32,
          "R-C17-STATUS", fname, "request-size[%s]" % label,
          "entropy request asks for 32 bytes into the 32-byte field '%s' of the state" % (fld["name"] if fld else "?"),
          "entropy request does not ask for a full 32-byte seed into a 32-byte state field (buffer=%s+%s, size=%s)" % (base, off, szv),
          where=relpath(ec.where))
    if fname != "tinyjambu_prng_init_user":
        # later requests go to the source given at initialisation: the callback AND the user data stored in the state
        mem_ = {m["name"]: m["offset"] for m in mod.composites[PRIV]["members"]}

        def _field_of(v):
            v = _t(v)
            if ir.is_null(v) or v[0] in ("c", "n"):
                return "null"
            V = f.inst(v)
            if V is not None and V.op == "load":
                b_, o_ = ir.ptr_base(f, V.ops[0])
                if b_ == ("a", 0) and o_ is not None:
                    return [nm for nm, off_ in mem_.items() if off_ == o_][:1] or ["?"]
            return None
        got = (_field_of(ec.d["callee_op"]), _field_of(args[0]))
        if None in got:
            raise Broken("%s: the entropy request's callee / user data are not loads of state fields (a local copy?): not decided" % fname)
        ck.ob(got == (["callback"], ["user_data"]), "R-C17-USABLE", fname, "request-source[%s]" % label,
              "the request calls the stored callback with the stored user data", "the request is made through %s with user data %s, not through the callback and user data stored at initialisation" % got,
              where=relpath(ec.where))
    key = ("i", ec.id)
    consts = fin.constants_compared(f, key)
    reps = fin.partition(consts, 64, extra=[32])
    per = {}
    for r in reps:
        paths = fin.explore(f, ec.id, {key: r}, lambda I, e: None)
        outs = set()
        for p in paths:
            if p.end[0] == "ret":
                outs.add(p.ret)
            else:
                outs.add("<%s>" % p.end[0])
        per[r] = outs
        want = {1} if r == 32 else {0}
        ck.ob(outs == want, "R-C17-STATUS", fname, "status(size=%s)[%s]" % (_cls(r), label),
              "callback returned %s bytes -> function returns %s" % (_cls(r), sorted(want)[0]),
              "callback returned %s bytes -> function returns %s; success must be reported exactly when 32 bytes were delivered"
              % (_cls(r), sorted(outs, key=str)), where=relpath(ec.where))
    return ec, fld, len(reps)


def _cls(r):
    return "2^64-1" if r == (1 << 64) - 1 else ("2^63" if r == 1 << 63 else ("2^63-1" if r == (1 << 63) - 1 else str(r)))


DEFERRED = []


def _local_root(f, v, depth=0):
    I = f.inst(tuple(v))
    if I is None or depth > 20:
        return False
    if I.op == "alloca":
        return True
    if I.op in ("getelementptr", "bitcast"):
        return _local_root(f, I.ops[0], depth + 1)
    return False


def usable_rule(ck, mod, fname, label, expect_updates):
    """Whatever the callback returned, every path continues through the Hash_df mixing
    over the buffer the callback wrote into, and sets V, C, counter (and limit)."""
    f = mod.fn(fname)
    ec = entropy_call(f)
    args = ec.call_args()
    ebase, eoff = ir.ptr_base(f, args[1])
    fields = {m["name"]: m for m in mod.composites[PRIV]["members"]}
    Voff, Coff = fields["V"]["offset"], fields["C"]["offset"]
    fins = {}
    for c in f.calls("tinyjambu_hash_finalize"):
        b, o = ir.ptr_base(f, c.call_args()[1])
        if b == ("a", 0) and o in (Voff, Coff) and f.can_reach(ec.id, c.id):
            fins.setdefault(o, []).append(c)
    for off, nm in ((Voff, "V"), (Coff, "C")):
        cs = fins.get(off, [])
        if not cs:
            ck.bad("R-C17-USABLE", fname, "derive-%s[%s]" % (nm, label),
                   "no hash finalize writes %s after the entropy request" % nm, where=relpath(ec.where))
            continue
        esc = ir.rets_reachable_avoiding(f, [c.id for c in cs], start=ec.id)
        ck.ob(not esc, "R-C17-USABLE", fname, "derive-%s[%s]" % (nm, label),
              "%s = Hash_df(...) is computed on every path after the entropy request, whatever it returned" % nm,
              "a path from the entropy request to the return skips the derivation of %s (mixing skipped on failure?)" % nm,
              where=relpath(cs[0].where), path=ir.path_desc(f, esc[0][1]) if esc else None)
    # the hash that produces V must have absorbed the callback's buffer (and old V for reseed)
    for c in fins.get(Voff, [])[:1]:
        h = ir.ptr_base(f, c.call_args()[0])
        for (want_off, what) in expect_updates:
            ups = []
            for u in f.calls("tinyjambu_hash_update"):
                if ir.ptr_base(f, u.call_args()[0]) != h:
                    continue
                b, o = ir.ptr_base(f, u.call_args()[1])
                ln = u.call_args()[2]
                if b == ("a", 0) and o == want_off and ln[0] == "c" and const_val(ln) == 32:
                    ups.append(u)
            if not ups and any(_local_root(f, u.call_args()[1]) for u in f.calls("tinyjambu_hash_update") if ir.ptr_base(f, u.call_args()[0]) == h):
                # absorbed through a local staging buffer (header and V built in one piece): which bytes reach the hash is decided byte
                # for byte by the provenance rule below (delivered-bytes-*), not by this call-shape rule
                DEFERRED.append("%s: %s" % (fname, what))
                continue
            # (every path to a return passes the finalize - derive-V above - so "a return is reachable without the update" is "the
            # finalize is"; the walk prunes branches on constant conditions, e.g. a helper's 'if (len != 0)' inlined with len = 32)
            ok = bool(ups) and not ir.rets_reachable_avoiding(f, [u.id for u in ups], start=ec.id)
            ck.ob(ok, "R-C17-USABLE", fname, "mix-%s[%s]" % (what, label),
                  "all 32 bytes of %s are absorbed into the hash that yields the new V on every path" % what,
                  "the new V is derived without absorbing %s on some path: delivered entropy bytes / old state not mixed in" % what,
                  where=relpath(c.where))
    # entropy buffer is the one expected
    # counter / limit stores on every path
    need = [("reseed_counter", 1)]
    if fname == "tinyjambu_prng_init_user":
        need.append(("reseed_limit", None))
    for fld, val in need:
        off = fields[fld]["offset"]
        st = [s for s in f.insts if s.op == "store" and ir.ptr_base(f, s.ops[1]) == (("a", 0), off)]
        if fld == "reseed_limit":
            # the documented setter called on this state sets the field as well (which value: C16's R-C16-CLAMP)
            st += [c_ for c_ in f.calls("tinyjambu_prng_set_reseed_limit") if ir.ptr_base(f, c_.call_args()[0]) == (("a", 0), 0)]
        esc = ir.rets_reachable_avoiding(f, [s.id for s in st], start=ec.id)
        ck.ob(bool(st) and not esc, "R-C17-USABLE", fname, "set-%s[%s]" % (fld, label),
              "%s is set on every path after the entropy request" % fld,
              "%s is not set on some path after the entropy request" % fld, where=relpath(st[0].where if st else ec.where))
    return ec


def same_rule(ck, mod, label):
    """NULL callback == plain initialisation: on the callback==NULL path the stored
    callback is the function prng_init passes, user_data is null on both, and the first
    request is made through them."""
    f = mod.fn("tinyjambu_prng_init_user")
    g = mod.fn("tinyjambu_prng_init")
    cs = g.calls("tinyjambu_prng_init_user")
    if len(cs) != 1:
        raise Broken("tinyjambu_prng_init no longer a single call of tinyjambu_prng_init_user")
    a = cs[0].call_args()
    cbi = f.param_index("callback")
    udi = f.param_index("user_data")
    if cbi is None or udi is None:
        raise Broken("anchor vanished: init_user parameters callback/user_data")
    sysfn = a[cbi]

    def _is_system(v):
        """a function constant whose body asks the system entropy source"""
        if not (isinstance(v, tuple) and v and v[0] == "f"):
            return False
        h_ = mod.fns.get(v[1])
        return h_ is not None and bool(h_.calls("tinyjambu_trng_generate"))
    # plain init either names the system callback itself or passes no callback and lets init_user's NULL path select it
    by_null = ir.is_null(sysfn)
    if by_null:
        sysfn = None
    ck.ob((by_null or sysfn[0] == "f") and ir.is_null(a[udi]) and a[0] == ("a", 0), "R-C17-SAME", "tinyjambu_prng_init", "plain-init-args[%s]" % label,
          "plain init = init_user(state, %s, NULL, custom, custom_len)" % ("NULL (the NULL path selects the system source)" if by_null else sysfn[1] if sysfn[0] == "f" else sysfn),
          "plain init does not pass a fixed system callback (or none) and NULL user data", where=relpath(cs[0].where))
    members = mod.composites[PRIV]["members"]

    def classify(I, e):
        if I.op == "store":
            b, o = ir.ptr_base(f, I.ops[1])
            if b == ("a", 0) and o is not None:
                v = I.ops[0]
                if v[0] == "c":
                    v = int(v[1])
                elif v[0] == "n":
                    v = 0
                elif v in e:
                    v = e[v]
                return ("bind", ("mem", o), v)
        if I.op == "call" and (I.get("intrinsic") or "").startswith("llvm.memset"):
            args = I.call_args()
            b, o = ir.ptr_base(f, args[0])
            if b == ("a", 0) and o is not None and args[1][0] == "c" and args[2][0] == "c":
                n = const_val(args[2])
                val = const_val(args[1])
                return [("bind", ("mem", m["offset"]), 0 if val == 0 else ("fill", val)) for m in members
                        if m["offset"] >= o and m["offset"] + m["size"] <= o + n]
        if I.op == "load":
            b, o = ir.ptr_base(f, I.ops[0])
            if b == ("a", 0) and ("mem", o) in e:
                return ("bind", ("i", I.id), e[("mem", o)])
        if I.op == "call" and I.callee is None and not I.is_dbg():
            def res(v):
                v = _t(v)
                if v[0] == "c":
                    return int(v[1])
                if v[0] == "n":
                    return 0
                return e.get(v, v)
            return ("icall", I.id, res(I.d["callee_op"]), tuple(res(x) for x in I.call_args()))
        return None

    paths = fin.explore(f, None, {("a", cbi): 0}, classify)
    n = 0
    for p in paths:
        ics = [ev for ev in p.events if ev[0] == "icall"]
        if p.end[0] != "ret":
            continue
        n += 1
        if not ics:
            ck.bad("R-C17-SAME", f.name, "null-path-request[%s]" % label,
                   "with callback == NULL the function returns without making an entropy request", where=relpath(p.end[1].where))
            continue
        _, iid, callee, args = ics[0]
        where = relpath(f.insts[iid].where)
        if sysfn is None:
            if isinstance(callee, tuple) and callee and callee[0] == "f" and not _is_system(callee) and mod.fns.get(callee[1]) is not None and not mod.fns[callee[1]].blocks:
                raise Broken("the function called on the NULL path (%s) is only declared: cannot tell whether it is the system source" % (callee,))
            okc = _is_system(callee)
            if okc:
                sysfn = callee
        else:
            okc = callee == sysfn
        ck.ob(okc, "R-C17-SAME", f.name, "null-path-callee[%s]" % label,
              "with callback == NULL the first entropy request calls %s, the system source%s" % (str(callee), "" if by_null else " plain init passes"),
              "with callback == NULL the first entropy request calls through %s instead of the system source %s"
              % ("a NULL pointer" if callee == 0 else str(callee), str(sysfn) if sysfn else "(a function that asks tinyjambu_trng_generate)"), where=where)
        sysf = mod.fns.get(sysfn[1]) if (sysfn is not None and sysfn[0] == "f") else None
        ignores = sysf is not None and not sysf.arg_users(0)
        ck.ob(bool(args) and (args[0] == 0 or ignores), "R-C17-SAME", f.name, "null-path-user-data[%s]" % label,
              "user data on the NULL path is NULL as in plain init, or the system source ignores its user data",
              "user data passed on the NULL path is %s, plain init passes NULL" % (str(args[0]) if args else "?",), where=where)
    if n == 0:
        raise Broken("no path to a return found in init_user under callback == NULL")
    # stored callback is never null at return
    cboff = [m for m in members if m["name"] == "callback"][0]["offset"]
    for cbv, nm in ((0, "NULL"), (12345, "non-NULL")):
        ps = fin.explore(f, None, {("a", cbi): cbv}, classify)
        for p in ps:
            if p.end[0] != "ret":
                continue
            # reconstruct final mem value by replaying binds is not kept; use store census below
    sts = [s for s in f.insts if s.op == "store" and ir.ptr_base(f, s.ops[1]) == (("a", 0), cboff)]
    nulledges = ir.null_test_edges(f, ("a", cbi))
    for s in sts:
        v = s.ops[0]
        if v[0] == "f":
            ok = True
        elif v == ("a", cbi):
            # the parameter may be stored only where it is known to be non-NULL (dominated by the non-NULL edge of a test)
            ok = False
            for (cnd, truth) in ir.conditions_at(f, s.b):
                C = f.inst(cnd)
                if C is not None and C.op == "icmp" and C.get("pred") in ("eq", "ne"):
                    a, b = C.ops
                    if (a == ("a", cbi) and ir.is_null(b)) or (b == ("a", cbi) and ir.is_null(a)):
                        if (C.get("pred") == "ne") == truth:
                            ok = True
        else:
            V = f.inst(v)
            ok = False
            if V is not None and V.op in ("phi", "select"):
                # callback ? callback : system  — every incoming value is a function or the parameter on its non-NULL edge
                ok = True
                incs = [(tuple(x[0]), x[1]) for x in V.get("inc")] if V.op == "phi" else []
                for inc, pb in incs:
                    if inc[0] == "f":
                        continue
                    if inc == ("a", cbi):
                        good = False
                        for (cnd, truth) in ir.conditions_on_edge(f, pb, V.b):
                            C = f.inst(cnd)
                            if C is not None and C.op == "icmp" and C.get("pred") in ("eq", "ne") and ((C.ops[0] == ("a", cbi) and ir.is_null(C.ops[1])) or (C.ops[1] == ("a", cbi) and ir.is_null(C.ops[0]))):
                                if (C.get("pred") == "ne") == truth:
                                    good = True
                        if not good:
                            ok = False
                    else:
                        ok = False
                if V.op == "select":
                    ok = False
        ck.ob(ok, "R-C17-USABLE", f.name, "stored-callback-nonnull#%d[%s]" % (sts.index(s), label),
              "value stored into the callback field is a function or the non-NULL-tested parameter",
              "a possibly-NULL value is stored into the callback field: a state created with callback == NULL has no entropy source for later reseeds (or reseed calls through NULL)",
              where=relpath(s.where))
    esc = ir.rets_reachable_avoiding(f, [s.id for s in sts])
    ck.ob(bool(sts) and not esc, "R-C17-USABLE", f.name, "callback-always-stored[%s]" % label,
          "the callback field is written on every path", "a path leaves the callback field unset (zero) after init", where=relpath(f.rets()[0].where))
    # the user data of a caller-supplied callback is in the state at return (later reseeds hand it to the callback)
    udoff = [m for m in members if m["name"] == "user_data"][0]["offset"]
    uds, other = [], []
    for s_ in f.insts:
        if s_.op == "store" and ir.ptr_base(f, s_.ops[1]) == (("a", 0), udoff):
            v = tuple(s_.ops[0])
            V = f.inst(v)
            if v == ("a", udi):
                uds.append(s_)
            elif V is not None and V.op in ("phi", "select") and any(tuple(x) == ("a", udi) for x in ([i_[0] for i_ in V.get("inc")] if V.op == "phi" else V.ops[1:])):
                uds.append(s_)
            elif ir.is_null(v) or v[0] in ("c", "n"):
                pass
            else:
                other.append(s_)
    if other:
        raise Broken("tinyjambu_prng_init_user: the user data field is written with a value that is neither the parameter nor null (%s): not decided" % relpath(other[0].where))
    esc = ir.rets_reachable_avoiding(f, [s_.id for s_ in uds], pruned_edges=nulledges)
    ck.ob(not esc, "R-C17-USABLE", f.name, "user-data-stored[%s]" % label,
          "with a callback given, its user data is stored in the state on every path",
          "a path with a caller-supplied callback returns without its user data stored in the state: every later (explicit or automatic) reseed hands the callback a null context",
          where=relpath((esc[0][0] if esc else f.rets()[0]).where))
    return n


def system_rule(ck, mod, label):
    f = mod.fn("tinyjambu_prng_system")
    cs = f.calls("tinyjambu_trng_generate")
    if len(cs) != 1:
        raise Broken("tinyjambu_prng_system: expected one call of tinyjambu_trng_generate")
    c = cs[0]
    ck.ob(c.call_args()[0] == ("a", 1), "R-C17-STATUS", f.name, "system-buffer[%s]" % label, "system source fills the callback's buffer",
          "system source is not given the callback's buffer", where=relpath(c.where))
    key = ("i", c.id)
    for r, want in ((0, 0), (1, 32), ((1 << 32) - 1, 32), (2, 32)):
        ps = fin.explore(f, c.id, {key: r, ("a", 2): 32}, lambda I, e: None)
        outs = {p.ret for p in ps if p.end[0] == "ret"}
        ck.ob(outs == {want}, "R-C17-STATUS", f.name, "system-status(trng=%d)[%s]" % (r if r < 10 else -1, label),
              "TRNG status %s -> callback reports %d bytes" % (r, want),
              "TRNG status %s -> callback reports %s (want %d)" % (r, sorted(outs, key=str), want), where=relpath(c.where))


def run(ck, build):
    ck.rule("R-C17-NULLCALL", "an indirect call through a value the same function tests against NULL is unreachable from every NULL edge (all indirect calls in the module)")
    ck.rule("R-C17-SAME", "under callback == NULL (D-FIN, field values tracked along each path) the first entropy request calls the very function plain init passes, with NULL user data")
    ck.rule("R-C17-STATUS", "D-FIN over the partition of the callback's return size induced by the constants it is compared with: init_user/reseed return 1 exactly for 32; "
            "the request is for 32 bytes into a 32-byte field; prng_system maps TRNG status 0/non-0 to 0/size")
    ck.rule("R-C17-USABLE", "on every path after the entropy request, whatever it returned: V and C are re-derived by hashes that absorbed the callback's buffer (and old V), "
            "counter (and limit) are set; the stored callback is never NULL")
    ck.not_decided += ["quality of the entropy delivered; values of the derived state (C15 covers the construction)"]
    mod = Module(build.facts("H", "N0"))
    ck.config("H", "N0")
    label = "H/N0"
    n = nullcall_rule(ck, mod, label)
    ck.floor("R-C17-NULLCALL", "indirect calls in module", n, 1)
    same_rule(ck, mod, label)
    two = False
    for fname_ in ("tinyjambu_prng_init_user", "tinyjambu_prng_reseed"):
        g_ = mod.fn(fname_)
        try:
            entropy_call(g_)
            ck.ok("R-C17-STATUS", fname_, "one-request[%s]" % label, "one entropy request per path: the status and the bytes mixed in belong to the same delivery", where=relpath("%s:%d" % (g_.file, g_.line)))
        except TwoRequests as e:
            two = True
            ck.bad("R-C17-STATUS", fname_, "one-request[%s]" % label, str(e), where=relpath("%s:%d" % (g_.file, g_.line)))
        except Broken:
            pass        # reported by the rules below
    if two:
        return          # (the remaining rules presuppose one request per path)
    fields = {m["name"]: m for m in mod.composites[PRIV]["members"]}
    _, fld, nr = status_rule(ck, mod, "tinyjambu_prng_init_user", label)
    _, fld2, nr2 = status_rule(ck, mod, "tinyjambu_prng_reseed", label)
    ck.floor("R-C17-STATUS", "size classes explored", nr + nr2, 10)
    V, C = fields["V"]["offset"], fields["C"]["offset"]
    del DEFERRED[:]
    usable_rule(ck, mod, "tinyjambu_prng_init_user", label, [(V, "the entropy buffer (V)")])
    usable_rule(ck, mod, "tinyjambu_prng_reseed", label, [(V, "the old V"), (C, "the entropy buffer (C)")])
    # reseed requests entropy on every path (a NULL-guarded request silently turns reseeding into a no-op)
    g = mod.fn("tinyjambu_prng_reseed")
    ics = [c for c in g.calls() if c.callee is None]
    esc = ir.rets_reachable_avoiding(g, [c.id for c in ics])
    ck.ob(bool(ics) and not esc, "R-C17-USABLE", g.name, "reseed-always-requests[%s]" % label,
          "every path through tinyjambu_prng_reseed makes the entropy request", "a path through tinyjambu_prng_reseed skips the entropy request yet the function still mixes and reports a status",
          where=relpath("%s:%d" % (g.file, g.line)), path=ir.path_desc(g, esc[0][1]) if esc else None)
    # the bytes delivered reach the hash: byte provenance through the seeding functions (the construction rules of C15, seeding part):
    # what is hashed as V / additional input is exactly what the source wrote into the buffer (nothing overwrites it in between), and
    # the buffer has a defined content (zero / the old V) when the source is asked, so a short delivery still leaves a defined, mixed state
    from . import kdflib

    def _seed_ob(cond, rule, fn, cons, ok_, bad_, where=None):
        base = cons.split("[")[0]
        if base.endswith(("-prefill", "-V-V", "-V-input")) or base == "reseed-V-V":
            return ck.ob(cond, "R-C17-USABLE", fn, "delivered-bytes-" + cons, ok_, bad_, where=where)
        return cond
    snap = ck.snapshot()
    try:
        kdflib.check_prng(_seed_ob, mod, label, generate=False)
    except Broken as e:
        ck.rollback(snap)
        if not ck.violations:
            raise
        # the rules above have refuted obligations (a callback stored as NULL, a request that can be skipped ...); that the byte-provenance
        # summary does not follow the rewritten seeding code does not take them back
        ck.note("byte-provenance summary of the seeding functions not decided: %s" % str(e)[:200])
    # the buffers handed to the callback are the ones mixed
    f1 = mod.fn("tinyjambu_prng_init_user")
    f2 = mod.fn("tinyjambu_prng_reseed")
    for f, want, nm in ((f1, V, "V"), (f2, C, "C")):
        ec = entropy_call(f)
        b, o = ir.ptr_base(f, ec.call_args()[1])
        ck.ob(b == ("a", 0) and o == want, "R-C17-USABLE", f.name, "entropy-buffer[%s]" % label,
              "callback writes into state field %s, which is then absorbed" % nm,
              "callback writes into %s+%s, not the field that is mixed into the state" % (b, o), where=relpath(ec.where))
    system_rule(ck, mod, label)
    # positive control
    fx = Module(build.fixture_facts(os.path.join(os.path.dirname(os.path.dirname(os.path.dirname(__file__))), "fixtures", "c17_bad.c")))
    sub = type(ck)("C17-fixture")
    nullcall_rule(sub, fx, "fixture")
    ck.control("c17_bad.c:nullcall", any(v["function"] == "fx_init" for v in sub.violations) and
               not any(v["function"] == "fx_good" for v in sub.violations), "violations: %s" % [v["function"] for v in sub.violations])
    ck.coverage_extra.update({"indirect_calls": n, "size_classes": nr + nr2, "exhaustive": True,
                              "exhaustive_over": "all indirect calls of the module; all classes of the callback return size w.r.t. the constants it is compared with"})
