"""C13 — HKDF is RFC 5869 over TinyJAMBU-HMAC, incremental or not, capped at 8160 bytes (construction conformance)."""
import os
from ..build import Broken
from ..facts import Module
from . import kdflib

LEVEL = "other"
MAP = {"CAP": "R-C13-CAP", "SEQ": "R-C13-SEQ", "STREAM": "R-C13-STREAM", "REFUSE": "R-C13-REFUSE", "SMALL": "R-C13-SMALL"}


def run(ck, build):
    ck.rule("R-C13-CAP", "one-shot: the two classes of outlen w.r.t. 8160: above -> returns -1 with no call and no write; otherwise extract(key,salt); expand(info,out,outlen); wipe; returns 0")
    ck.rule("R-C13-SEQ", "extract: PRK = HMAC(salt, IKM), counter = 1, nothing buffered. expand, generic loop iteration: T(n) = HMAC(PRK, T(n-1) | info | n) - init(PRK,32); update(previous block,32) "
            "iff n != 1; update(info); update(&counter,1) with the counter value before the increment; finalize -> block buffer; free")
    ck.rule("R-C13-REFUSE", "the 8-bit block counter is incremented by exactly one per block (mod 256); when it is 0 (255 blocks used) the whole remaining output is zero-filled and -1 returned, nothing generated")
    ck.rule("R-C13-STREAM", "for each of the 33 buffer positions: left-over bytes of the last block are served first from offset posn and the position advances by the bytes handed out; a generated "
            "block hands out min(32, remaining) bytes from its start; cursor/remaining advance in lock-step - so consecutive expand calls produce the one-shot byte stream")
    ck.rule("R-C13-SMALL", "independent of the loop structure: tinyjambu_hkdf_expand as straight paths for buffer position x block counter in {0,1,2,254,255} x EVERY outlen 0..100 (position, counter, "
            "length concrete; data symbolic; HMAC uninterpreted): left-over bytes first, the transcript of HMAC calls of every block with the bytes they are given, min(32, remaining) bytes handed out, "
            "counter and position afterwards, refusal (zero fill, -1) at counter 0, the last block kept in the state")
    ck.rule("R-C13-PRF", "premise: the PRF underneath is the documented TinyJAMBU-HMAC over the documented hash (all rules of C12, C10 and C11 re-run on the same IR)")
    ck.not_decided += ["output values; 'empty salt = 32 zero bytes' follows from HMAC's zero padding (C12 key-block rule with key length 0)", "HMAC itself is C12"]
    mod = Module(build.facts("H", "N0"))
    ck.config("H", "N0")

    def ob(cond, rule, fn, cons, ok, bad, where=None):
        return ck.ob(cond, MAP[rule], fn, cons, ok, bad, where=where)
    small_broken = None
    try:
        kdflib.check_hkdf_small(ob, mod, "H/N0", thorough=(ck.tier == "thorough"))
    except Broken as e:
        small_broken = e
    snap = ck.snapshot()
    try:
        kdflib.check_hkdf(ob, mod, "H/N0")
    except Broken as e:
        ck.rollback(snap)
        if not ck.violations:
            raise
        # the small-length rule has refuted concrete cases; that the per-class rule does not follow this code's shape does not take them back
        ck.note("per-class rule for tinyjambu_hkdf_expand not decided: %s" % str(e)[:200])
    else:
        if small_broken is not None:
            ck.note("small-length rule for tinyjambu_hkdf_expand not decided: %s" % str(small_broken)[:200])
    from . import hashlib
    kdflib.hmac_premises(ck, mod, "R-C13-PRF")
    hashlib.premises(ck, mod, "R-C13-PRF")
    ck.floor("R-C13", "obligations over position / counter / length classes", len(ck.obligations), 1500)
    fx = Module(build.fixture_facts(os.path.join(os.path.dirname(os.path.dirname(os.path.dirname(__file__))), "fixtures", "c13_bad.c")))
    sub = type(ck)("C13-fixture")

    def ob2(cond, rule, fn, cons, ok, bad, where=None):
        return sub.ob(cond, MAP[rule], fn, cons, ok, bad, where=where)
    try:
        kdflib.check_hkdf(ob2, fx, "fixture")
    except Broken as e:
        sub.bad("BROKEN", "fixture", "broken", str(e))
    got = {v["rule"] for v in sub.violations}
    ck.control("c13_bad.c", {"R-C13-CAP", "R-C13-SEQ", "R-C13-REFUSE"} <= got, "fixture violations: %s" % sorted(got))
    ck.coverage_extra.update({"exhaustive": True, "exhaustive_over": "33 buffer positions x length classes; counter classes {0, 1, other}; the two outlen classes of the one-shot call"})
