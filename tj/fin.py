"""D-FIN: finite-class abstract execution (DESIGN 3.1 / B.2).

A few SSA values (an OS call's return value, errno, a callback's return size,
a length compared with constants only) are given one concrete representative
per class of a finite partition; the CFG is then followed from a start
instruction, evaluating branch conditions that depend only on tracked values
and forking on all others.  Events met on the way are recorded.  The state
space is (block, tracked environment), finite, explored exhaustively.
"""
from .build import Broken
from .ir import eval_icmp
from .facts import const_val

TOP = None


def _mask(bits):
    return (1 << bits) - 1


def eval_inst(f, I, env):
    """concrete evaluation of one instruction under env (valref -> int); returns
    int or TOP"""
    def val(v):
        if v[0] == "c":
            return int(v[1])
        if v[0] == "n":
            return 0
        x = env.get(v, TOP)
        return x if isinstance(x, int) else TOP

    op = I.op
    if op in ("zext", "trunc", "sext"):
        a = val(I.ops[0])
        if a is TOP:
            return TOP
        sb = I.get("src_bits")
        if op == "sext" and sb and a >> (sb - 1):
            a |= _mask(I.bits) & ~_mask(sb)
        return a & _mask(I.bits)
    if op == "icmp":
        a, b = val(I.ops[0]), val(I.ops[1])
        if a is TOP or b is TOP:
            return TOP
        bits = 64
        for o in I.ops:
            if o[0] == "c":
                bits = o[2]
        A = f.inst(I.ops[0])
        if A is not None and A.bits:
            bits = A.bits
        B = f.inst(I.ops[1])
        if B is not None and B.bits:
            bits = B.bits
        if I.ops[0][0] == "a" or I.ops[1][0] == "a":
            for o in I.ops:
                if o[0] == "a":
                    ty = f.params[o[1]]["ty"]
                    if ty.startswith("i") and ty[1:].isdigit():
                        bits = int(ty[1:])
        return 1 if eval_icmp(I.get("pred"), a, b, bits) else 0
    if op in ("add", "sub", "and", "or", "xor", "shl", "lshr", "mul"):
        a, b = val(I.ops[0]), val(I.ops[1])
        if a is TOP or b is TOP:
            # absorbing cases
            if op == "and" and (a == 0 or b == 0):
                return 0
            return TOP
        m = _mask(I.bits)
        if op == "add":
            return (a + b) & m
        if op == "sub":
            return (a - b) & m
        if op == "and":
            return a & b
        if op == "or":
            return a | b
        if op == "xor":
            return a ^ b
        if op == "mul":
            return (a * b) & m
        if op == "shl":
            return (a << b) & m if b < I.bits else TOP
        if op == "lshr":
            return (a >> b) if b < I.bits else TOP
    if op == "select":
        c = val(I.ops[0])
        if c is TOP:
            a, b = val(I.ops[1]), val(I.ops[2])
            return a if (a is not TOP and a == b) else TOP
        return val(I.ops[1] if c else I.ops[2])
    return TOP


class Path:
    __slots__ = ("events", "end", "blocks", "ret")

    def __init__(self, events, end, blocks, ret=None):
        self.events = events
        self.end = end      # ("ret", inst) | ("reach", inst) | ("cycle", block)
        self.blocks = blocks
        self.ret = ret      # concrete return value or TOP


def explore(f, start, env, classify, stop_at=(), max_states=20000, memory_vals=None, arith=True):
    """Explore all paths from just after instruction id `start` (or from function
    entry when start is None).

    env       : dict valref -> concrete int for tracked values
    classify  : function(inst, env) -> event or None; may also return
                ("bind", valref, int) to bind a new tracked value (e.g. errno load)
    stop_at   : instruction ids that end a path with end=("reach", inst)
    Returns list of Path."""
    out = []
    stop = set(stop_at)
    if start is None:
        b0, p0 = 0, 0
    else:
        I = f.insts[start]
        b0, p0 = I.b, f._pos[start] + 1
    # DFS stack of (block, pos, env(frozen items), events tuple, blocks tuple, pred block, visited-on-this-path)
    stack = [(b0, p0, tuple(sorted(env.items(), key=repr)), (), (b0,), None, frozenset())]
    n = 0
    while stack:
        b, pos, envt, events, blocks, pred, visited = stack.pop()
        n += 1
        if n > max_states:
            raise Broken("D-FIN: the finite-class exploration of %s exceeds its state bound (loops whose trip counts the class representatives do not fix): not decided" % f.name)
        e = dict(envt)
        ids = f.blocks[b].insts
        ended = False
        ev = list(events)
        k = pos
        while k < len(ids):
            I = f.insts[ids[k]]
            k += 1
            if I.op == "phi":
                if pred is not None:
                    for v, pb in I.get("inc"):
                        if pb == pred:
                            v = tuple(v)
                            if v[0] == "c":
                                e[("i", I.id)] = int(v[1])
                            elif v[0] == "n":
                                e[("i", I.id)] = 0
                            elif v[0] == "f":
                                e[("i", I.id)] = v
                            elif v in e:
                                e[("i", I.id)] = e[v]
                            else:
                                e.pop(("i", I.id), None)
                continue
            if I.is_dbg() or I.is_lifetime():
                continue
            if I.id in stop:
                out.append(Path(tuple(ev), ("reach", I), blocks))
                ended = True
                break
            r = classify(I, e)
            bound_self = False
            if r is not None:
                for r1 in (r if isinstance(r, list) else [r]):
                    if isinstance(r1, tuple) and r1 and r1[0] == "bind":
                        e[r1[1]] = r1[2]
                        if r1[1] == ("i", I.id):
                            bound_self = True
                    else:
                        ev.append(r1)
            if I.op == "ret":
                rv = TOP
                if I.ops:
                    v = I.ops[0]
                    rv = int(v[1]) if v[0] == "c" else e.get(v, TOP)
                out.append(Path(tuple(ev), ("ret", I), blocks, rv))
                ended = True
                break
            if I.op in ("br", "switch"):
                break
            if bound_self:
                continue
            if not arith and I.op not in ("icmp", "zext", "sext", "trunc", "select"):
                e.pop(("i", I.id), None)
                continue
            x = eval_inst(f, I, e)
            if x is not TOP:
                e[("i", I.id)] = x
            else:
                e.pop(("i", I.id), None)
        if ended:
            continue
        t = f.term(b)
        succs = []
        if t.op == "br":
            if t.get("cond"):
                c = t.ops[0]
                cv = int(c[1]) if c[0] == "c" else e.get(c, TOP)
                s = t.get("succ")
                if cv is TOP:
                    succs = [s[0], s[1]]
                else:
                    succs = [s[0]] if cv else [s[1]]
            else:
                succs = list(t.get("succ"))
        elif t.op == "switch":
            c = t.ops[0]
            cv = int(c[1]) if c[0] == "c" else e.get(c, TOP)
            if cv is TOP:
                succs = [t.get("default")] + [x[1] for x in t.get("cases")]
            else:
                succs = [t.get("default")]
                for val, dst in t.get("cases"):
                    if int(val) == cv:
                        succs = [dst]
        elif t.op == "unreachable":
            out.append(Path(tuple(ev), ("unreachable", t), blocks))
            continue
        else:
            succs = list(f.blocks[b].succs)
        for s in succs:
            # only keep tracked values that are still meaningful (SSA: all are)
            key = (s, b, tuple(sorted(e.items(), key=repr)))
            if key in visited:
                out.append(Path(tuple(ev), ("cycle", s), blocks + (s,)))
                continue
            stack.append((s, 0, tuple(sorted(e.items(), key=repr)), tuple(ev), blocks + (s,), b, visited | {key}))
    return out


def constants_compared(f, v, through_casts=True):
    """constants that value v (or casts of it) is compared with in function f"""
    vals = set()
    alias = {v}
    changed = True
    while changed:
        changed = False
        for I in f.insts:
            if I.op in ("zext", "sext", "trunc") and I.ops[0] in alias and ("i", I.id) not in alias:
                alias.add(("i", I.id))
                changed = True
    for I in f.insts:
        if I.op == "icmp":
            a, b = I.ops
            if a in alias and b[0] == "c":
                vals.add(const_val(b))
            if b in alias and a[0] == "c":
                vals.add(const_val(a))
        if I.op == "switch" and I.ops[0] in alias:
            for val, dst in I.get("cases"):
                vals.add(int(val))
    return vals


def partition(consts, bits, extra=()):
    """representatives of the partition of [0, 2^bits) induced by constants:
    each c, c-1, c+1, plus 0 and max"""
    m = (1 << bits) - 1
    reps = {0, m, 1 << (bits - 1), (1 << (bits - 1)) - 1}
    for c in list(consts) + list(extra):
        for d in (-1, 0, 1):
            reps.add((c + d) & m)
    return sorted(reps)
