"""D-AFF: affine forms of SSA values over entry parameters, opaque symbols and
per-loop iteration counters, with equalities known on CFG edges (DESIGN 3.1/B.4).

Lin = {symbol: coeff, ..., 1: const}.  Symbols: ("a", i) parameters, ("i", id) opaque
instructions (loads, call results, non-recurrence phis), ("k", header) the iteration
counter of a loop.  Loop-header phis use the SCEV add-recurrence exported by LLVM.
Integer casts are passed through (lengths are size_t / unsigned with no wrap assumed; the
places where a narrowing matters are checked by their own rules)."""
from fractions import Fraction
from . import ir
from .facts import const_val


class Lin(dict):
    def copy(self):
        return Lin(self)

    @staticmethod
    def const(c):
        return Lin({1: c}) if c else Lin()

    @staticmethod
    def sym(s):
        return Lin({s: 1})

    def add(self, o, k=1):
        r = Lin(self)
        for s, c in o.items():
            v = r.get(s, 0) + k * c
            if v:
                r[s] = v
            else:
                r.pop(s, None)
        return r

    def scale(self, k):
        if k == 0:
            return Lin()
        return Lin({s: c * k for s, c in self.items()})

    def is_zero(self):
        return not self

    def constant(self):
        if not self:
            return 0
        if len(self) == 1 and 1 in self:
            return self[1]
        return None

    def syms(self):
        return [s for s in self if s != 1]

    def __repr__(self):
        if not self:
            return "0"
        parts = []
        for s, c in sorted(self.items(), key=lambda kv: repr(kv[0])):
            if s == 1:
                parts.append("%s" % c)
            else:
                parts.append(("%s*" % c if c != 1 else "") + _symname(s))
        return " + ".join(parts)


def _symname(s):
    if s[0] == "a":
        return "arg%d" % s[1]
    if s[0] == "k":
        return "iter(bb%d)" % s[1]
    return "%%%d" % s[1]


def _sext(v, bits):
    return v - (1 << bits) if v >> (bits - 1) else v


class Aff:
    def __init__(self, f):
        self.f = f
        self.memo = {}
        self._stores = None
        self._pairs = None

    def names(self, lin):
        f = self.f
        out = []
        for s, c in sorted(lin.items(), key=lambda kv: repr(kv[0])):
            if s == 1:
                out.append(str(c))
                continue
            if s[0] == "a":
                n = f.params[s[1]]["name"]
            elif s[0] == "k":
                n = "iter(%s)" % f.blocks[s[1]].name
            elif s[0] == "i" and isinstance(s[1], int):
                I = f.insts[s[1]]
                n = "%s@%s" % (I.op, I.loc.split("/")[-1])
            else:
                n = "%s:%s" % (s[0], s[1]) if isinstance(s, tuple) and len(s) > 1 else repr(s)
            out.append(("%s*" % c if c != 1 else "") + n)
        return " + ".join(out) if out else "0"

    # -- SCEV to Lin -----------------------------------------------------------
    def scev(self, s):
        k = s["k"]
        if k == "c":
            return Lin.const(int(s["v"]))
        if k == "u":
            v = tuple(s["v"]) if not isinstance(s["v"], tuple) else s["v"]
            v = tuple(v)
            if v[0] == "i":
                I = self.f.insts[v[1]]
                if I.op == "phi":
                    # a merge value: its own affine description if it has one (a cursor paired with the remaining length), else itself
                    if I.id in (self._pairs or {}) or (self._pairs is None and self.paired(I) is not None):
                        return self.paired(I)
                    return Lin.sym(v)
            return self.value(v)
        if k == "add":
            r = Lin()
            for o in s["ops"]:
                x = self.scev(o)
                if x is None:
                    return None
                r = r.add(x)
            return r
        if k == "mul":
            c = 1
            rest = None
            for o in s["ops"]:
                x = self.scev(o)
                if x is None:
                    return None
                cc = x.constant()
                if cc is not None:
                    c *= cc
                elif rest is None:
                    rest = x
                else:
                    return None
            return Lin.const(c) if rest is None else rest.scale(c)
        if k in ("zext", "sext", "trunc", "ptrtoint"):
            inner = s["op"]
            if k in ("zext", "sext") and inner.get("k") == "rec" and (inner.get("w") or 64) < 32 and not inner.get("nuw" if k == "zext" else "nsw"):
                # a recurrence in narrow arithmetic that may wrap (`i & 1` is zext of a 1-bit recurrence): its value is not the affine form
                return None
            if k == "trunc" and (s.get("w") or 64) < 32 and inner.get("k") != "c":
                return None
            return self.scev(inner)
        if k == "rec":
            if not s.get("affine") or len(s["ops"]) != 2:
                return None
            st, step = self.scev(s["ops"][0]), self.scev(s["ops"][1])
            if st is None or step is None:
                return None
            sc = step.constant()
            if sc is None:
                return None
            return st.add(Lin.sym(("k", s["loop"])), sc)
        return None

    # -- values ------------------------------------------------------------------
    def value(self, v):
        v = tuple(v)
        if v[0] == "c":
            return Lin.const(_sext(int(v[1]), v[2]) if v[2] <= 64 else int(v[1]))
        if v[0] == "n":
            return Lin()
        if v[0] == "a":
            return Lin.sym(v)
        if v[0] == "g":
            return Lin.sym(("g", v[1]))
        if v[0] == "ce" and v[1] in ("getelementptr", "bitcast") and v[2] and tuple(v[2][0])[0] == "g" and all(tuple(o)[0] == "c" and int(tuple(o)[1]) == 0 for o in v[2][1:]):
            return Lin.sym(("g", tuple(v[2][0])[1]))       # &global[0]
        if v[0] != "i":
            return Lin.sym(("x", repr(v)))
        if v in self.memo:
            return self.memo[v]
        inprog = self.__dict__.setdefault("_inprog", [])
        if v in inprog:
            # a cycle (a loop-carried value asked for while it is being described): it stands for itself here, and whatever is
            # computed from this answer must not be remembered - asked again from outside the cycle it has a better description
            self._cyc_hits = getattr(self, "_cyc_hits", set()) | {v}
            return Lin.sym(v)
        inprog.append(v)
        try:
            r = self._value(v)
        finally:
            inprog.pop()
        if r is None:
            r = Lin.sym(v)
        hits = getattr(self, "_cyc_hits", set())
        hits.discard(v)
        if not (hits & set(inprog)):
            # nothing this result depends on is still open
            self.memo[v] = r
            if not inprog:
                self._cyc_hits = set()
        return r

    def _value(self, v):
        f = self.f
        I = f.insts[v[1]]
        op = I.op
        o = I.ops
        if op in ("zext", "sext", "trunc", "bitcast", "ptrtoint", "inttoptr", "freeze"):
            return self.value(o[0])
        if op == "add":
            return self.value(o[0]).add(self.value(o[1]))
        if op == "sub":
            return self.value(o[0]).add(self.value(o[1]), -1)
        if op == "mul":
            a, b = self.value(o[0]), self.value(o[1])
            if a.constant() is not None:
                return b.scale(a.constant())
            if b.constant() is not None:
                return a.scale(b.constant())
            return None
        if op == "shl" and o[1][0] == "c":
            return self.value(o[0]).scale(1 << int(o[1][1]))
        if op == "getelementptr":
            off = I.get("off")
            if off is None:
                return None
            r = self.value(o[0]).add(Lin.const(off))
            for (vv, sc) in I.get("var") or ():
                r = r.add(self.value(tuple(vv)), int(sc))
            return r
        if op == "phi":
            sc = I.get("scev")
            if sc and sc.get("k") == "rec":
                r = self.scev(sc)
                if r is not None:
                    return r
                # the start is an expression this domain has no form for (a quotient ...): it is still the value that comes in from
                # outside the loop, and the step is the recurrence's
                if sc.get("affine") and len(sc["ops"]) == 2 and sc.get("loop") == I.b:
                    step = self.scev(sc["ops"][1])
                    L = [l for l in self.f.loops if l["header"] == I.b]
                    if step is not None and step.constant() is not None and L:
                        outside = [self.value(tuple(x[0])) for x in I.get("inc") if x[1] not in L[0]["blocks"]]
                        if outside and all(x == outside[0] for x in outside[1:]):
                            return outside[0].add(Lin.sym(("k", I.b)), step.constant())
            # phi with identical incoming values
            vals = [self.value(tuple(x[0])) for x in I.get("inc")]
            if vals and all(x == vals[0] for x in vals[1:]):
                return vals[0]
            pr = self.paired(I)
            if pr is not None:
                return pr
            return None
        if op == "load":
            st = self.reaching_store(I)
            if st is not None:
                return self.value(st.ops[0])
            c = self.canon_load(I)
            if c is not None and c.id != I.id:
                return self.value(("i", c.id))
            return None
        if op == "and" and o[1][0] == "c" and int(o[1][1]) == (1 << 32) - 1:
            return self.value(o[0])  # (unsigned) truncation written as a mask at -O3
        return None

    def _loop_phi_parts(self, I):
        """for a loop-header phi: (initial value, back-edge value) or None"""
        f = self.f
        L = f.loop_of(I.b)
        if L is None:
            return None
        ini = back = None
        for inc, pb in I.get("inc"):
            if pb in L["blocks"]:
                if back is not None:
                    return None
                back = tuple(inc)
            else:
                if ini is not None:
                    return None
                ini = tuple(inc)
        if ini is None or back is None:
            return None
        return ini, back

    def _strip(self, v):
        I = self.f.inst(v)
        while I is not None and I.op in ("zext", "sext", "trunc"):
            v = I.ops[0]
            I = self.f.inst(v)
        return v

    def paired(self, I):
        """loop-header phis (P pointer, N remaining length) whose back values are P + x and N - x for the same
        non-constant x: with the fresh symbol adv >= 0 (bytes consumed so far)  P = P0 + adv  and  N = N0 - adv."""
        f = self.f
        if self._pairs is None:
            self._pairs = {}
            for L in f.loops:
                hdr = L["header"]
                phis = [f.insts[i] for i in f.blocks[hdr].insts if f.insts[i].op == "phi"]
                for N in phis:
                    if (N.get("ty") or "").endswith("*"):
                        continue
                    pn = self._loop_phi_parts(N)
                    if pn is None:
                        continue
                    B = f.inst(pn[1])
                    if B is None or B.op != "sub" or B.ops[0] != ("i", N.id):
                        continue
                    x = self._strip(B.ops[1])
                    for P in phis:
                        if not (P.get("ty") or "").endswith("*"):
                            continue
                        pp = self._loop_phi_parts(P)
                        if pp is None:
                            continue
                        G = f.inst(pp[1])
                        if G is None or G.op != "getelementptr" or G.ops[0] != ("i", P.id) or G.get("off") != 0:
                            continue
                        var = G.get("var") or []
                        if len(var) != 1 or int(var[0][1]) != 1 or self._strip(tuple(var[0][0])) != x:
                            continue
                        adv = ("adv", N.id)         # one symbol per remaining length: every cursor advanced by the same amount shares it
                        self._pairs[P.id] = (pp[0], 1, adv)
                        self._pairs[N.id] = (pn[0], -1, adv)
        ent = self._pairs.get(I.id)
        if ent is None:
            return None
        ini, sign, adv = ent
        return self.value(ini).add(Lin.sym(adv), sign)

    def canon_load(self, L):
        """an earlier load of the same (parameter-based, constant offset) location that dominates L with no
        possible write to that object in between: both loads see the same value"""
        f = self.f
        base, off = ir.ptr_base(f, L.ops[0])
        if base[0] != "a" or off is None:
            return None
        writers = []
        for S in f.insts:
            if S.op == "store":
                b2, o2 = ir.ptr_base(f, S.ops[1])
                if b2 == base and (o2 is None or (o2 < off + L.get("size") and off < o2 + S.get("size"))):
                    writers.append(S.id)
            elif S.op == "call" and not S.is_dbg() and not S.is_lifetime():
                for a in S.call_args():
                    if a[0] in ("i", "a") and ir.ptr_base(f, a)[0] == base:
                        # a callee given the object may write it, unless it is a memcpy/memset elsewhere in the object
                        intr = S.get("intrinsic") or ""
                        if intr.startswith("llvm.mem") and a == S.call_args()[0]:
                            b3, o3 = self._field_base(a)
                            ln = S.call_args()[2]
                            if o3 is not None and ln[0] == "c" and not (o3 < off + L.get("size") and off < o3 + const_val(ln)):
                                continue
                            if o3 is not None and ln[0] != "c":
                                # variable length: the write stays inside the array field the pointer is in (C object model; bounds are R-C06-BOUNDS)
                                ext = self._leaf_extent(base, o3)
                                if ext is not None and (off >= ext[1] or off + L.get("size") <= ext[0]):
                                    continue
                        if intr.startswith("llvm.memcpy") and a == S.call_args()[1] and a != S.call_args()[0]:
                            continue
                        writers.append(S.id)
        best = None
        for M in f.insts:
            if M.op != "load" or M.id >= L.id and M.b == L.b or M.id == L.id:
                continue
            if ir.ptr_base(f, M.ops[0]) != (base, off) or M.get("size") != L.get("size"):
                continue
            if not f.dominates(M.id, L.id):
                continue
            if any(f.can_reach(M.id, w, avoid_insts=[L.id]) and f.can_reach(w, L.id, avoid_insts=[M.id]) for w in writers):
                continue
            if best is None or M.id < best.id:
                best = M
        return best

    def _field_base(self, v):
        """(param base, constant offset of the last constant-offset pointer on the chain) - a variable index
        on top of it stays within the field"""
        f = self.f
        off = 0
        cur = v
        last = None
        chain = []
        while True:
            I = f.inst(cur)
            if I is None:
                break
            if I.op == "bitcast":
                cur = I.ops[0]
            elif I.op == "getelementptr":
                chain.append(I)
                cur = I.ops[0]
            else:
                break
        if cur[0] != "a":
            return cur, None
        o = 0
        for G in reversed(chain):
            if G.get("off") is None:
                return cur, None
            if G.get("var"):
                return cur, o + G.get("off")
            o += G.get("off")
        return cur, o

    def _leaf_extent(self, base, off):
        from .dep import leaf_layout
        f = self.f
        if base[0] != "a":
            return None
        p = f.params[base[1]]
        if not p["di"]["ptr"]:
            return None
        ll = leaf_layout(f.mod, p["di"]["pointee"])
        if not ll:
            return None
        for lo, hi in ll:
            if lo <= off < hi:
                return (lo, hi)
        return None

    def reaching_store(self, L):
        """the unique store to the same (parameter-based, constant-offset) location that dominates the
        load, when no other store or call could write that location in between.  Distinct pointer
        parameters are assumed not to overlap."""
        f = self.f
        base, off = ir.ptr_base(f, L.ops[0])
        if base[0] != "a" or off is None:
            return None
        # the nearest store before the load in its own block (x->f += n; if (x->f < 16) ...)
        blk = f.blocks[L.b].insts
        for iid in reversed(blk[:blk.index(L.id)]):
            S = f.insts[iid]
            if S.op == "store":
                b2, o2 = ir.ptr_base(f, S.ops[1])
                if b2 == base:
                    if o2 is None:
                        break
                    if o2 < off + L.get("size") and off < o2 + S.get("size"):
                        if o2 == off and S.get("size") == L.get("size"):
                            return S
                        break
            elif S.op == "call" and not S.is_dbg() and not S.is_lifetime():
                if any(a[0] in ("i", "a") and ir.ptr_base(f, a)[0] == base for a in S.call_args()):
                    break
        cands = []
        for S in f.insts:
            if S.op == "store":
                b2, o2 = ir.ptr_base(f, S.ops[1])
                if b2 == base:
                    if o2 is None:
                        return None
                    if o2 < off + L.get("size") and off < o2 + S.get("size"):
                        cands.append(S)
            elif S.op == "call" and not S.is_dbg() and not S.is_lifetime():
                for a in S.call_args():
                    if a[0] in ("i", "a") and ir.ptr_base(f, a)[0] == base:
                        return None
        if len(cands) != 1:
            return None
        S = cands[0]
        if S.get("size") != L.get("size") or ir.ptr_base(f, S.ops[1])[1] != off:
            return None
        if not f.dominates(S.id, L.id):
            return None
        return S

    # -- facts on edges -------------------------------------------------------------
    @staticmethod
    def apply_sub(lin, sub):
        """replace symbols by linear forms (repeatedly: a replacement may mention a symbol that is replaced itself)"""
        if not sub:
            return lin
        for _n in range(8):
            hit = [t for t in lin if t in sub]
            if not hit:
                break
            r = Lin()
            for t, k in lin.items():
                r = r.add(sub[t], k) if t in sub else r.add(Lin({t: k}))
            lin = r
        return lin

    def facts_from_conds(self, conds, sw=(), sub=None):
        """equalities (Lin == 0) implied by branch conditions; includes residue reasoning:
        a value with an upper bound from an unsigned compare and disequalities that leave a
        single value is equal to that value."""
        f = self.f
        eqs = []
        bounds = {}   # key(Lin repr) -> [lin, lo, hi, excluded set]
        for c, truth in conds:
            C = f.inst(c)
            if C is None or C.op != "icmp":
                continue
            pred = C.get("pred")
            a, b = self.apply_sub(self.value(C.ops[0]), sub), self.apply_sub(self.value(C.ops[1]), sub)
            if not truth:
                pred = {"eq": "ne", "ne": "eq", "ult": "uge", "uge": "ult", "ugt": "ule", "ule": "ugt",
                        "slt": "sge", "sge": "slt", "sgt": "sle", "sle": "sgt"}.get(pred)
            if pred == "eq":
                eqs.append(a.add(b, -1))
            # bounds against constants
            bc, ac = b.constant(), a.constant()
            if bc is not None and ac is None:
                lin, kk, p = a, bc, pred
            elif ac is not None and bc is None:
                lin, kk = b, ac
                p = {"ult": "ugt", "ugt": "ult", "ule": "uge", "uge": "ule", "eq": "eq", "ne": "ne"}.get(pred)
            else:
                continue
            # the same quantity compared at different offsets (n < 8, n - 4 != 1): bounds are kept for its variable part
            c0_ = lin.get(1, 0)
            if c0_:
                lin = lin.add(Lin.const(c0_), -1)
                kk -= c0_
                if kk < 0 and p in ("ult", "ule"):
                    continue
            key = repr(lin)
            ent = bounds.setdefault(key, [lin, 0, None, set()])
            if c0_ < 0:
                ent[1] = max(ent[1], -c0_)       # the compared quantity V + c0 is unsigned: V >= -c0
            if p == "ult":
                ent[2] = kk - 1 if ent[2] is None else min(ent[2], kk - 1)
            elif p == "ule":
                ent[2] = kk if ent[2] is None else min(ent[2], kk)
            elif p == "ugt":
                ent[1] = max(ent[1], kk + 1)
            elif p == "uge":
                ent[1] = max(ent[1], kk)
            elif p == "ne":
                ent[3].add(kk)
        for v, kind, kk in sw:
            lin = self.apply_sub(self.value(v), sub)
            if lin.constant() is not None:
                continue
            if kind == "eq":
                eqs.append(lin.add(Lin.const(kk), -1))
            else:
                c0_ = lin.get(1, 0)
                if c0_:
                    lin = lin.add(Lin.const(c0_), -1)
                    kk -= c0_
                ent = bounds.setdefault(repr(lin), [lin, 0, None, set()])
                ent[3].add(kk)
                if c0_ < 0:
                    ent[1] = max(ent[1], -c0_)
        # x - c*(x / c) is a remainder: below c whatever the path
        for key, ent in bounds.items():
            for form, cdiv in self.remainder_forms():
                form = self.apply_sub(form, sub)
                c0_ = form.get(1, 0)
                vform = form.add(Lin.const(c0_), -1) if c0_ else form
                if ent[0] == vform:
                    ent[2] = cdiv - 1 - c0_ if ent[2] is None else min(ent[2], cdiv - 1 - c0_)
                    ent[1] = max(ent[1], -c0_)
        eqs = _Facts(eqs)
        for key, (lin, lo, hi, excl) in bounds.items():
            if hi is not None and hi < lo:
                eqs.infeasible = True           # the conditions contradict each other: no execution comes this way
            if hi is None or hi - lo > 64:
                continue
            rest = [x for x in range(lo, hi + 1) if x not in excl]
            if not rest:
                eqs.infeasible = True
            if len(rest) == 1:
                eqs.append(lin.add(Lin.const(rest[0]), -1))
        return eqs

    def remainder_forms(self):
        """[(x - c*t, c)] for every t = x / c or x >> k (unsigned, constant divisor) in the function"""
        r = getattr(self, "_remforms", None)
        if r is None:
            r = []
            for I in self.f.insts:
                if I.op in ("udiv", "lshr") and I.ops[1][0] == "c":
                    cv = int(I.ops[1][1])
                    if I.op == "lshr":
                        cv = (1 << cv) if 0 < cv < 32 else 0
                    if 1 < cv <= 65536:
                        r.append((self.value(tuple(I.ops[0])).add(self.value(("i", I.id)), -cv), cv))
            self._remforms = r
        return r

    def facts_at(self, block):
        return self.facts_from_conds(ir.conditions_at(self.f, block), ir.switch_conds_at(self.f, block))

    def facts_on_edge(self, p, s):
        return self.facts_from_conds(ir.conditions_on_edge(self.f, p, s), ir.switch_conds_on_edge(self.f, p, s))

    def bounds_at(self, block, lin, extra_conds=()):
        """(lo, hi) unsigned bounds of lin implied by the conditions at block (None = unbounded)"""
        f = self.f
        lo, hi = 0, None
        for c, truth in list(ir.conditions_at(f, block)) + list(extra_conds):
            C = f.inst(c)
            if C is None or C.op != "icmp":
                continue
            pred = C.get("pred")
            a, b = self.value(C.ops[0]), self.value(C.ops[1])
            if not truth:
                pred = {"eq": "ne", "ne": "eq", "ult": "uge", "uge": "ult", "ugt": "ule", "ule": "ugt"}.get(pred)
            if pred is None:
                continue
            d = a.add(lin, -1)
            kk = None
            if d.constant() is not None and b.constant() is not None:
                # a = lin + d  cmp  bc   =>  lin cmp bc - d
                kk, p = b.constant() - d.constant(), pred
            else:
                d = b.add(lin, -1)
                if d.constant() is not None and a.constant() is not None:
                    kk = a.constant() - d.constant()
                    p = {"ult": "ugt", "ugt": "ult", "ule": "uge", "uge": "ule", "eq": "eq"}.get(pred)
            if kk is None or p is None:
                continue
            if p == "ult":
                hi = kk - 1 if hi is None else min(hi, kk - 1)
            elif p == "ule":
                hi = kk if hi is None else min(hi, kk)
            elif p == "ugt":
                lo = max(lo, kk + 1)
            elif p == "uge":
                lo = max(lo, kk)
            elif p == "eq":
                lo, hi = max(lo, kk), (kk if hi is None else min(hi, kk))
        return lo, hi


def entails_zero(D, eqs, want_residue=False):
    """is D == 0 a linear consequence of the equalities eqs (each Lin == 0)?"""
    if D.is_zero():
        return {} if want_residue else True
    syms = set(D)
    for e in eqs:
        syms |= set(e)
    syms = sorted(syms, key=repr)
    rows = [[Fraction(e.get(s, 0)) for s in syms] for e in eqs if e]
    tgt = [Fraction(D.get(s, 0)) for s in syms]
    # gaussian elimination of rows; reduce target
    piv = []
    for col in range(len(syms)):
        pr = None
        for r in rows:
            if r[col] != 0 and not any(r is p[0] for p in piv):
                pr = r
                break
        if pr is None:
            continue
        piv.append((pr, col))
        for r in rows:
            if r is not pr and r[col] != 0:
                k = r[col] / pr[col]
                for j in range(len(syms)):
                    r[j] -= k * pr[j]
    for pr, col in piv:
        if tgt[col] != 0:
            k = tgt[col] / pr[col]
            for j in range(len(syms)):
                tgt[j] -= k * pr[j]
    if want_residue:
        return {s: x for s, x in zip(syms, tgt) if x != 0}
    return all(x == 0 for x in tgt)


class _Facts(list):
    infeasible = False


def prove_equal(A, v, target, block, depth=0, extra=None):
    """prove value(v) == target (a Lin) at `block`, splitting non-recurrence phis by incoming edge.
    Three-valued: (True, None) proven; (False, why) refuted - after eliminating the known equalities the difference
    is a non-zero constant or a non-zero combination of entry values of parameters only (free inputs: not identically
    zero); (None, why) unknown - the difference contains values the affine domain does not interpret.
    The conditions known at the use (`block`) travel along as conditions, not as derived facts: they speak about the values merged at
    the LAST visit of each merge point, so on an incoming edge of a merge block all its phis are replaced together by what comes in on
    that edge - in the difference and in every condition, before bounds and residues are derived from them.  A back edge whose incoming
    values mention the head's own phis (the previous iteration's values under the same name) cannot be resolved this way: unknown,
    never refuted."""
    f = A.f
    ctx = (list(ir.conditions_at(f, block)), list(ir.switch_conds_at(f, block)), {})
    return _pe(A, tuple(v), target, ctx, f.blocks[block].name, 0)


def _edge_ctx(A, ctx, B, pb):
    """context after deciding that block B was last entered from pb: B's merge values are what comes in on that edge, and the
    conditions on the way to that edge hold as well"""
    f = A.f
    conds, sw, sub = ctx
    sub2 = dict(sub)
    for iid in f.blocks[B].insts:
        P = f.insts[iid]
        if P.op != "phi":
            break
        if (P.get("scev") or {}).get("k") == "rec":
            continue
        inc = [tuple(x[0]) for x in P.get("inc") if x[1] == pb]
        if len(inc) == 1 and ("i", P.id) not in sub2:
            sub2[("i", P.id)] = A.value(inc[0])
    return (conds + list(ir.conditions_on_edge(f, pb, B)), sw + list(ir.switch_conds_on_edge(f, pb, B)), sub2)


def _pe(A, v, target, ctx, where, depth):
    f = A.f
    I = f.inst(v)
    if I is not None and I.op == "phi" and not (I.get("scev") or {}).get("k") == "rec" and depth < 6 and ("i", I.id) not in ctx[2]:
        worst = (True, None)
        for inc, pb in I.get("inc"):
            inc = tuple(inc)
            if _stale_back_edge(A, I.b, pb, [A.value(inc)]):
                if worst[0]:
                    worst = (None, "the value comes round the loop at %s (edge from %s): not an affine function of the entry values" % (f.blocks[I.b].name, f.blocks[pb].name))
                continue
            ok, why = _pe(A, inc, target, _edge_ctx(A, ctx, I.b, pb), f.blocks[pb].name, depth + 1)
            if ok is False:
                return False, why or ("on edge %s -> %s" % (f.blocks[pb].name, f.blocks[I.b].name))
            if ok is None and worst[0]:
                worst = (None, why or ("on edge %s -> %s" % (f.blocks[pb].name, f.blocks[I.b].name)))
        return worst
    D = A.value(v).add(target, -1)
    return _prove_zero(A, D, ctx, where, depth)


def _stale_back_edge(A, block, pred, lins):
    """is pred -> block a back edge on which the incoming values of block's phis refer to block's own phis?"""
    f = A.f
    L = [l for l in f.loops if l["header"] == block]
    if not L or pred not in L[0]["blocks"]:
        return False
    own = set()
    for iid in f.blocks[block].insts:
        P = f.insts[iid]
        if P.op != "phi":
            break
        own.add(("i", P.id))
    for t in own:
        P = f.inst(t)
        if (P.get("scev") or {}).get("k") == "rec":
            continue
        for inc, pb in P.get("inc"):
            if pb == pred and any(u in own for u in A.value(tuple(inc))):
                return True
    return any(u in own for e in lins for u in e)


def _prove_zero(A, D, ctx, where, depth):
    f = A.f
    conds, sw, sub = ctx
    D = A.apply_sub(D, sub)
    facts = A.facts_from_conds(conds, sw, sub)
    if getattr(facts, "infeasible", False):
        return True, None       # (vacuously: this combination of edges is never taken)
    res = entails_zero(D, facts, want_residue=True)
    if not res:
        return True, None
    why = "at %s: difference = %s, known equalities %s" % (where, A.names(D), [A.names(e) for e in facts])
    # the difference still mentions merge values (phis that are no recurrence): decide it per incoming edge of their block,
    # all phis of that block taking their incoming values together (a cursor and a remaining length merged at the same point)
    if depth < 6:
        for t in sorted((t for t in res if isinstance(t, tuple) and t[0] == "i"), key=repr):
            P = f.inst(t)
            if P is None or P.op != "phi" or (P.get("scev") or {}).get("k") == "rec" or t in sub:
                continue
            worst = (True, None)
            for _inc, pb in P.get("inc"):
                if _stale_back_edge(A, P.b, pb, []):
                    if worst[0]:
                        worst = (None, "%s: a value comes round the loop at %s" % (why, f.blocks[P.b].name))
                    continue
                ok, w2 = _prove_zero(A, D, _edge_ctx(A, ctx, P.b, pb), "%s via %s" % (where, f.blocks[pb].name), depth + 1)
                if ok is False:
                    return False, w2
                if ok is None and worst[0]:
                    worst = (None, w2)
            return worst
    if all(s == 1 for s in res):
        return False, why     # the facts force the difference to a non-zero constant
    ks = [s for s in res if isinstance(s, tuple) and s[0] == "k"]
    if ks and all(s == 1 or s in ks for s in res):
        # only iteration counters (and a constant) are left, all pulling the same way: a cursor that has moved on is not the start.
        # The difference vanishes only if no iteration happens; the facts do not say so (they would have removed the counters)
        signs = {(res[s] > 0) for s in ks} | ({res[1] > 0} if 1 in res else set())
        if len(signs) == 1:
            return False, why
    if all(s == 1 or (isinstance(s, tuple) and s[0] == "a") for s in res):
        # a non-zero combination of entry values of parameters: these are free inputs, unless a fact ties them to a value
        # this domain does not interpret (then the fact may force exactly the combination that makes the difference vanish)
        if any(isinstance(t, tuple) and t[0] in ("i", "x") for e in facts for t in e if t != 1):
            return None, why
        return False, why
    return None, why


def _subst_phis(A, facts, block, pred):
    f = A.f
    sub = {}
    for e in facts:
        for t in e:
            if isinstance(t, tuple) and t[0] == "i" and t not in sub:
                P = f.inst(t)
                if P is not None and P.op == "phi" and P.b == block:
                    for inc, pb in P.get("inc"):
                        if pb == pred:
                            sub[t] = A.value(tuple(inc))
    if not sub:
        return facts
    out = []
    for e in facts:
        r = Lin()
        for t, k in e.items():
            if t in sub:
                r = r.add(sub[t], k)
            else:
                r = r.add(Lin({t: k}))
        out.append(r)
    return out
