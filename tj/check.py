"""Entry point: python3 -m tj.check <Cxx> [--tier quick|thorough] [--replay report.json]"""
import argparse, importlib, json, os, signal, sys, traceback
from .build import Build, Broken
from .core import Check


def main(argv=None):
    ap = argparse.ArgumentParser()
    ap.add_argument("pid")
    ap.add_argument("--tier", default=os.environ.get("VERIF_TIER", "quick"), choices=["quick", "thorough"])
    ap.add_argument("--replay", default=None)
    ap.add_argument("--no-evidence", action="store_true")
    a = ap.parse_args(argv)
    try:
        seed = int(os.environ.get("VERIF_SEED", "0"))
    except ValueError:
        seed = 0
    pid = a.pid.upper()
    try:
        mod = importlib.import_module("tj.rules." + pid)
    except ImportError as e:
        print("ANALYSIS-BROKEN property=%s reason=no rule module (%s)" % (pid, e))
        return 2
    ck = Check(pid, a.tier, seed, getattr(mod, "LEVEL", "other"))
    # work budget: an analysis that does not converge on unfamiliar code is "cannot decide" (exit 2), never a hang
    budget = int(os.environ.get("TJ_TIME_BUDGET", "600" if a.tier == "quick" else "1800"))

    def _alarm(signum, frame):
        raise Broken("analysis did not finish within its time budget of %d s: the path exploration does not converge on this code (unrecognised loop structure)" % budget)
    try:
        signal.signal(signal.SIGALRM, _alarm)
        signal.alarm(budget)
    except (ValueError, AttributeError):
        pass
    try:
        b = Build()
        mod.run(ck, b)
        from .build import optlevel_conditionals
        hits = optlevel_conditionals(b.repo)
        if hits:
            # the library selects code by optimisation level: the source-shaped form (compiled without optimisation) and the shipped -O3 objects
            # are different programs there.  Everything is decided a second time with the optimised build's predefined macros.
            ck.note("conditional compilation on optimisation-level macros at %s: all rules run again in the optimised preprocessor configuration" % ", ".join(hits[:4]))
            b2 = Build(extra_n0=["-D__OPTIMIZE__=1", "-U__NO_INLINE__"])
            mod.run(ck, b2)
            srcs = ""
            for h_ in hits:
                try:
                    srcs += open(os.path.join(b.repo, h_.split(":")[0]), errors="replace").read()
                except OSError:
                    pass
            if "__OPTIMIZE_SIZE__" in srcs:
                mod.run(ck, Build(extra_n0=["-D__OPTIMIZE__=1", "-D__OPTIMIZE_SIZE__=1", "-U__NO_INLINE__"]))
            if "__FAST_MATH__" in srcs:
                mod.run(ck, Build(extra_n0=["-D__OPTIMIZE__=1", "-D__FAST_MATH__=1", "-U__NO_INLINE__"]))
        rc = ck.finish()
    except Broken as e:
        msg = str(e).replace("\n", " | ")
        if ck.violations and msg.startswith("fixture "):
            # the positive-control fixture no longer compiles against this tree (an interface it includes changed); obligations
            # on the tree itself were already refuted, and a control is only there to guard against vacuous passes
            ck.note("positive control skipped: %s" % msg[:200])
            return ck.finish()
        print("ANALYSIS-BROKEN property=%s reason=%s" % (pid, msg[:1500]))
        try:
            ck.write_evidence(0, 0, broken=msg[:1500])
        except Exception:
            pass
        return 2
    except Exception as e:
        traceback.print_exc()
        tb = traceback.extract_tb(e.__traceback__)
        at = "%s:%d" % (os.path.basename(tb[-1].filename), tb[-1].lineno) if tb else "?"
        # (a struct member, parameter or instruction the rules look up by name or position is not where they expect it: the code's structure
        # is not the one the rules were written for - no verdict)
        msg = "a structure the rules rely on was not found (%s: %s, in %s): the changed code is not recognised" % (type(e).__name__, str(e)[:120], at)
        print("ANALYSIS-BROKEN property=%s reason=%s" % (pid, msg))
        try:
            ck.write_evidence(0, 0, broken=msg)
        except Exception:
            pass
        return 2
    if a.replay:
        try:
            with open(a.replay) as f:
                rep = json.load(f)
            k = rep.get("key")
            still = any(ck.key(v) == k for v in ck.violations)
            print("REPLAY property=%s key=%s : %s" % (pid, k, "still refuted on the current tree" if still else "no longer refuted"))
            return 1 if still else 0
        except OSError as e:
            print("cannot read replay file: %s" % e)
            return 2
    return rc


if __name__ == "__main__":
    sys.exit(main())
