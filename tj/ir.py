"""Small IR utilities over the facts (value walking, path queries)."""
from .facts import const_val


def strip_ptr(f, v, max_depth=64):
    """(base value, constant byte offset or None) following bitcast and GEPs."""
    off = 0
    d = 0
    while d < max_depth:
        d += 1
        I = f.inst(v)
        if I is None:
            if v[0] == "ce" and v[1] in ("bitcast", "getelementptr"):
                # constant expression on a global: base is first operand
                v = v[2][0]
                if v[1] == "getelementptr":
                    off = None
                continue
            return v, off
        if I.op == "bitcast":
            v = I.ops[0]
            continue
        if I.op == "getelementptr":
            o = I.get("off")
            if o is None or I.get("var"):
                return v, None if off is None else ("var", off)
            if off is not None:
                off += o
            v = I.ops[0]
            continue
        return v, off
    return v, off


def ptr_base(f, v):
    """base value following bitcast / any GEP / phi-free chain; returns (base, offset|None)"""
    off = 0
    while True:
        I = f.inst(v)
        if I is None:
            return v, off
        if I.op == "bitcast":
            v = I.ops[0]
        elif I.op == "getelementptr":
            o = I.get("off")
            if o is None or I.get("var"):
                off = None
            elif off is not None:
                off += o
            v = I.ops[0]
        else:
            return v, off


def strip_int(f, v):
    """follow zext/sext/trunc chains; returns (base value, list of casts applied outermost last)"""
    casts = []
    while True:
        I = f.inst(v)
        if I is None or I.op not in ("zext", "sext", "trunc"):
            return v, casts
        casts.append((I.op, I.get("src_bits"), I.bits))
        v = I.ops[0]


def is_null(v):
    return v[0] == "n" or (v[0] == "c" and int(v[1]) == 0)


def feasible_succs(f, b):
    """successors of block b, pruning branches on constant conditions"""
    t = f.term(b)
    if t.op == "br" and t.get("cond"):
        c = t.ops[0]
        if c[0] == "c":
            succ = t.get("succ")
            return [succ[0]] if int(c[1]) != 0 else [succ[1]]
        C = f.inst(tuple(c)) if c[0] == "i" else None
        if C is not None and C.op == "icmp" and C.get("pred") in ("eq", "ne") and all(o[0] in ("c", "n") for o in C.ops):
            # a comparison of two constants left behind by inlining (a helper's 'if (len != 0)' called with a constant length)
            va, vb = [0 if o[0] == "n" else int(o[1]) for o in C.ops]
            truth = (va == vb) if C.get("pred") == "eq" else (va != vb)
            succ = t.get("succ")
            return [succ[0]] if truth else [succ[1]]
    return list(f.blocks[b].succs)


def branch_edges(f, b):
    """for a conditional br: (cond value, true succ, false succ) else None"""
    t = f.term(b)
    if t.op == "br" and t.get("cond"):
        s = t.get("succ")
        return t.ops[0], s[0], s[1]
    return None


def null_test_edges(f, value):
    """edges (block, succ) on which `value` is known to be null, from
    icmp eq/ne value, null feeding a conditional branch"""
    edges = set()
    for b in f.blocks:
        be = branch_edges(f, b.id)
        if not be:
            continue
        c, ts, fs = be
        I = f.inst(c)
        if I is None or I.op != "icmp":
            continue
        a, bb = I.ops[0], I.ops[1]
        pred = I.get("pred")
        if pred not in ("eq", "ne"):
            continue
        other = None
        if same_ptr(f, a, value) and is_null(bb):
            other = True
        elif same_ptr(f, bb, value) and is_null(a):
            other = True
        if other:
            edges.add((b.id, ts if pred == "eq" else fs))
    return edges


def same_ptr(f, a, b):
    ba, oa = ptr_base(f, a)
    bb, ob = ptr_base(f, b)
    return ba == bb and oa == ob and oa is not None


def rets_reachable_avoiding(f, barrier_ids, pruned_edges=(), start=None):
    """Return list of (ret inst, path of block ids) reachable from entry (or from just
    after instruction `start`) without executing any instruction in barrier_ids and
    without taking any pruned (block, succ) edge."""
    barrier_blocks = {}
    for i in barrier_ids:
        I = f.insts[i]
        barrier_blocks.setdefault(I.b, []).append(f._pos[i])
    pruned = set(pruned_edges)
    out = []
    if start is None:
        init = [(0, -1)]
    else:
        init = [(f.insts[start].b, f._pos[start])]
    seen = set()
    stack = [(b, p, (b,)) for b, p in init]
    while stack:
        b, pos, path = stack.pop()
        if (b, pos >= 0) in seen and pos < 0:
            continue
        if pos < 0:
            seen.add((b, False))
        # barrier after pos in this block?
        if any(p > pos for p in barrier_blocks.get(b, [])):
            continue
        t = f.term(b)
        if t.op == "ret":
            out.append((t, list(path)))
            continue
        for s in feasible_succs(f, b):
            if (b, s) in pruned:
                continue
            if (s, False) in seen:
                continue
            stack.append((s, -1, path + (s,)))
    return out


def blocks_reachable(f, start_block=0, pruned_edges=(), stop_blocks=()):
    seen = set()
    st = [start_block]
    pruned = set(pruned_edges)
    while st:
        b = st.pop()
        if b in seen:
            continue
        seen.add(b)
        if b in stop_blocks:
            continue
        for s in feasible_succs(f, b):
            if (b, s) not in pruned:
                st.append(s)
    return seen


def path_desc(f, path):
    return " -> ".join("%s" % (f.blocks[b].name or ("bb%d" % b)) for b in path)


def icmp_of(f, v):
    I = f.inst(v)
    if I is not None and I.op == "icmp":
        return I
    return None


def eval_icmp(pred, a, b, bits):
    """concrete evaluation of an icmp on unsigned-encoded ints"""
    m = (1 << bits) - 1
    a &= m
    b &= m

    def s(x):
        return x - (1 << bits) if x >> (bits - 1) else x
    return {
        "eq": a == b, "ne": a != b,
        "ugt": a > b, "uge": a >= b, "ult": a < b, "ule": a <= b,
        "sgt": s(a) > s(b), "sge": s(a) >= s(b), "slt": s(a) < s(b), "sle": s(a) <= s(b),
    }[pred]


def edge_cond(f, p, s):
    """condition known on CFG edge p->s from p's terminator: (cond valref, truth) or None"""
    be = branch_edges(f, p)
    if not be:
        return None
    c, ts, fs = be
    if ts == fs:
        return None
    if s == ts:
        return (c, True)
    if s == fs:
        return (c, False)
    return None


def conditions_at(f, b):
    """branch conditions (cond valref, truth) known to hold on entry to block b:
    for each dominator edge d->s where s dominates b and every predecessor of s other
    than d is dominated by s (so s is entered from outside only through d->s)."""
    out = []
    cur = b
    seen = set()
    while cur != -1 and cur not in seen:
        seen.add(cur)
        d = f.blocks[cur].idom
        if d == -1:
            break
        # find the successor s of d that dominates b
        for s in f.blocks[d].succs:
            if f.dominates_block(s, b):
                others = [p for p in f.blocks[s].preds if p != d and not f.dominates_block(s, p)]
                if not others and f.blocks[d].succs.count(s) == 1:
                    ec = edge_cond(f, d, s)
                    if ec:
                        out.append(ec)
        cur = d
    return out


def conditions_on_edge(f, p, s):
    out = list(conditions_at(f, p))
    ec = edge_cond(f, p, s)
    if ec:
        out.append(ec)
    return out


def switch_edge_conds(f, p, s):
    """what a switch terminator in p says on the edge p->s: [(value, "eq", k)] when s is the target of exactly one case (and not the
    default), [(value, "ne", k) for every case] when s is the default target and no case's target"""
    t = f.term(p)
    if t is None or t.op != "switch" or t.get("cases") is None:
        return []
    cases = [(int(cv), dst) for cv, dst in t.get("cases")]
    dflt = t.get("default")
    v = tuple(t.ops[0])
    hit = [k for k, dst in cases if dst == s]
    if s == dflt:
        return [] if hit else [(v, "ne", k) for k, _d in cases]
    if len(hit) == 1 and f.blocks[p].succs.count(s) == 1:
        return [(v, "eq", hit[0])]
    return []


def switch_conds_at(f, b):
    """switch facts known on entry to block b (same dominating-edge criterion as conditions_at)"""
    out = []
    cur = b
    seen = set()
    while cur != -1 and cur not in seen:
        seen.add(cur)
        d = f.blocks[cur].idom
        if d == -1:
            break
        for s in set(f.blocks[d].succs):
            if f.dominates_block(s, b):
                others = [p for p in f.blocks[s].preds if p != d and not f.dominates_block(s, p)]
                if not others:
                    out += switch_edge_conds(f, d, s)
        cur = d
    return out


def switch_conds_on_edge(f, p, s):
    return switch_conds_at(f, p) + switch_edge_conds(f, p, s)
